package fd

// Demonstration for finding F13 (property C09). Copy into fd/ and run
//   go test -vet=off -count=1 -run TestDeadQueueConfigPerPipeline ./fd/
//
// Two pipelines configure a dead queue of the same plugin type with different settings. file.d
// builds every pipeline first and starts them afterwards (FileD.startPipelines), so each dead
// queue must be started with the settings of its own pipeline.

import (
	"net/http"
	"sync"
	"testing"

	"github.com/bitly/go-simplejson"
	"github.com/ozontech/file.d/cfg"
	"github.com/ozontech/file.d/pipeline"
	"github.com/prometheus/client_golang/prometheus"
)

type dqDemoInput struct{}

func (p *dqDemoInput) Start(pipeline.AnyConfig, *pipeline.InputPluginParams) {}
func (p *dqDemoInput) Stop()                                                 {}
func (p *dqDemoInput) Commit(*pipeline.Event)                                {}
func (p *dqDemoInput) PassEvent(*pipeline.Event) bool                        { return true }

type dqDemoMain struct{}

func (p *dqDemoMain) Start(pipeline.AnyConfig, *pipeline.OutputPluginParams) {}
func (p *dqDemoMain) Stop()                                                  {}
func (p *dqDemoMain) Out(*pipeline.Event)                                    {}

type dqDemoTrapConfig struct {
	Target string `json:"target"`
}

var (
	dqDemoMu      sync.Mutex
	dqDemoStarted = map[string]string{} // pipeline name -> target the dead queue was started with
)

type dqDemoTrap struct{}

func (p *dqDemoTrap) Start(config pipeline.AnyConfig, params *pipeline.OutputPluginParams) {
	dqDemoMu.Lock()
	dqDemoStarted[params.PipelineName] = config.(*dqDemoTrapConfig).Target
	dqDemoMu.Unlock()
}
func (p *dqDemoTrap) Stop()               {}
func (p *dqDemoTrap) Out(*pipeline.Event) {}

func TestDeadQueueConfigPerPipeline(t *testing.T) {
	reg := &PluginRegistry{plugins: make(map[string]*pipeline.PluginStaticInfo)}
	reg.RegisterInput(&pipeline.PluginStaticInfo{Type: "dqin", Factory: func() (pipeline.AnyPlugin, pipeline.AnyConfig) { return &dqDemoInput{}, &struct{}{} }})
	reg.RegisterOutput(&pipeline.PluginStaticInfo{Type: "dqmain", Factory: func() (pipeline.AnyPlugin, pipeline.AnyConfig) { return &dqDemoMain{}, &struct{}{} }})
	reg.RegisterOutput(&pipeline.PluginStaticInfo{Type: "dqtrap", Factory: func() (pipeline.AnyPlugin, pipeline.AnyConfig) { return &dqDemoTrap{}, &dqDemoTrapConfig{} }})

	f := &FileD{plugins: reg, mux: http.NewServeMux(), registry: prometheus.NewRegistry()}
	mk := func(target string) *cfg.PipelineConfig {
		raw, err := simplejson.NewJson([]byte(`{"input": {"type": "dqin"}, "output": {"type": "dqmain", "deadqueue": {"type": "dqtrap", "target": "` + target + `"}}}`))
		if err != nil {
			t.Fatal(err)
		}
		return &cfg.PipelineConfig{Raw: raw}
	}
	// as FileD.startPipelines does: build all, then start all
	f.addPipeline("orders", mk("orders-dead-letters"))
	f.addPipeline("payments", mk("payments-dead-letters"))
	for _, p := range f.Pipelines {
		p.Start()
	}
	defer func() {
		for _, p := range f.Pipelines {
			p.Stop()
		}
	}()

	dqDemoMu.Lock()
	defer dqDemoMu.Unlock()
	if got := dqDemoStarted["orders"]; got != "orders-dead-letters" {
		t.Errorf("dead queue of pipeline orders was started with target %q, want orders-dead-letters: failed events of orders go where payments' dead letters go", got)
	}
	if got := dqDemoStarted["payments"]; got != "payments-dead-letters" {
		t.Errorf("dead queue of pipeline payments was started with target %q", got)
	}
}
