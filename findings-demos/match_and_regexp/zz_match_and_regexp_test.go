package pipeline

// Demonstration for finding F15 (property C14). Copy into pipeline/ and run
//   go test -vet=off -count=1 -run TestMatchFieldsAndModeRegexp ./pipeline/
//
// match_fields with match_mode: and (the default) and a regexp condition: the action must be applied
// to an event whose field matches the regexp.

import (
	"regexp"
	"testing"

	insaneJSON "github.com/ozontech/insane-json"
)

func TestMatchFieldsAndModeRegexp(t *testing.T) {
	root, err := insaneJSON.DecodeString(`{"level":"error","service":"billing"}`)
	if err != nil {
		t.Fatal(err)
	}
	defer insaneJSON.Release(root)
	event := &Event{Root: root}
	p := &processor{}

	conds := MatchConditions{
		{Field: []string{"level"}, Regexp: regexp.MustCompile(`^err`)},
		{Field: []string{"service"}, Values: []string{"billing"}},
	}
	if !p.isMatchAnd(conds, event, false) {
		t.Errorf("and-mode: level=~/^err/ and service=billing both hold for the event, but the conditions are reported as not matching")
	}
	if !p.isMatchOr(conds[:1], event, false) {
		t.Errorf("or-mode control: the regexp condition alone should match")
	}
	conds[0].Regexp = regexp.MustCompile(`^warn`)
	if p.isMatchAnd(conds, event, false) {
		t.Errorf("and-mode: a regexp that does not match must make the conjunction false")
	}
}
