package mask

// Demonstration for known finding K8 (property C17). Copy into plugin/action/mask/ and run
//   go test -vet=off -count=1 -run TestIgnoredFieldStaysUnchangedBelowAnotherMasksPath ./plugin/action/mask/
//
// Mask "token" lists a.b in its ignore_fields: nothing below a.b may be changed by it. That holds as
// long as no other list mentions a deeper path. Once another mask lists a.b.c (here in its
// process_fields), the field tree has children under a.b, the walk replaces a.b's node by the empty
// node for every child that is not listed itself (and by the child's own node for the listed one), and
// the ignore mark of a.b is no longer seen below it.

import (
	"sync"
	"testing"

	"github.com/ozontech/file.d/pipeline"
	"github.com/ozontech/file.d/test"
)

func runMaskOnce(t *testing.T, masks []Mask, in string) string {
	t.Helper()
	config := test.NewConfig(&Config{Masks: masks}, nil)
	p, input, output := test.NewPipelineMock(test.NewActionPluginStaticInfo(factory, config, pipeline.MatchModeAnd, nil, false))
	wg := sync.WaitGroup{}
	wg.Add(1)
	out := ""
	output.SetOutFn(func(e *pipeline.Event) {
		out = e.Root.EncodeToString()
		wg.Done()
	})
	input.In(0, "test.log", test.NewOffset(0), []byte(in))
	wg.Wait()
	p.Stop()
	return out
}

func TestIgnoredFieldStaysUnchangedBelowAnotherMasksPath(t *testing.T) {
	const in = `{"a":{"b":{"c":"x token y","d":"token"}},"e":"token"}`
	tokenMask := Mask{Re: "(token)", Groups: []int{0}, ReplaceWord: "MASKED", IgnoreFields: []string{"a.b"}}

	// control: only the token mask is configured: a.b.* is left alone, e is masked
	got := runMaskOnce(t, []Mask{tokenMask}, in)
	want := `{"a":{"b":{"c":"x token y","d":"token"}},"e":"MASKED"}`
	if got != want {
		t.Fatalf("control failed:\n got %s\nwant %s", got, want)
	}

	// another mask that processes only a.b.c and matches nothing here
	other := Mask{Re: "(zzz)", Groups: []int{0}, ReplaceWord: "OTHER", ProcessFields: []string{"a.b.c"}}
	got = runMaskOnce(t, []Mask{other, tokenMask}, in)
	if got != want {
		t.Errorf("the token mask ignores a.b, but with another mask listing a.b.c it changed a field below a.b:\n got %s\nwant %s", got, want)
	}
}
