package http

// Demonstration for finding F14 (property C19). Copy into plugin/output/http/ and run
//   go test -vet=off -count=1 -run TestRawEncodingKeepsEarlierEventsOfTheBatch ./plugin/output/http/
//
// encoding.type=raw sends the value of one field per event. An event that lacks the field must not
// remove the events that are already in the request body of the batch.

import (
	"encoding/json"
	"io"
	nethttp "net/http"
	"net/http/httptest"
	"strings"
	"sync"
	"sync/atomic"
	"testing"
	"time"

	"github.com/ozontech/file.d/pipeline"
	"github.com/ozontech/file.d/test"
	insaneJSON "github.com/ozontech/insane-json"
)

type rawDemoController struct{ commits atomic.Int32 }

func (c *rawDemoController) Commit(*pipeline.Event) { c.commits.Add(1) }
func (c *rawDemoController) Error(string)           {}

func TestRawEncodingKeepsEarlierEventsOfTheBatch(t *testing.T) {
	var (
		mu     sync.Mutex
		bodies []string
	)
	srv := httptest.NewServer(nethttp.HandlerFunc(func(w nethttp.ResponseWriter, r *nethttp.Request) {
		body, _ := io.ReadAll(r.Body)
		mu.Lock()
		bodies = append(bodies, string(body))
		mu.Unlock()
		w.WriteHeader(nethttp.StatusOK)
	}))
	defer srv.Close()

	config := &Config{
		Endpoints:         []string{srv.URL},
		WorkersCount:      "1",
		BatchSize:         "3",
		BatchFlushTimeout: "1m",
		Retention:         "5ms",
		Encoding:          EncodingConfig{Type: EncoderTypeRaw, Params: json.RawMessage(`{"field":"message"}`)},
	}
	test.NewConfig(config, map[string]int{"gomaxprocs": 1, "capacity": 8})

	ctl := &rawDemoController{}
	params := test.NewEmptyOutputPluginParams()
	params.Controller = ctl
	params.PipelineSettings.AvgEventSize = 128

	p := &Plugin{}
	p.Start(config, params)
	defer p.Stop()

	newEvent := func(s string) *pipeline.Event {
		root, err := insaneJSON.DecodeString(s)
		if err != nil {
			t.Fatal(err)
		}
		return &pipeline.Event{Root: root}
	}
	p.Out(newEvent(`{"message":"first"}`))
	p.Out(newEvent(`{"message":"second"}`))
	p.Out(newEvent(`{"level":"info"}`)) // no "message" field

	deadline := time.Now().Add(20 * time.Second)
	for ctl.commits.Load() < 3 {
		if time.Now().After(deadline) {
			t.Fatalf("timeout: %d events committed", ctl.commits.Load())
		}
		time.Sleep(5 * time.Millisecond)
	}
	mu.Lock()
	defer mu.Unlock()
	all := strings.Join(bodies, "")
	t.Logf("bodies received: %q; events committed: %d", bodies, ctl.commits.Load())
	for _, want := range []string{`"first"`, `"second"`} {
		if !strings.Contains(all, want) {
			t.Errorf("event %s was committed as delivered but is not in any request body", want)
		}
	}
}
