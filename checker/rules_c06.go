package main

import (
	"fmt"
	"go/token"
	"go/types"
	"sort"
	"strings"

	"golang.org/x/tools/go/ssa"
)

func init() {
	explain("C06", "Static necessary conditions of 'the file reader emits each complete line once with its end-of-line offset', decided over the source of the file input's read loop by def-use analysis with linear integer forms (sums of SSA values, len() terms and constants, conversions looked through): "+
		"(1) the reader hands data to the pipeline at one site only, control-dependent on a newline having been found in the current read window, and the data ends with that window's prefix through the newline; "+
		"(2) the offset argument is <round-start offset> + <bytes scanned so far> + <newline index> + 1, where the round-start offset is the job's current offset (plus the bytes of skip-reads), the scanned counter starts at 0, and on every edge of the parse loop the counter advances by exactly the number of bytes that leave the window (newline index + 1 when the window is re-sliced past a line; len(window) when an unterminated remainder is moved to the tail; nothing only when the window is known empty); "+
		"(3) every Read's byte count is added to the round's total, and at the end of a round the job's offset advances by that total and the job's tail is a private copy of the unterminated remainder, which the next round starts from; "+
		"(4) after every line - emitted or skipped - the accumulation buffer is emptied and the skip flag is false before the next line is parsed; "+
		"(5) the file position, the job's offset and the job's tail have no other writers: Seek only inside Job.seek, which records the result; no other function of the package reads through an *os.File; "+
		"(6) a line is dropped for size only when the accumulated length plus the line's length exceeds the configured maximum, and the pipeline's own size check (checkInputBytes) refuses, cuts or passes under exactly its documented guards with result shape bytes[:max](+newline); "+
		"NOT decided: that these add up to the stated behaviour for every content, buffer size and append schedule (no arithmetic over contents is evaluated); truncation and rotation histories; compressed files.",
		"go/types, go/ssa and x/tools call resolution are correct",
		"bytes.IndexByte returns the index of the first occurrence or -1; Read returns the number of bytes placed at the start of the buffer")
	reg("C06", "C06.R1", "E2+E6", "lines are handed over only at a found newline; data = window prefix through the newline (after the accumulated tail)", 1, ruleFileLineSite)
	reg("C06", "C06.R2", "E6", "offset argument = round start + scanned + newline index + 1; the scanned counter advances by exactly the bytes leaving the window", 4, ruleFileOffsetArithmetic)
	reg("C06", "C06.R3", "E2+E6", "round bookkeeping: total of all Reads advances Job.curOffset; Job.tail is a private copy of the remainder and seeds the next round", 4, ruleFileRoundBookkeeping)
	reg("C06", "C06.R4", "E2", "after every line the accumulation buffer is emptied and the skip flag is false", 2, ruleFilePerLineReset)
	reg("C06", "C06.R5", "E1", "file position / Job.curOffset / Job.tail ownership", 4, ruleFilePositionOwnership)
	reg("C06", "C06.R6", "E6", "size-limit skip compares accumulated + line length with the configured maximum", 1, ruleFileSizeSkip)
	reg("C06", "C06.R7", "E2", "the pipeline's size check refuses / cuts / passes a line under exactly the documented guards and never writes past it (same rule as C20.R2)", 4, ruleCheckInputBytes)
}

// ---------- linear integer forms ----------

type linKey struct {
	v     ssa.Value
	isLen bool
}

type linForm struct {
	k int64
	t map[linKey]int64
}

func (a linForm) add(b linForm, sign int64) linForm {
	out := linForm{k: a.k + sign*b.k, t: map[linKey]int64{}}
	for k, v := range a.t {
		out.t[k] += v
	}
	for k, v := range b.t {
		out.t[k] += sign * v
	}
	for k, v := range out.t {
		if v == 0 {
			delete(out.t, k)
		}
	}
	return out
}

func (a linForm) equal(b linForm) bool {
	d := a.add(b, -1)
	return d.k == 0 && len(d.t) == 0
}

func isIntegerType(t types.Type) bool {
	b, ok := t.Underlying().(*types.Basic)
	return ok && b.Info()&types.IsInteger != 0
}

// lin: v as a sum of terms. Integer conversions are looked through (the values concerned are
// byte counts and file offsets; a narrowing conversion of those is not an idiom of this code).
func lin(v ssa.Value) linForm { return linN(v, 0) }

func linN(v ssa.Value, d int) linForm {
	atom := func() linForm { return linForm{t: map[linKey]int64{{v, false}: 1}} }
	if d > 12 {
		return atom()
	}
	switch x := v.(type) {
	case *ssa.Const:
		if k, ok := constInt(x); ok {
			return linForm{k: k, t: map[linKey]int64{}}
		}
	case *ssa.Convert:
		if isIntegerType(x.Type()) && isIntegerType(x.X.Type()) {
			return linN(x.X, d+1)
		}
	case *ssa.ChangeType:
		return linN(x.X, d+1)
	case *ssa.BinOp:
		switch x.Op {
		case token.ADD:
			return linN(x.X, d+1).add(linN(x.Y, d+1), 1)
		case token.SUB:
			return linN(x.X, d+1).add(linN(x.Y, d+1), -1)
		}
	case *ssa.Call:
		if b, ok := x.Call.Value.(*ssa.Builtin); ok && b.Name() == "len" && len(x.Call.Args) == 1 {
			return linForm{t: map[linKey]int64{{x.Call.Args[0], true}: 1}}
		}
	}
	return atom()
}

func (c *Ctx) linString(f linForm) string {
	var parts []string
	for k, n := range f.t {
		s := c.path(k.v)
		if k.isLen {
			s = "len(" + s + ")"
		}
		if n != 1 {
			s = fmt.Sprintf("%d*%s", n, s)
		}
		parts = append(parts, s)
	}
	sort.Strings(parts)
	if f.k != 0 || len(parts) == 0 {
		parts = append(parts, fmt.Sprint(f.k))
	}
	return strings.Join(parts, " + ")
}

// ---------- φ webs ----------

// phiWeb: the φ nodes connected to seed through φ edges, and the non-φ inputs of the web.
type phiWebT struct {
	phis   map[*ssa.Phi]bool
	inputs []ssa.Value
}

func phiWeb(seed ssa.Value) *phiWebT {
	w := &phiWebT{phis: map[*ssa.Phi]bool{}}
	p, ok := seed.(*ssa.Phi)
	if !ok {
		return w
	}
	seenIn := map[ssa.Value]bool{}
	var walk func(p *ssa.Phi)
	walk = func(p *ssa.Phi) {
		if w.phis[p] {
			return
		}
		w.phis[p] = true
		for _, e := range p.Edges {
			if q, ok := e.(*ssa.Phi); ok {
				walk(q)
			} else if !seenIn[e] {
				seenIn[e] = true
				w.inputs = append(w.inputs, e)
			}
		}
		if refs := p.Referrers(); refs != nil {
			for _, r := range *refs {
				if q, ok := r.(*ssa.Phi); ok {
					walk(q)
				}
			}
		}
	}
	walk(p)
	return w
}

func (w *phiWebT) has(v ssa.Value) bool {
	p, ok := v.(*ssa.Phi)
	return ok && w.phis[p]
}

// incrementOf: e == <some φ of the web> + δ ?
func (w *phiWebT) incrementOf(e ssa.Value) (base *ssa.Phi, delta linForm, ok bool) {
	f := lin(e)
	for k, n := range f.t {
		if p, isP := k.v.(*ssa.Phi); isP && !k.isLen && n == 1 && w.phis[p] {
			if base != nil {
				return nil, linForm{}, false
			}
			base = p
		}
	}
	if base == nil {
		return nil, linForm{}, false
	}
	delta = f.add(linForm{t: map[linKey]int64{{base, false}: 1}}, -1)
	return base, delta, true
}

// ---------- the reader's shape ----------

type fileReaderShape struct {
	work    *ssa.Function
	in      ssa.CallInstruction // the In call
	offArg  ssa.Value           // first argument of NewOffsets
	idx     *ssa.Call           // bytes.IndexByte(window, '\n') whose result guards the In call
	window  *ssa.Phi            // the read window the newline is searched in
	scanned *phiWebT
	scanPhi *ssa.Phi // the scanned φ in the window's block
	start   *phiWebT
	reads   []*ssa.Call // Read calls of the round (invoke io.Reader.Read) in work
	problem string
}

func isIndexNewline(v ssa.Value) (*ssa.Call, bool) {
	call, ok := stripConv(v).(*ssa.Call)
	if !ok || call.Call.StaticCallee() == nil || qualName(call.Call.StaticCallee()) != "bytes.IndexByte" {
		return nil, false
	}
	if k, isK := constInt(call.Call.Args[1]); !isK || k != '\n' {
		return nil, false
	}
	return call, true
}

func (c *Ctx) fileReader() *fileReaderShape {
	if c.fileShape != nil {
		return c.fileShape
	}
	s := &fileReaderShape{}
	c.fileShape = s
	ro := c.roles()
	s.work = c.Method("plugin/input/file", "worker", "work")
	if s.work == nil || ro.ctlIn == nil {
		s.problem = "worker.work / InputPluginController.In"
		return s
	}
	var ins []ssa.CallInstruction
	for _, fn := range c.ModFuncs {
		if c.pkgOf(fn) != "plugin/input/file" {
			continue
		}
		for _, ci := range callsIn(fn) {
			// the controller may be held through a narrower local interface: same name, same signature
			if cc := ci.Common(); cc.IsInvoke() && cc.Method.Name() == "In" &&
				(cc.Method == ro.ctlIn || types.Identical(sigNoRecv(cc.Method), sigNoRecv(ro.ctlIn))) {
				ins = append(ins, ci)
			}
		}
	}
	if len(ins) != 1 || ins[0].Parent() != s.work {
		s.problem = fmt.Sprintf("%d In call sites in package file (expected exactly 1, in worker.work)", len(ins))
		if len(ins) > 0 {
			s.in = ins[0]
		}
		return s
	}
	s.in = ins[0]
	// offsets argument: NewOffsets(current, streams)
	no, ok := s.in.Common().Args[2].(*ssa.Call)
	if !ok || no.Call.StaticCallee() == nil || no.Call.StaticCallee().Name() != "NewOffsets" {
		s.problem = "offsets argument of In is not built by pipeline.NewOffsets at the call"
		return s
	}
	s.offArg = no.Call.Args[0]
	f := lin(s.offArg)
	var others []ssa.Value
	for k, n := range f.t {
		if call, isIdx := isIndexNewline(k.v); isIdx && !k.isLen && n == 1 && s.idx == nil {
			s.idx = call
			continue
		}
		others = append(others, k.v)
	}
	if s.idx == nil {
		// the newline index may also be absent from the offset (that is R2's finding); locate it from the guard
		for _, l := range c.unitGuards(s.in) {
			if _, x, _, ok := cmpLit(l); ok {
				if call, isIdx := isIndexNewline(x); isIdx {
					s.idx = call
				}
			}
		}
	}
	if s.idx == nil {
		s.problem = "no bytes.IndexByte(window, '\\n') governs the In call"
		return s
	}
	if p, ok := s.idx.Call.Args[0].(*ssa.Phi); ok {
		s.window = p
	} else {
		s.problem = "the searched window is not a loop variable"
		return s
	}
	for _, o := range others {
		w := phiWeb(o)
		if len(w.phis) == 0 {
			continue
		}
		zero, cur := false, false
		for _, in := range w.inputs {
			if k, ok := constInt(in); ok && k == 0 {
				zero = true
			}
			if isLoadOfField(in, fileInPkg, "Job", "curOffset") {
				cur = true
			}
		}
		if zero && s.scanned == nil {
			s.scanned = w
		} else if cur && s.start == nil {
			s.start = w
		}
	}
	if s.scanned != nil {
		for p := range s.scanned.phis {
			if p.Block() == s.window.Block() {
				s.scanPhi = p
			}
		}
	}
	for _, ci := range callsIn(s.work) {
		if call, ok := ci.(*ssa.Call); ok && call.Call.IsInvoke() && call.Call.Method.Name() == "Read" && call.Call.Method.Pkg() != nil && call.Call.Method.Pkg().Path() == "io" {
			s.reads = append(s.reads, call)
		}
	}
	return s
}

func sigNoRecv(f *types.Func) types.Type {
	sig := f.Type().(*types.Signature)
	return types.NewSignatureType(nil, nil, nil, sig.Params(), sig.Results(), sig.Variadic())
}

func (s *fileReaderShape) idxForm(plus int64) linForm {
	return linForm{k: plus, t: map[linKey]int64{{s.idx, false}: 1}}
}

// newlineFound: do the facts at in include "index != -1" (or >= 0) for the governing IndexByte?
func (c *Ctx) newlineKnown(s *fileReaderShape, lits []lit, found bool) bool {
	for _, l := range lits {
		op, x, y, ok := cmpLit(l)
		if !ok {
			continue
		}
		call, isIdx := isIndexNewline(x)
		if !isIdx || call != s.idx {
			continue
		}
		k, isK := constInt(y)
		if !isK {
			continue
		}
		if found && ((op == token.NEQ && k == -1) || (op == token.GEQ && k == 0) || (op == token.GTR && k == -1)) {
			return true
		}
		if !found && ((op == token.EQL && k == -1) || (op == token.LSS && k == 0)) {
			return true
		}
	}
	return false
}

func (c *Ctx) idxFacts(s *fileReaderShape, lits []lit) string {
	var out []string
	for _, l := range lits {
		if _, x, _, ok := cmpLit(l); ok {
			if call, isIdx := isIndexNewline(x); isIdx && call == s.idx {
				out = append(out, c.litString(l))
			}
		}
	}
	if len(out) == 0 {
		return "none"
	}
	return strings.Join(out, " ∧ ")
}

func unitLits(cls []clause) []lit {
	var out []lit
	for _, cl := range cls {
		if len(cl) == 1 {
			out = append(out, cl[0])
		}
	}
	return out
}

func ruleFileLineSite(c *Ctx, r *Rule) {
	s := c.fileReader()
	if s.problem != "" && s.in == nil {
		r.Unresolved(s.problem)
		return
	}
	r.Inst(1)
	pos := s.work.Pos()
	if s.in != nil {
		pos = s.in.Pos()
	}
	r.Ob(s.problem == "", "worker.work|single-line-site", pos, "the file reader hands data to the pipeline at exactly one site, whose offset is built there and which is governed by a newline search in the read window"+ifs(s.problem != "", ": "+s.problem))
	if s.problem != "" {
		return
	}
	r.Ob(c.newlineKnown(s, c.unitGuards(s.in), true), "worker.work|only-at-newline", s.in.Pos(),
		"In is reached only when a newline was found in the window (an unterminated tail is held back); facts about the search at the call: "+c.idxFacts(s, c.unitGuards(s.in)))
	// data argument: window[:idx+1], or append(accumulated, window[:idx+1]...)
	isLine := func(v ssa.Value) bool {
		sl, ok := v.(*ssa.Slice)
		if !ok || sl.X != ssa.Value(s.window) || sl.High == nil {
			return false
		}
		if sl.Low != nil {
			if k, isK := constInt(sl.Low); !isK || k != 0 {
				return false
			}
		}
		return lin(sl.High).equal(s.idxForm(1))
	}
	data := s.in.Common().Args[3]
	var leaves []ssa.Value
	seen := map[ssa.Value]bool{}
	var walk func(v ssa.Value)
	walk = func(v ssa.Value) {
		if seen[v] {
			return
		}
		seen[v] = true
		if p, ok := v.(*ssa.Phi); ok {
			for _, e := range p.Edges {
				walk(e)
			}
			return
		}
		leaves = append(leaves, v)
	}
	walk(data)
	okData := len(leaves) > 0
	why := ""
	for _, lf := range leaves {
		if isLine(lf) {
			continue
		}
		if call, ok := isBuiltinCall(instrOf(lf), "append"); ok && len(call.Call.Args) == 2 && isLine(call.Call.Args[1]) {
			continue
		}
		okData = false
		why = c.path(lf)
	}
	r.Ob(okData, "worker.work|data-is-line", s.in.Pos(), "the data handed over is the window's prefix through the newline, alone or appended to the accumulated tail"+ifs(why != "", "; found "+why))
}

func ifs(b bool, s string) string {
	if b {
		return s
	}
	return ""
}

func ruleFileOffsetArithmetic(c *Ctx, r *Rule) {
	s := c.fileReader()
	if s.problem != "" {
		r.Unresolved(s.problem)
		return
	}
	fn := s.work
	f := lin(s.offArg)
	// (a) the composition of the offset
	r.Inst(1)
	okShape := s.scanned != nil && s.start != nil && s.scanPhi != nil
	if okShape {
		want := linForm{k: 1, t: map[linKey]int64{{s.idx, false}: 1, {s.scanPhi, false}: 1}}
		rest := f.add(want, -1)
		okShape = rest.k == 0 && len(rest.t) == 1
		for k, n := range rest.t {
			if n != 1 || k.isLen || !s.start.has(k.v) && !isLoadOfField(k.v, fileInPkg, "Job", "curOffset") {
				okShape = false
			}
		}
	}
	r.Ob(okShape, "worker.work|offset-composition", s.in.Pos(),
		"offset = <round-start offset> + <bytes scanned before this window position> + <newline index> + 1 (the byte just after the newline); found "+c.linString(f))
	if s.scanned == nil || s.scanPhi == nil {
		return
	}
	// (b) the round-start offset: Job.curOffset (plus skip-read byte counts)
	if s.start != nil {
		for i, in := range s.start.inputs {
			r.Inst(1)
			ok := isLoadOfField(in, fileInPkg, "Job", "curOffset")
			if !ok {
				if _, d, isInc := s.start.incrementOf(in); isInc {
					ok = len(d.t) == 1 && d.k == 0
					for k, n := range d.t {
						if _, isRead := readCount(k.v); !isRead || n != 1 || k.isLen {
							ok = false
						}
					}
				}
			}
			r.Ob(ok, fmt.Sprintf("worker.work|round-start#%d", i), in.Pos(), "the round-start offset is the job's current offset, advanced only by the byte counts of skip-reads; found "+c.path(in))
		}
	}
	// (c) the scanned counter: every edge of every φ of its web
	fi := c.info(fn)
	c.guards(fn)
	var phis []*ssa.Phi
	for p := range s.scanned.phis {
		phis = append(phis, p)
	}
	sort.Slice(phis, func(i, j int) bool { return phis[i].Block().Index < phis[j].Block().Index })
	winLen := linForm{t: map[linKey]int64{{s.window, true}: 1}}
	for pi, p := range phis {
		for i, e := range p.Edges {
			pred := p.Block().Preds[i]
			key := fmt.Sprintf("worker.work|scanned#%d.%d", pi, i)
			r.Inst(1)
			if k, isK := constInt(e); isK {
				r.Ob(k == 0, key+"|init", p.Pos(), "the scanned counter starts a round at 0")
				continue
			}
			if p.Block() == s.window.Block() {
				// pairwise with the window's φ: Δscanned == Δ(window start)
				we := s.window.Edges[i]
				if sl, ok := we.(*ssa.Slice); ok && sl.X == ssa.Value(s.window) {
					low := linForm{t: map[linKey]int64{}}
					if sl.Low != nil {
						low = lin(sl.Low)
					}
					base, d, isInc := s.scanned.incrementOf(e)
					ok := isInc && base == s.scanPhi && d.equal(low) && sl.High == nil
					r.Ob(ok, key+"|advance-equals-consumption", e.Pos(), fmt.Sprintf("when the window is re-sliced from %s the scanned counter advances by the same amount; counter edge = %s", c.linString(low), c.linString(lin(e))))
					// and what is consumed is the line through the newline
					r.Ob(low.equal(s.idxForm(1)) && c.newlineKnown(s, unitLits(fi.facts[sl.Block()]), true), key+"|consumes-through-newline", sl.Pos(), "the window advances to the byte just after the found newline")
					continue
				}
				// fresh window (new Read): the counter is carried over unchanged
				r.Ob(s.scanned.has(e) && !windowDerived(we, s.window), key+"|carried-into-fresh-window", p.Pos(), "a fresh read window starts with the counter carried over unchanged; window edge "+c.path(we))
				continue
			}
			// edges outside the parse-loop head
			if q, isPhi := e.(*ssa.Phi); isPhi && s.scanned.phis[q] {
				if q == s.scanPhi {
					// leaving the parse loop with the counter unchanged: the window must be known empty
					known := false
					for _, l := range unitLits(c.edgeFacts(fi, pred, p.Block())) {
						if op, x, y, ok := cmpLit(l); ok && op == token.EQL {
							if k, isK := constInt(y); isK && k == 0 && lin(x).equal(winLen) {
								known = true
							}
						}
					}
					r.Ob(known, key+"|unchanged-only-when-window-empty", p.Pos(), "the parse loop is left with the counter unchanged only when the window is empty (otherwise bytes move to the tail uncounted and every later offset is short)")
				} else {
					r.Ob(true, key+"|pass-through", p.Pos(), "counter passed on unchanged between loop levels")
				}
				continue
			}
			base, d, isInc := s.scanned.incrementOf(e)
			ok := isInc && base == s.scanPhi && d.equal(winLen)
			var at []lit
			if in, isIn := e.(ssa.Instruction); isIn {
				at = unitLits(fi.facts[in.Block()])
			}
			r.Ob(ok && c.newlineKnown(s, at, false), key+"|remainder-counted", e.Pos(),
				"outside the per-line advance the counter grows only by len(window), and only when no newline is left in it (the remainder moves to the tail); counter edge = "+c.linString(lin(e)))
			if ok {
				// after that the window is abandoned: no way back into the parse loop without a new Read
				isRead := func(in ssa.Instruction) bool {
					for _, rd := range s.reads {
						if in == ssa.Instruction(rd) {
							return true
						}
					}
					return false
				}
				head := s.window.Block().Instrs[0]
				back, _ := c.pathExists(fn, e.(ssa.Instruction), func(in ssa.Instruction) bool { return in == head }, isRead)
				r.Ob(!back, key+"|window-abandoned", e.Pos(), "after counting the remainder the parse loop is not re-entered with the same window")
			}
		}
	}
}

func windowDerived(v ssa.Value, w *ssa.Phi) bool {
	for i := 0; i < 6; i++ {
		if v == ssa.Value(w) {
			return true
		}
		sl, ok := v.(*ssa.Slice)
		if !ok {
			return false
		}
		v = sl.X
	}
	return false
}

// readCount: v is the byte count of a Read call (extract #0 of invoke io.Reader.Read / (*os.File).Read).
func readCount(v ssa.Value) (*ssa.Call, bool) {
	ex, ok := stripConv(v).(*ssa.Extract)
	if !ok || ex.Index != 0 {
		return nil, false
	}
	call, ok := ex.Tuple.(*ssa.Call)
	if !ok {
		return nil, false
	}
	name := ""
	if call.Call.IsInvoke() {
		name = call.Call.Method.Name()
	} else if f := call.Call.StaticCallee(); f != nil {
		name = f.Name()
	}
	return call, name == "Read"
}

func ruleFileRoundBookkeeping(c *Ctx, r *Rule) {
	s := c.fileReader()
	if s.problem != "" {
		r.Unresolved(s.problem)
		return
	}
	fn := s.work
	// the accumulation buffer: first operand of the append that builds the data, or the φ web feeding it
	var tailStores, offStores []*ssa.Store
	for _, b := range fn.Blocks {
		for _, in := range b.Instrs {
			st, ok := in.(*ssa.Store)
			if !ok {
				continue
			}
			o, f, _, ok := fieldOf(st.Addr)
			if !ok {
				continue
			}
			if isField(o, f, fileInPkg, "Job", "tail") {
				tailStores = append(tailStores, st)
			}
			if isField(o, f, fileInPkg, "Job", "curOffset") {
				offStores = append(offStores, st)
			}
		}
	}
	r.Inst(len(tailStores) + len(offStores))
	r.Ob(len(tailStores) >= 1, "worker.work|saves-tail", fn.Pos(), "the round stores the unterminated remainder into Job.tail")
	r.Ob(len(offStores) >= 1, "worker.work|advances-offset", fn.Pos(), "the round advances Job.curOffset")
	// the round's read total
	var total *phiWebT
	for i, st := range offStores {
		f := lin(st.Val)
		okForm := f.k == 0 && len(f.t) == 2
		var tot ssa.Value
		hasCur := false
		for k, n := range f.t {
			if n != 1 || k.isLen {
				okForm = false
			}
			if isLoadOfField(k.v, fileInPkg, "Job", "curOffset") {
				hasCur = true
			} else {
				tot = k.v
			}
		}
		okForm = okForm && hasCur && tot != nil
		r.Ob(okForm, fmt.Sprintf("worker.work|offset-advance#%d|form", i), st.Pos(), "Job.curOffset := Job.curOffset + <total bytes read this round>; found "+c.linString(f))
		if !okForm {
			continue
		}
		total = phiWeb(tot)
		r.Ob(len(total.phis) > 0, fmt.Sprintf("worker.work|offset-advance#%d|total-is-loop-counter", i), st.Pos(), "the amount added is the round's running total of Read results")
	}
	if total != nil && len(total.phis) > 0 {
		var phis []*ssa.Phi
		for p := range total.phis {
			phis = append(phis, p)
		}
		sort.Slice(phis, func(i, j int) bool { return phis[i].Block().Index < phis[j].Block().Index })
		counted := map[*ssa.Call]bool{}
		for pi, p := range phis {
			for i, e := range p.Edges {
				key := fmt.Sprintf("worker.work|read-total#%d.%d", pi, i)
				r.Inst(1)
				if k, isK := constInt(e); isK {
					r.Ob(k == 0, key+"|init", p.Pos(), "the round's read total starts at 0")
					continue
				}
				if total.has(e) {
					// unchanged around the loop: only allowed if no Read happened on that way round
					pred := p.Block().Preds[i]
					readOnWay := false
					if isBackEdge(pred, p.Block()) {
						for _, rd := range s.reads {
							if p.Block().Dominates(rd.Block()) && rd.Block().Dominates(pred) {
								readOnWay = true
							}
						}
					}
					r.Ob(!readOnWay, key+"|no-uncounted-read", p.Pos(), "no iteration that performed a Read leaves the total unchanged")
					continue
				}
				_, d, isInc := total.incrementOf(e)
				ok := isInc && d.k == 0 && len(d.t) == 1
				for k, n := range d.t {
					call, isRead := readCount(k.v)
					if !isRead || n != 1 || k.isLen {
						ok = false
					} else {
						counted[call] = true
					}
				}
				r.Ob(ok, key+"|adds-read-count", e.Pos(), "the total grows by exactly the byte count returned by Read; edge = "+c.linString(lin(e)))
			}
		}
		// every Read of the function is counted in the total or in the round-start offset
		for i, rd := range s.reads {
			ok := counted[rd]
			if !ok && s.start != nil {
				for _, in := range s.start.inputs {
					if _, d, isInc := s.start.incrementOf(in); isInc {
						for k := range d.t {
							if call, isRead := readCount(k.v); isRead && call == rd {
								ok = true
							}
						}
					}
				}
			}
			r.Ob(ok, fmt.Sprintf("worker.work|read#%d|counted", i), rd.Pos(), "the bytes returned by this Read are counted into the job's position (round total or skip-read start offset)")
		}
		// the window is the buffer prefix of that Read's count
		if sl, ok := windowInit(s); ok {
			_, isRead := readCount(sl.High)
			okLow := sl.Low == nil
			if !okLow {
				k, isK := constInt(sl.Low)
				okLow = isK && k == 0
			}
			r.Ob(isRead && okLow, "worker.work|window-is-read-prefix", sl.Pos(), "the parsed window is buffer[:n] for the n returned by the Read that filled it")
		} else {
			r.Ob(false, "worker.work|window-is-read-prefix", s.window.Pos(), "the parsed window is buffer[:n] for the n returned by the Read that filled it")
		}
	}
	// the tail: a private copy of the accumulated remainder
	accum := accumWeb(s)
	for i, st := range tailStores {
		call, ok := isBuiltinCall(instrOf(st.Val), "append")
		okCopy := false
		okSrc := false
		if ok && len(call.Call.Args) == 2 {
			dst := call.Call.Args[0]
			for j := 0; j < 4; j++ {
				if sl, isSl := dst.(*ssa.Slice); isSl {
					dst = sl.X
					continue
				}
				break
			}
			okCopy = isLoadOfField(dst, fileInPkg, "Job", "tail") || isNilConst(dst)
			okSrc = accum != nil && accum.has(call.Call.Args[1])
		}
		r.Ob(okCopy, fmt.Sprintf("worker.work|tail-store#%d|private-copy", i), st.Pos(), "Job.tail is a copy in the job's own storage (the worker's buffers are shared by all jobs of the worker); stored "+c.path(st.Val))
		r.Ob(okSrc, fmt.Sprintf("worker.work|tail-store#%d|is-remainder", i), st.Pos(), "what is saved is the accumulated unterminated remainder")
	}
	// both stores on every way from a Read to the end of the round
	isEnd := func(in ssa.Instruction) bool {
		ci, ok := in.(ssa.CallInstruction)
		if !ok {
			return isReturn(in)
		}
		f := calleeFunc(ci)
		return f != nil && (f.Name() == "continueJob" || f.Name() == "processEOF")
	}
	isSt := func(list []*ssa.Store) func(ssa.Instruction) bool {
		return func(in ssa.Instruction) bool {
			for _, st := range list {
				if in == ssa.Instruction(st) {
					return true
				}
			}
			return false
		}
	}
	for i, rd := range s.reads {
		if !counted(rd, s) {
			continue
		}
		skipT, _ := c.pathExists(fn, rd, isEnd, isSt(tailStores))
		skipO, _ := c.pathExists(fn, rd, isEnd, isSt(offStores))
		r.Ob(!skipT && !skipO, fmt.Sprintf("worker.work|read#%d|round-end-saves", i), rd.Pos(), "every way from a Read to the end of the round (continueJob / processEOF) stores the tail and advances the offset")
	}
	// the next round starts from the saved tail
	if accum != nil {
		fromTail := false
		var seedIn ssa.Instruction
		for _, in := range accum.inputs {
			if call, ok := isBuiltinCall(instrOf(in), "append"); ok && len(call.Call.Args) == 2 && isLoadOfField(call.Call.Args[1], fileInPkg, "Job", "tail") {
				if sl, isSl := call.Call.Args[0].(*ssa.Slice); isSl && sl.High != nil {
					if k, isK := constInt(sl.High); isK && k == 0 {
						fromTail = true
						seedIn = instrOf(in)
					}
				}
			}
		}
		r.Ob(fromTail, "worker.work|round-starts-from-tail", fn.Pos(), "a round's accumulation buffer starts as exactly the job's saved tail (emptied buffer + Job.tail)")
		// ... on every round: the buffer belongs to the worker and is reused for every job, so a path
		// from taking the next job to the first Read that skips the re-seeding leaves the previous
		// job's remainder in front of this job's first line
		if seedIn != nil {
			var recv ssa.Instruction
			for _, b := range fn.Blocks {
				for _, in := range b.Instrs {
					if u, ok := in.(*ssa.UnOp); ok && u.Op == token.ARROW && recv == nil {
						if _, f, _, okf := loadedField(stripConv(u.X)); okf && f == "jobsChan" {
							recv = in
						}
					}
				}
			}
			if recv != nil {
				isRead := func(in ssa.Instruction) bool {
					for _, rd := range s.reads {
						if in == ssa.Instruction(rd) {
							return true
						}
					}
					return false
				}
				skip, _ := c.pathExists(fn, recv, isRead, func(in ssa.Instruction) bool { return in == seedIn })
				r.Ob(!skip, "worker.work|every-round-starts-from-tail", seedIn.Pos(), "between taking a job and its first Read the accumulation buffer is always re-seeded from that job's tail (the buffer is the worker's, shared by all its jobs)")
			} else {
				r.Ob(false, "worker.work|every-round-starts-from-tail", fn.Pos(), "the job receive could not be identified")
			}
		}
	} else {
		r.Ob(false, "worker.work|round-starts-from-tail", fn.Pos(), "the accumulation buffer could not be identified")
	}
}

func counted(rd *ssa.Call, s *fileReaderShape) bool {
	// the Reads of the main loop: those whose count defines the window
	if sl, ok := windowInit(s); ok {
		if call, isRead := readCount(sl.High); isRead && call == rd {
			return true
		}
	}
	return false
}

func instrOf(v ssa.Value) ssa.Instruction {
	in, _ := v.(ssa.Instruction)
	return in
}

// windowInit: the window's non-derived φ input (buffer[:n]).
func windowInit(s *fileReaderShape) (*ssa.Slice, bool) {
	for _, e := range s.window.Edges {
		if windowDerived(e, s.window) {
			continue
		}
		sl, ok := e.(*ssa.Slice)
		if ok && sl.High != nil {
			return sl, true
		}
	}
	return nil, false
}

// accumWeb: the φ web of the accumulation buffer = the destination of the append that builds
// the data argument (or, if the data is never appended, nil).
func accumWeb(s *fileReaderShape) *phiWebT {
	var found *phiWebT
	seen := map[ssa.Value]bool{}
	var walk func(v ssa.Value)
	walk = func(v ssa.Value) {
		if seen[v] || found != nil {
			return
		}
		seen[v] = true
		if p, ok := v.(*ssa.Phi); ok {
			for _, e := range p.Edges {
				walk(e)
			}
			return
		}
		if in := instrOf(v); in != nil {
			if call, ok := isBuiltinCall(in, "append"); ok && len(call.Call.Args) == 2 {
				if w := phiWeb(call.Call.Args[0]); len(w.phis) > 0 {
					found = w
				}
			}
		}
	}
	walk(s.in.Common().Args[3])
	return found
}

func ruleFilePerLineReset(c *Ctx, r *Rule) {
	s := c.fileReader()
	if s.problem != "" {
		r.Unresolved(s.problem)
		return
	}
	fn := s.work
	fi := c.info(fn)
	c.guards(fn)
	accum := accumWeb(s)
	// the skip flag: the boolean φ whose falsity guards the In call
	var skip *phiWebT
	for _, l := range c.unitGuards(s.in) {
		if p, ok := l.v.(*ssa.Phi); ok && !l.pol {
			if b, isB := p.Type().Underlying().(*types.Basic); isB && b.Kind() == types.Bool {
				skip = phiWeb(p)
			}
		}
	}
	wb := s.window.Block()
	n := 0
	for i, we := range s.window.Edges {
		sl, ok := we.(*ssa.Slice)
		if !ok || sl.X != ssa.Value(s.window) {
			continue
		}
		n++
		pred := wb.Preds[i]
		// accumulation buffer emptied on this edge
		okAcc := false
		desc := "no accumulation buffer φ in the parse-loop head"
		for _, in := range wb.Instrs {
			p, isPhi := in.(*ssa.Phi)
			if !isPhi {
				break
			}
			if accum != nil && accum.phis[p] {
				e := p.Edges[i]
				desc = c.path(e)
				if es, isSl := e.(*ssa.Slice); isSl && es.High != nil {
					if k, isK := constInt(es.High); isK && k == 0 && es.Low == nil {
						okAcc = true
					}
				}
			}
		}
		r.Inst(1)
		r.Ob(okAcc, fmt.Sprintf("worker.work|line-edge#%d|accumulation-emptied", n), sl.Pos(), "after a line (emitted or skipped) the accumulation buffer is re-sliced to length 0 before the next line is parsed; buffer on that edge: "+desc)
		// skip flag false on this edge
		if skip == nil {
			continue // no skip flag: nothing to reset
		}
		okSkip := false
		sdesc := "no skip-flag φ in the parse-loop head"
		for _, in := range wb.Instrs {
			p, isPhi := in.(*ssa.Phi)
			if !isPhi {
				break
			}
			if skip.phis[p] {
				e := p.Edges[i]
				sdesc = c.path(e)
				okSkip = c.knownFalseOnEdge(fi, e, pred, wb, 0)
			}
		}
		r.Inst(1)
		r.Ob(okSkip, fmt.Sprintf("worker.work|line-edge#%d|skip-flag-cleared", n), sl.Pos(), "after a line the skip flag is false (a skipped line never takes its neighbours with it); flag on that edge: "+sdesc)
	}
	r.Ob(n >= 1, "worker.work|has-line-edge", fn.Pos(), "the parse loop advances the window past each found line")
}

// knownFalseOnEdge: is boolean v false whenever control passes pred -> b?
func (c *Ctx) knownFalseOnEdge(fi *fnInfo, v ssa.Value, pred, b *ssa.BasicBlock, d int) bool {
	if k, ok := constBool(v); ok {
		return !k
	}
	for _, l := range unitLits(c.edgeFacts(fi, pred, b)) {
		if l.v == v && !l.pol {
			return true
		}
	}
	if p, ok := v.(*ssa.Phi); ok && d < 4 {
		if p.Block() == b {
			return false
		}
		for i, e := range p.Edges {
			if !c.knownFalseOnEdge(fi, e, p.Block().Preds[i], p.Block(), d+1) {
				return false
			}
		}
		return true
	}
	return false
}

func ruleFilePositionOwnership(c *Ctx, r *Rule) {
	seek := c.Method("plugin/input/file", "Job", "seek")
	work := c.Method("plugin/input/file", "worker", "work")
	if seek == nil || work == nil {
		r.Unresolved("Job.seek / worker.work")
		return
	}
	// where a job may be positioned: at the end of the file only by the tail-mode initialiser (selected by
	// the mode parameter); anywhere else at 0, at the position it already has, or back at a position
	// that was read from it in the same function (the maintenance reopen)
	for _, cs := range c.sitesOf(seek) {
		args := cs.Common().Args
		if len(args) < 3 {
			continue
		}
		whence, isK := constInt(args[2])
		r.Inst(1)
		name := c.fnName(cs.Parent())
		if !isK {
			r.Ob(false, name+"|seek-whence", cs.Pos(), "Job.seek is called with a constant whence")
			continue
		}
		switch whence {
		case 2: // io.SeekEnd
			byMode := false
			for _, l := range c.unitGuards(cs) {
				if op, x, y, ok := cmpLit(l); ok && op == token.EQL {
					if _, isC := constInt(y); isC && paramIndex(cs.Parent(), stripConv(x)) >= 0 {
						byMode = true
					}
				}
			}
			r.Ob(byMode, name+"|seek-end-only-in-tail-mode", cs.Pos(), "a job is positioned relative to the END of its file only by the initialiser's tail mode (anywhere else the bytes appended since the job's own offset would be skipped without being read)")
		case 0: // io.SeekStart
			okPos := false
			if k, isC := constInt(args[1]); isC && k == 0 {
				okPos = true
			}
			for _, leaf := range phiLeaves(stripConv(args[1])) {
				if call, isCall := leaf.(*ssa.Call); isCall && call.Call.StaticCallee() == seek {
					okPos = true
				}
			}
			if !okPos {
				// the initialiser's resume position: computed from the loaded offsets (decided by C03.R5)
				for _, a := range c.fieldAccesses(fileInPkg, "jobProvider", "loadedOffsets") {
					if a.fn == cs.Parent() {
						okPos = true
					}
				}
			}
			r.Ob(okPos, name+"|seek-start-position", cs.Pos(), "an absolute position given to a job is 0, a position read from the same job earlier in the function, or the initialiser's resume offset")
		}
	}
	// (*os.File).Seek / Read* only where allowed
	for _, fn := range c.ModFuncs {
		if c.pkgOf(fn) != "plugin/input/file" {
			continue
		}
		for _, ci := range callsIn(fn) {
			f := calleeFunc(ci)
			if f != nil && recvNamed(f) != nil && typeIs(recvNamed(f), "os", "File") {
				switch f.Name() {
				case "Seek":
					r.Inst(1)
					r.Ob(fn == seek, c.fnName(fn)+"|os.File.Seek", ci.Pos(), "the file position is moved only inside Job.seek (which records the result as the job's offset)")
				case "Read", "ReadAt", "ReadFrom", "WriteTo":
					r.Inst(1)
					r.Ob(fn == work, c.fnName(fn)+"|os.File."+f.Name(), ci.Pos(), "only the worker's round reads from a job's file")
				}
			}
		}
		// *os.File converted to an io.Reader (and so readable elsewhere)
		for _, b := range fn.Blocks {
			for _, in := range b.Instrs {
				mi, ok := in.(*ssa.MakeInterface)
				if !ok || !typeIs(deref(mi.X.Type()), "os", "File") {
					continue
				}
				if it, isI := mi.Type().Underlying().(*types.Interface); isI {
					hasRead := false
					for i := 0; i < it.NumMethods(); i++ {
						if it.Method(i).Name() == "Read" {
							hasRead = true
						}
					}
					if hasRead {
						r.Inst(1)
						r.Ob(fn == work, c.fnName(fn)+"|file-as-reader", mi.Pos(), "a file is used as an io.Reader only in the worker's round")
					}
				}
			}
		}
	}
	// Job.seek records the new position on every path
	isCurStore := func(in ssa.Instruction) bool {
		st, ok := in.(*ssa.Store)
		if !ok {
			return false
		}
		o, f, _, ok := fieldOf(st.Addr)
		return ok && isField(o, f, fileInPkg, "Job", "curOffset")
	}
	miss, _ := c.pathExists(seek, nil, isReturn, isCurStore)
	r.Ob(!miss, "Job.seek|records-position", seek.Pos(), "every path of Job.seek stores the resulting position into Job.curOffset")
	for _, st := range storesIn(seek, isCurStore) {
		v := st.(*ssa.Store).Val
		okV := true
		for _, leaf := range phiLeaves(v) {
			if k, isK := constInt(leaf); isK && k == 0 {
				continue // compressed files: position is not seekable, offset restarts at 0
			}
			if ex, isEx := leaf.(*ssa.Extract); isEx && ex.Index == 0 {
				if call, isCall := ex.Tuple.(*ssa.Call); isCall && call.Call.StaticCallee() != nil && call.Call.StaticCallee().Name() == "Seek" {
					continue
				}
			}
			okV = false
		}
		r.Ob(okV, "Job.seek|stores-seek-result", st.Pos(), "the recorded offset is the position returned by Seek (0 for compressed files)")
	}
	// writers of Job.curOffset and Job.tail
	for _, fld := range []string{"curOffset", "tail"} {
		for _, a := range c.fieldAccesses(fileInPkg, "Job", fld) {
			if !a.write {
				continue
			}
			r.Inst(1)
			ok := a.fn == work || (fld == "curOffset" && a.fn == seek)
			r.Ob(ok, fmt.Sprintf("%s|writes-Job.%s", c.fnName(a.fn), fld), a.in.Pos(), "Job."+fld+" is written only by the worker's round"+ifs(fld == "curOffset", " and Job.seek"))
		}
	}
}

func storesIn(fn *ssa.Function, pred func(ssa.Instruction) bool) []ssa.Instruction {
	var out []ssa.Instruction
	for _, b := range fn.Blocks {
		for _, in := range b.Instrs {
			if pred(in) {
				out = append(out, in)
			}
		}
	}
	return out
}

func phiLeaves(v ssa.Value) []ssa.Value {
	var out []ssa.Value
	seen := map[ssa.Value]bool{}
	var walk func(v ssa.Value)
	walk = func(v ssa.Value) {
		if seen[v] {
			return
		}
		seen[v] = true
		if p, ok := v.(*ssa.Phi); ok {
			for _, e := range p.Edges {
				walk(e)
			}
			return
		}
		out = append(out, v)
	}
	walk(v)
	return out
}

func ruleFileSizeSkip(c *Ctx, r *Rule) {
	s := c.fileReader()
	if s.problem != "" {
		r.Unresolved(s.problem)
		return
	}
	fn := s.work
	fi := c.info(fn)
	c.guards(fn)
	accum := accumWeb(s)
	var web *phiWebT
	for _, l := range c.unitGuards(s.in) {
		if p, ok := l.v.(*ssa.Phi); ok && !l.pol {
			if b, isB := p.Type().Underlying().(*types.Basic); isB && b.Kind() == types.Bool {
				web = phiWeb(p)
			}
		}
	}
	if web == nil {
		r.Inst(1)
		r.Ob(true, "worker.work|no-size-skip", fn.Pos(), "the reader does not drop lines by size itself")
		return
	}
	var phis []*ssa.Phi
	for p := range web.phis {
		phis = append(phis, p)
	}
	sort.Slice(phis, func(i, j int) bool { return phis[i].Block().Index < phis[j].Block().Index })
	n := 0
	for _, skip := range phis {
		for i, e := range skip.Edges {
			k, isK := constBool(e)
			if !isK || !k {
				continue
			}
			n++
			r.Inst(1)
			pred := skip.Block().Preds[i]
			ok := false
			desc := ""
			for _, l := range unitLits(append(append([]clause(nil), fi.facts[pred]...), c.edgeFacts(fi, pred, skip.Block())...)) {
				op, x, y, isCmp := cmpLit(l)
				if !isCmp || op != token.GTR {
					continue
				}
				if !isLoadOfField(y, fileInPkg, "worker", "maxEventSize") {
					continue
				}
				f := lin(x)
				desc = c.linString(f)
				hasAcc, hasLine := false, false
				for key, cnt := range f.t {
					if !key.isLen || cnt != 1 {
						continue
					}
					if accum != nil && accum.has(key.v) {
						hasAcc = true
					}
					if sl, isSl := key.v.(*ssa.Slice); isSl && sl.X == ssa.Value(s.window) {
						hasLine = true
					}
				}
				if hasAcc && hasLine && len(f.t) == 2 && f.k == 0 {
					ok = true
				}
			}
			r.Ob(ok, fmt.Sprintf("worker.work|size-skip#%d", n), skip.Pos(), "a line is marked to be dropped only when len(accumulated) + len(line) > max_event_size; compared: "+desc)
		}
	}
	if n == 0 {
		r.Inst(1)
		r.Ob(true, "worker.work|no-size-skip", fn.Pos(), "the reader does not drop lines by size itself")
	}
}
