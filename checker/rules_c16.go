package main

import (
	"fmt"
	"go/token"
	"go/types"
	"strings"

	"golang.org/x/tools/go/ssa"
)

const throttlePkg = modulePath + "/plugin/action/throttle"

func init() {
	explain("C16", "Thin static necessary conditions of the throttle contract (in-memory backend only), decided exhaustively over the source: every access to an in-memory limiter's buckets and distributions is inside its lock()/unlock() region (wrapper summaries); in isAllowed the count is added before it is read back, in the same region and for the same bucket/distribution index, and the verdict is value <= limit; the limiter map is read and written only under its mutex; the map key is built from both the rule part and the throttle key; in the plugin the first matching rule's verdict is returned from inside the rule loop and no rule means 'allowed'; the ring of per-distribution rows is only ever replaced by a rotation of itself, its rows are freshly allocated, never copied over one another and never handed out (each interval keeps its own counters). "+
		"NOT decided: every counting clause of the statement (counts per bucket over time sequences, distribution shares, bucket arithmetic).",
		"go/types, go/ssa and x/tools call resolution are correct", "lock identity is by access path", "the redis backend is out of scope, as in the property's quantifier")
	reg("C16", "C16.R1", "E3", "in-memory limiter state only inside lock()/unlock(); add before get, same indices; verdict value <= limit", 8, ruleLimiterRegion)
	reg("C16", "C16.R2", "E3+E6", "limiter map under its mutex; key built from rule part and throttle key", 4, ruleLimiterMap)
	reg("C16", "C16.R3", "E2", "first matching rule decides; no rule means allowed", 1, ruleFirstMatchingRule)
	reg("C16", "C16.R5", "E6", "the bucket window follows the wall clock only; out-of-window event times count in the newest bucket", 2, ruleWindowFollowsClock)
	reg("C16", "C16.R6", "E6", "rule key prefixes are distinct: position for configured rules, their count for the default rule", 2, ruleRuleKeysDistinct)
	reg("C16", "C16.R4", "E1", "a ring of reference rows is only rotated: rows never duplicated, copied over or handed out", 1, ruleRingRows)
	reg("C16", "C16.R7", "E6", "the shares of a limit distribution are computed from the limit they are attached to", 2, ruleSharesOfOwnLimit)
	reg("C16", "C16.R8", "E2", "a limiter handed out from the map has its generation refreshed (expiry is by last use, not by creation)", 1, ruleLimiterLastUse)
}

func isRedisFn(fn *ssa.Function) bool {
	for f := fn; f != nil; f = f.Parent() {
		if rn := recvNamed(f); rn != nil && rn.Obj().Name() == "redisLimiter" {
			return true
		}
	}
	return false
}

// throttleScope: callers outside the property's scope — the redis backend, and plugin Start
// (initialisation before the limiter map is shared with the processors).
func throttleScope(c *Ctx) func() {
	c.lockScopeSkip = func(fn *ssa.Function) bool { return isRedisFn(fn) || c.isStartOrStop(fn) }
	return func() { c.lockScopeSkip = nil }
}

func ruleLimiterRegion(c *Ctx, r *Rule) {
	defer throttleScope(c)()
	for _, f := range []string{"buckets"} {
		n := map[string]int{}
		for _, a := range c.fieldAccesses(throttlePkg, "inMemoryLimiter", f) {
			if isRedisFn(a.fn) {
				continue
			}
			name := c.fnName(a.fn)
			r.Inst(1)
			n[name]++
			ok, why := c.heldOrUnpublished(a.in, lockRef{refOf(a.base).root, ".mu"}, 2)
			if ok && why == "" {
				why = "inMemoryLimiter." + f + " accessed inside the limiter's lock region"
			}
			r.Ob(ok, fmt.Sprintf("%s|inMemoryLimiter.%s#%d", name, f, n[name]), a.in.Pos(), why)
		}
	}
	// limit.distributions (nested field of the embedded complexLimit)
	n := map[string]int{}
	for _, a := range c.fieldAccesses(throttlePkg, "complexLimit", "distributions") {
		if isRedisFn(a.fn) {
			continue
		}
		ref := refOf(a.addr)
		if rn := namedOf(ref.root.Type()); rn == nil || rn.Obj().Name() != "inMemoryLimiter" {
			continue
		}
		name := c.fnName(a.fn)
		r.Inst(1)
		n[name]++
		ok, why := c.heldOrUnpublished(a.in, lockRef{ref.root, ".mu"}, 2)
		if ok && why == "" {
			why = "limit.distributions accessed inside the limiter's lock region"
		}
		r.Ob(ok, fmt.Sprintf("%s|limit.distributions#%d", name, n[name]), a.in.Pos(), why)
	}
	// add-before-get and the verdict
	isA := c.Method("plugin/action/throttle", "inMemoryLimiter", "isAllowed")
	if isA == nil {
		r.Unresolved("inMemoryLimiter.isAllowed")
		return
	}
	name := c.fnName(isA)
	var adds, gets []ssa.CallInstruction
	for _, ci := range callsIn(isA) {
		cc := ci.Common()
		nm := ""
		if cc.IsInvoke() {
			if n := namedOf(cc.Value.Type()); n != nil && n.Obj().Name() == "buckets" {
				nm = cc.Method.Name()
			}
		} else if f := calleeFunc(ci); f != nil && recvNamed(f) != nil && recvNamed(f).Obj().Name() == "buckets" {
			nm = f.Name()
		}
		switch nm {
		case "add":
			adds = append(adds, ci)
		case "get":
			gets = append(gets, ci)
		}
	}
	r.Ob(len(adds) >= 1 && len(gets) == 1, name+"|add-get-shape", isA.Pos(), fmt.Sprintf("%d buckets.add calls and %d buckets.get calls in isAllowed", len(adds), len(gets)))
	if len(gets) == 1 {
		g := gets[0]
		// every path to the get passes an add with the same (index, distribution) arguments
		isAdd := func(in ssa.Instruction) bool {
			for _, a := range adds {
				if in == ssa.Instruction(a) {
					aa, ga := argsNoRecv(a), argsNoRecv(g)
					if len(aa) >= 2 && len(ga) >= 2 && aa[0] == ga[0] && aa[1] == ga[1] {
						return true
					}
				}
			}
			return false
		}
		miss, _ := c.pathExists(isA, nil, func(in ssa.Instruction) bool { return in == ssa.Instruction(g) }, isAdd)
		r.Ob(!miss, name+"|add-before-get", g.Pos(), "the event is counted (buckets.add) before the count is read back, for the same bucket and distribution index")
		// verdict: get(...) <= limit
		okV := false
		for _, ret := range returnsOf(isA) {
			v := retResults(ret)[0]
			if bo, ok := v.(*ssa.BinOp); ok && bo.Op == token.LEQ && bo.X == g.Value() {
				okV = true
			}
		}
		// the other spelling: constant verdicts under that comparison (`if get(..) <= limit { return true } ... return false`)
		verdictLit := func(l lit, want bool) bool {
			op, x, _, ok := cmpLit(l)
			if !ok || x != g.Value() {
				return false
			}
			if want {
				return op == token.LEQ
			}
			return op == token.GTR
		}
		constUnderVerdict := func(ret *ssa.Return, b bool) bool {
			for _, l := range c.unitGuards(ret) {
				if verdictLit(l, b) {
					return true
				}
			}
			return false
		}
		if !okV {
			hasT, hasF := false, false
			for _, ret := range returnsOf(isA) {
				if b, isK := constBool(retResults(ret)[0]); isK && constUnderVerdict(ret, b) {
					if b {
						hasT = true
					} else {
						hasF = true
					}
				}
			}
			okV = hasT && hasF
		}
		r.Ob(okV, name+"|verdict", g.Pos(), "the verdict is (count after adding) <= limit")
		// the amount added: constant 1 (count kind) or event.Size (size kind)
		for i, a := range adds {
			v := argsNoRecv(a)[2]
			k, isK := constInt(v)
			okAmt := (isK && k == 1) || isLoadOfField(stripConv(v), pipelinePkg, "Event", "Size")
			r.Ob(okAmt, fmt.Sprintf("%s|amount#%d", name, i), a.Pos(), "the amount counted is 1 or the event size: "+c.path(v))
		}
	}
	// a negative limit means unlimited: the only early 'true'
	for i, ret := range returnsOf(isA) {
		if b, isK := constBool(retResults(ret)[0]); isK {
			g := false
			for _, l := range c.unitGuards(ret) {
				if op, _, y, ok := cmpLit(l); ok && op == token.LSS {
					if k, isK := constInt(y); isK && k == 0 {
						g = true
					}
				}
			}
			// constants decided by the count comparison itself are the verdict, not an early return
			isVerdict := false
			if len(gets) == 1 {
				for _, l := range c.unitGuards(ret) {
					if op, x, _, ok := cmpLit(l); ok && x == gets[0].Value() && ((b && op == token.LEQ) || (!b && op == token.GTR)) {
						isVerdict = true
					}
				}
			}
			if isVerdict {
				continue
			}
			r.Ob(b && g, fmt.Sprintf("%s|early-return#%d", name, i), ret.Pos(), "the only constant verdict is 'allowed' for a negative (unlimited) limit")
		}
	}
}

func ruleLimiterMap(c *Ctx, r *Rule) {
	defer throttleScope(c)()
	for _, f := range []string{"lims"} {
		n := map[string]int{}
		for _, a := range c.fieldAccesses(throttlePkg, "limitersMap", f) {
			if isFreshAlloc(refOf(a.base).root) {
				continue
			}
			name := c.fnName(a.fn)
			r.Inst(1)
			n[name]++
			ok, why := c.heldOrUnpublished(a.in, lockRef{refOf(a.base).root, ".mu"}, 2)
			if ok && why == "" {
				why = "limitersMap." + f + " accessed under limitersMap.mu"
			}
			r.Ob(ok, fmt.Sprintf("%s|limitersMap.%s#%d", name, f, n[name]), a.in.Pos(), why)
		}
	}
	// check-then-act: a limiter is inserted only after a lookup of the same map missed, and that
	// lookup and the insert lie in one lock region (no unlock in between) — otherwise two
	// processors racing on a new key each install (and count against) their own limiter
	for _, fn := range c.ModFuncs {
		if c.pkgOf(fn) != "plugin/action/throttle" || c.isStartOrStop(fn) || isRedisFn(fn) || c.startOnly(fn, 3) {
			continue
		}
		nU := 0
		for _, b := range fn.Blocks {
			for _, in := range b.Instrs {
				mu, ok := in.(*ssa.MapUpdate)
				if !ok || !isLoadOfField(mu.Map, throttlePkg, "limitersMap", "lims") {
					continue
				}
				nU++
				r.Inst(1)
				key := fmt.Sprintf("%s|insert#%d", c.fnName(fn), nU)
				var lks []*ssa.Lookup
				for _, l := range c.unitGuards(mu) {
					if e, ok := l.v.(*ssa.Extract); ok && e.Index == 1 && !l.pol {
						if x, ok := e.Tuple.(*ssa.Lookup); ok && x.CommaOk && isLoadOfField(x.X, throttlePkg, "limitersMap", "lims") && sameExpr(x.Index, mu.Key) {
							lks = append(lks, x)
						}
					}
				}
				if len(lks) == 0 {
					r.Ob(false, key+"|after-miss", mu.Pos(), "a limiter is stored into the map without a preceding lookup miss of the same key: an existing limiter (and its counts) can be overwritten, so one key gets several budgets")
					continue
				}
				r.Ob(true, key+"|after-miss", mu.Pos(), "insert is control-dependent on a lookup miss of the same key")
				// some lookup that missed is in the insert's own lock region: no unlock between it and the insert
				isUnlock := func(in2 ssa.Instruction) bool {
					ci, ok := in2.(ssa.CallInstruction)
					if !ok {
						return false
					}
					if _, isDefer := ci.(*ssa.Defer); isDefer {
						return false
					}
					for _, ev := range c.lockEvents(ci) {
						if ev.op == opUnlock && ev.ref.path == ".mu" {
							return true
						}
					}
					return false
				}
				isIns := func(in2 ssa.Instruction) bool { return in2 == ssa.Instruction(mu) }
				split := true
				for _, lk := range lks {
					thisSplit := false
					for _, b := range fn.Blocks {
						for _, u := range b.Instrs {
							if !isUnlock(u) {
								continue
							}
							isU := func(in2 ssa.Instruction) bool { return in2 == u }
							if to, _ := c.pathExists(fn, lk, isU, isIns); !to {
								continue
							}
							if again, _ := c.pathExists(fn, u, isIns, nil); again {
								thisSplit = true
							}
						}
					}
					if !thisSplit {
						split = false
					}
				}
				r.Ob(!split, key+"|same-region", mu.Pos(), "the lookup that missed and the insert are in one lock region (the lock is not released in between)")
			}
		}
	}
	// key = f(rule part, throttle key)
	goa := c.Method("plugin/action/throttle", "limitersMap", "getOrAdd")
	if goa == nil {
		r.Unresolved("limitersMap.getOrAdd")
		return
	}
	name := c.fnName(goa)
	for i, b := range goa.Blocks {
		for _, in := range b.Instrs {
			var key ssa.Value
			switch x := in.(type) {
			case *ssa.Lookup:
				if isLoadOfField(x.X, throttlePkg, "limitersMap", "lims") {
					key = x.Index
				}
			case *ssa.MapUpdate:
				if isLoadOfField(x.Map, throttlePkg, "limitersMap", "lims") {
					key = x.Key
				}
			}
			if key == nil {
				continue
			}
			var hasKey, hasRule bool
			seen := map[ssa.Value]bool{}
			var walk func(v ssa.Value, d int)
			walk = func(v ssa.Value, d int) {
				if v == nil || seen[v] || d > 10 {
					return
				}
				seen[v] = true
				if p, ok := v.(*ssa.Parameter); ok && paramIndex(goa, p) == 1 {
					hasKey = true
				}
				if o, f, _, ok := loadedField(v); ok && o != nil && o.Obj().Name() == "rule" && f == "byteIdxPart" {
					hasRule = true
				}
				if al := varOf(v); al != nil {
					for _, ref := range *al.Referrers() {
						if st, ok := ref.(*ssa.Store); ok && st.Addr == ssa.Value(al) {
							walk(st.Val, d+1)
						}
					}
				}
				if ins, ok := v.(ssa.Instruction); ok {
					for _, op := range ins.Operands(nil) {
						if *op != nil {
							walk(*op, d+1)
						}
					}
				}
			}
			walk(key, 0)
			r.Ob(hasKey && hasRule, fmt.Sprintf("%s|key#%d", name, i), in.Pos(), "the limiter is looked up / stored under a key built from the rule's part AND the throttle key (keys never share a budget, rules neither)")
		}
	}
}

func ruleFirstMatchingRule(c *Ctx, r *Rule) {
	var pa *ssa.Function
	for _, fn := range c.ModFuncs {
		if c.pkgOf(fn) == "plugin/action/throttle" && recvNamed(fn) != nil && recvNamed(fn).Obj().Name() == "Plugin" && fn.Name() == "isAllowed" {
			pa = fn
		}
	}
	if pa == nil {
		r.Unresolved("throttle Plugin.isAllowed")
		return
	}
	r.Inst(1)
	name := c.fnName(pa)
	var verdict ssa.CallInstruction
	for _, ci := range callsIn(pa) {
		cc := ci.Common()
		if cc.IsInvoke() && cc.Method.Name() == "isAllowed" {
			verdict = ci
		}
	}
	if verdict == nil {
		r.Ob(false, name+"|verdict-call", pa.Pos(), "no limiter.isAllowed call")
		return
	}
	// guarded by rule.isMatch(event) == true, inside the loop
	g := false
	var matchCall *ssa.Call
	for _, l := range c.unitGuards(verdict) {
		if call, ok := l.v.(*ssa.Call); ok && l.pol && call.Call.StaticCallee() != nil && call.Call.StaticCallee().Name() == "isMatch" {
			g, matchCall = true, call
		}
	}
	// the other spelling: the matching rule is found first by a search (helper or literal called in
	// place) that returns the first rule whose isMatch holds, or nil; the limiter is consulted under
	// `found != nil`
	var foundRule ssa.Value
	if !g {
		for _, l := range c.unitGuards(verdict) {
			op, x, y, ok := cmpLit(l)
			if !ok || op != token.NEQ || !isNilConst(y) {
				continue
			}
			call, isCall := x.(*ssa.Call)
			if !isCall {
				continue
			}
			var h *ssa.Function
			if f := call.Call.StaticCallee(); f != nil && c.inModule(f) {
				h = f
			} else if mc, isMC := call.Call.Value.(*ssa.MakeClosure); isMC {
				h, _ = mc.Fn.(*ssa.Function)
			}
			if h == nil || h.Blocks == nil {
				continue
			}
			okAll, n := true, 0
			for _, ret := range returnsOf(h) {
				res := retResults(ret)
				if len(res) != 1 {
					okAll = false
					continue
				}
				if isNilConst(res[0]) {
					continue
				}
				n++
				matched := false
				for _, l2 := range c.unitGuards(ret) {
					if mcall, ok2 := l2.v.(*ssa.Call); ok2 && l2.pol && mcall.Call.StaticCallee() != nil && mcall.Call.StaticCallee().Name() == "isMatch" && mcall.Call.Args[0] == res[0] {
						matched = true
					}
				}
				if !matched {
					okAll = false
				}
			}
			if okAll && n >= 1 {
				g, foundRule = true, x
			}
		}
	}
	r.Ob(g, name+"|under-match", verdict.Pos(), "the limiter is consulted only for a matching rule")
	// returned directly
	returned := false
	for _, ret := range returnsOf(pa) {
		if retResults(ret)[0] == verdict.Value() {
			returned = true
		}
	}
	r.Ob(returned, name+"|returned-from-loop", verdict.Pos(), "the first matching rule's verdict is returned at once (later rules cannot override it)")
	again, _ := c.pathExists(pa, verdict, func(in ssa.Instruction) bool { return in == ssa.Instruction(verdict) }, nil)
	r.Ob(!again, name+"|single-verdict", verdict.Pos(), "at most one limiter is consulted per event")
	// the limiter comes from getOrAdd called with the matched rule
	okRule := false
	if foundRule != nil {
		for _, ci := range callsIn(pa) {
			if f := calleeFunc(ci); f != nil && f.Name() == "getOrAdd" {
				args := ci.Common().Args
				if len(args) >= 5 && args[len(args)-1] == foundRule && instrDominates(ci, verdict) {
					okRule = true
				}
			}
		}
	}
	if matchCall != nil {
		for _, ci := range callsIn(pa) {
			if f := calleeFunc(ci); f != nil && f.Name() == "getOrAdd" {
				args := ci.Common().Args
				if len(args) >= 5 && args[len(args)-1] == matchCall.Call.Args[0] && instrDominates(ci, verdict) {
					okRule = true
				}
			}
		}
	}
	r.Ob(okRule, name+"|limiter-of-matched-rule", verdict.Pos(), "the limiter consulted belongs to the rule that matched")
	// no rule: allowed
	okDef := false
	for _, ret := range returnsOf(pa) {
		if b, isK := constBool(retResults(ret)[0]); isK {
			okDef = b
			if !b {
				r.Ob(false, name+"|const-false", ret.Pos(), "a constant 'not allowed' verdict")
			}
		}
	}
	r.Ob(okDef, name+"|no-rule-allowed", pa.Pos(), "an event matching no rule is allowed")
}

// argsNoRecv: call arguments without the receiver (invoke calls carry none).
func argsNoRecv(ci ssa.CallInstruction) []ssa.Value {
	cc := ci.Common()
	if cc.IsInvoke() {
		return cc.Args
	}
	if f := cc.StaticCallee(); f != nil && f.Signature.Recv() != nil && len(cc.Args) > 0 {
		return cc.Args[1:]
	}
	return cc.Args
}

// startOnly: fn is reachable only from plugin Start/Stop methods (initialisation code).
func (c *Ctx) startOnly(fn *ssa.Function, depth int) bool {
	if fn.Parent() != nil {
		return c.startOnly(fn.Parent(), depth)
	}
	sites := c.sitesOf(fn)
	if len(sites) == 0 || depth == 0 || c.dynamicallyCallable(fn) {
		return false
	}
	for _, s := range sites {
		caller := s.Parent()
		for caller.Parent() != nil {
			caller = caller.Parent()
		}
		if c.isStartOrStop(caller) {
			continue
		}
		if !c.startOnly(caller, depth-1) {
			return false
		}
	}
	return true
}

// ruleRingRows: a bucket ring whose buckets are themselves slices (one counter per
// distribution value) holds references. The ring may be rotated, but a row must never be
// present twice (two intervals would then share one set of counters) and must never leave
// the ring as a mutable reference.
func ruleRingRows(c *Ctx, r *Rule) {
	iface := c.Named("plugin/action/throttle", "buckets")
	if iface == nil {
		r.Unresolved("throttle.buckets interface")
		return
	}
	for _, t := range c.Implementers(iface) {
		n := namedOf(deref(t))
		if n == nil {
			continue
		}
		st, ok := n.Underlying().(*types.Struct)
		if !ok {
			continue
		}
		for i := 0; i < st.NumFields(); i++ {
			fld := st.Field(i)
			ring, isSl := fld.Type().Underlying().(*types.Slice)
			if !isSl {
				continue
			}
			if _, rowIsSlice := ring.Elem().Underlying().(*types.Slice); !rowIsSlice {
				continue
			}
			r.Inst(1)
			tn, fnm := n.Obj().Name(), fld.Name()
			isRing := func(v ssa.Value) bool {
				for d := 0; d < 4; d++ {
					if sl, ok := v.(*ssa.Slice); ok {
						v = sl.X
						continue
					}
					break
				}
				return isLoadOfField(v, throttlePkg, tn, fnm)
			}
			// (a) stores to the ring field
			for _, a := range c.fieldAccesses(throttlePkg, tn, fnm) {
				if !a.write {
					continue
				}
				key := fmt.Sprintf("%s.%s|%s|ring-store", tn, fnm, c.fnName(a.fn))
				if isFreshAlloc(a.base) || isMake(a.val) {
					r.Ob(true, key, a.in.Pos(), "ring allocated in the constructor")
					continue
				}
				okRot := false
				if call, ok := isBuiltinCall(instrOf(a.val), "append"); ok && len(call.Call.Args) == 2 {
					d, dOK := call.Call.Args[0].(*ssa.Slice)
					s, sOK := call.Call.Args[1].(*ssa.Slice)
					if dOK && sOK && isRing(d.X) && isRing(s.X) && d.Low != nil && d.High == nil && s.Low == nil && s.High != nil && lin(d.Low).equal(lin(s.High)) {
						okRot = true
					}
				}
				r.Ob(okRot, key, a.in.Pos(), "the ring is replaced only by a rotation of itself, append(ring[k:], ring[:k]...): every row stays in the ring exactly once")
			}
			// (b) element stores, (c) copy into the ring, (d) rows returned
			for _, fn := range c.ModFuncs {
				if c.pkgOf(fn) != "plugin/action/throttle" {
					continue
				}
				nEl, nCp, nRet := 0, 0, 0
				for _, b := range fn.Blocks {
					for _, in := range b.Instrs {
						switch x := in.(type) {
						case *ssa.Store:
							ia, ok := x.Addr.(*ssa.IndexAddr)
							if !ok || !isRing(ia.X) {
								continue
							}
							nEl++
							fresh := isMake(x.Val)
							if call, isCall := x.Val.(*ssa.Call); isCall && call.Call.StaticCallee() != nil {
								fresh = returnsFreshMake(call.Call.StaticCallee())
							}
							r.Ob(fresh, fmt.Sprintf("%s.%s|%s|row-store#%d", tn, fnm, c.fnName(fn), nEl), x.Pos(), "a row stored into the ring is freshly allocated (never a row that is already in the ring)")
						case *ssa.Call:
							if _, isCopy := isBuiltinCall(x, "copy"); isCopy && isRing(x.Call.Args[0]) {
								nCp++
								r.Ob(false, fmt.Sprintf("%s.%s|%s|copy-into-ring#%d", tn, fnm, c.fnName(fn), nCp), x.Pos(), "copy() into a ring of reference rows duplicates row references: two intervals then share one set of counters")
							}
						case *ssa.Return:
							for _, res := range retResults(x) {
								if u, ok := res.(*ssa.UnOp); ok && u.Op == token.MUL {
									if ia, isIA := u.X.(*ssa.IndexAddr); isIA && isRing(ia.X) {
										nRet++
										r.Ob(false, fmt.Sprintf("%s.%s|%s|row-returned#%d", tn, fnm, c.fnName(fn), nRet), x.Pos(), "a row of the ring is handed out as a mutable reference")
									}
								}
							}
						}
					}
				}
			}
		}
	}
}

func isMake(v ssa.Value) bool {
	switch v.(type) {
	case *ssa.MakeSlice:
		return true
	}
	return false
}

// returnsFreshMake: every return of f is a make (through value-preserving conversions).
func returnsFreshMake(f *ssa.Function) bool {
	rets := returnsOf(f)
	if len(rets) == 0 {
		return false
	}
	for _, ret := range rets {
		res := retResults(ret)
		if len(res) != 1 {
			return false
		}
		v := res[0]
		for {
			if ct, ok := v.(*ssa.ChangeType); ok {
				v = ct.X
				continue
			}
			break
		}
		if !isMake(v) {
			return false
		}
	}
	return true
}

// ruleWindowFollowsClock: the ring is rotated by the wall clock only. An event's own time chooses
// the bucket inside the window (out-of-window times go to the newest bucket); it never moves the
// window, otherwise one event stamped in the future empties the current buckets and then blocks
// the key until the clock catches up.
func ruleWindowFollowsClock(c *Ctx, r *Rule) {
	n := 0
	for _, fn := range c.ModFuncs {
		if c.pkgOf(fn) != "plugin/action/throttle" || isRedisFn(fn) {
			continue
		}
		for _, ci := range callsIn(fn) {
			cc := ci.Common()
			if !cc.IsInvoke() || cc.Method.Name() != "rebuild" || len(cc.Args) != 2 {
				continue
			}
			n++
			r.Inst(1)
			okClock := false
			desc := c.path(cc.Args[0])
			if call, ok := cc.Args[0].(*ssa.Call); ok && call.Call.StaticCallee() == nil && !call.Call.IsInvoke() {
				if _, f, _, isF := loadedField(call.Call.Value); isF && strings.Contains(strings.ToLower(f), "now") {
					okClock = true
				}
			}
			r.Ob(okClock, fmt.Sprintf("%s|rebuild#%d|current-time-is-the-clock", c.fnName(fn), n), ci.Pos(), "the 'current time' that rotates the bucket ring is read from the limiter's clock, never derived from the event's time: "+desc)
		}
	}
	r.Ob(n >= 1, "plugin/action/throttle|rebuild-sites", token.NoPos, "the limiter rebuilds its buckets before counting")
	// out-of-window event times are mapped to the newest bucket
	rb := c.Func("plugin/action/throttle", "rebuildBuckets")
	if rb == nil {
		r.Unresolved("throttle.rebuildBuckets")
		return
	}
	r.Inst(1)
	clamp := false
	for _, ret := range returnsOf(rb) {
		phi, ok := retResults(ret)[0].(*ssa.Phi)
		if !ok {
			continue
		}
		for _, e := range phi.Edges {
			if isLoadOfField(e, throttlePkg, "bucketsMeta", "maxID") {
				clamp = true
			}
		}
	}
	r.Ob(clamp, c.fnName(rb)+"|out-of-window-to-newest", rb.Pos(), "an event time outside the retained window is counted in the newest bucket (result is the event's bucket id or maxID)")
}

// ruleRuleKeysDistinct: every rule, and the default rule, has its own key prefix: configured rules are
// numbered by their position and the default rule by the number of configured rules.
func ruleRuleKeysDistinct(c *Ctx, r *Rule) {
	nr := c.Func("plugin/action/throttle", "newRule")
	if nr == nil {
		r.Unresolved("throttle.newRule")
		return
	}
	idx, cnt := 0, 0
	for _, ci := range c.sitesOf(nr) {
		args := ci.Common().Args
		if len(args) < 3 {
			continue
		}
		r.Inst(1)
		a := args[len(args)-1]
		kind := ""
		// position in the loop over config.Rules: rangeindex φ + 1
		if bo, ok := a.(*ssa.BinOp); ok && bo.Op == token.ADD {
			if p, isPhi := bo.X.(*ssa.Phi); isPhi {
				if k, isK := constInt(bo.Y); isK && k == 1 {
					okPhi := false
					for _, e := range p.Edges {
						if kk, isKK := constInt(e); isKK && kk == -1 {
							okPhi = true
						}
					}
					if okPhi {
						kind = "index"
					}
				}
			}
		}
		if kind == "" {
			f := lin(a)
			if f.k == 0 && len(f.t) == 1 {
				for key, n := range f.t {
					if key.isLen && n == 1 && isLoadOfField(key.v, throttlePkg, "Config", "Rules") {
						kind = "count"
					}
				}
			}
		}
		switch kind {
		case "index":
			idx++
		case "count":
			cnt++
		}
		r.Ob(kind != "", fmt.Sprintf("%s|newRule#%d|own-number", c.fnName(ci.Parent()), idx+cnt), ci.Pos(), "a rule's key prefix is its position among the configured rules, the default rule's is their count (so no two rules can share limiters): "+c.path(a))
	}
	r.Ob(idx >= 1 && cnt == 1, "plugin/action/throttle|rule-numbering", nr.Pos(), fmt.Sprintf("configured rules numbered by position (%d site) and exactly one default rule numbered by their count (%d)", idx, cnt))
}

// ruleSharesOfOwnLimit: a limit distribution turns ratios into absolute shares of a TOTAL
// (share = round(ratio * total)). The shares are only meaningful together with the limit they were
// computed from: wherever a limit and a distribution are put together (complexLimit), the total handed
// to the share computation is that very limit. Shares computed from another limit (e.g. the plugin's
// default limit for a rule with its own limit) let a rule pass more or fewer events than its limit.
func ruleSharesOfOwnLimit(c *Ctx, r *Rule) {
	const thrPkg = modulePath + "/plugin/action/throttle"
	cl := c.Named("plugin/action/throttle", "complexLimit")
	if cl == nil {
		r.Unresolved("throttle.complexLimit")
		return
	}
	type pair struct {
		value, distr ssa.Value
		pos          token.Pos
		fn           *ssa.Function
	}
	byBase := map[ssa.Value]*pair{}
	var order []ssa.Value
	for _, fn := range c.ModFuncs {
		if c.pkgOf(fn) != "plugin/action/throttle" {
			continue
		}
		for _, b := range fn.Blocks {
			for _, in := range b.Instrs {
				st, ok := in.(*ssa.Store)
				if !ok {
					continue
				}
				o, f, base, ok := fieldOf(st.Addr)
				if !ok || o != cl {
					continue
				}
				p := byBase[base]
				if p == nil {
					p = &pair{pos: st.Pos(), fn: fn}
					byBase[base] = p
					order = append(order, base)
				}
				switch f {
				case "value":
					p.value = st.Val
				case "distributions":
					p.distr = st.Val
				}
			}
		}
	}
	n := 0
	for _, base := range order {
		p := byBase[base]
		if p.value == nil || p.distr == nil {
			continue
		}
		// the distribution comes from a call with an integer total
		var call *ssa.Call
		for _, leaf := range phiLeaves(stripConv(p.distr)) {
			if e, ok := leaf.(*ssa.Extract); ok {
				if cc, ok := e.Tuple.(*ssa.Call); ok {
					call = cc
				}
			}
			if cc, ok := leaf.(*ssa.Call); ok {
				call = cc
			}
			if u, ok := leaf.(*ssa.UnOp); ok && u.Op == token.MUL {
				if cv := cellValue(u.X); cv != nil {
					if e, ok := cv.(*ssa.Extract); ok {
						if cc, ok := e.Tuple.(*ssa.Call); ok {
							call = cc
						}
					}
				}
			}
		}
		if call == nil {
			continue
		}
		var total ssa.Value
		for _, a := range call.Call.Args {
			if isIntegerType(a.Type()) {
				total = a
			}
		}
		if total == nil {
			continue
		}
		n++
		r.Inst(1)
		same := c.path(stripConv(total)) == c.path(stripConv(p.value))
		r.Ob(same, fmt.Sprintf("%s|complexLimit#%d|shares-of-its-limit", c.fnName(p.fn), n), p.pos,
			"the shares of a limit distribution are computed from the limit they are attached to (limit "+c.path(stripConv(p.value))+", shares computed from "+c.path(stripConv(total))+")")
	}
	r.Ob(n >= 2, "throttle|limit-with-distribution", token.NoPos, fmt.Sprintf("%d places where a limit and its distribution are put together", n))
}

// ruleLimiterLastUse: limiters are expired by generation: maintenance deletes a limiter whose generation
// is older than the expiration. The generation must therefore record the LAST USE: every return of
// getOrAdd that hands out a limiter found in the map passes a store of the current generation into
// it (a limiter whose generation is only its creation time is deleted while its key is active, and
// the key then gets a fresh limiter with empty buckets: limit more events pass in a bucket already used).
func ruleLimiterLastUse(c *Ctx, r *Rule) {
	goa := c.Method("plugin/action/throttle", "limitersMap", "getOrAdd")
	if goa == nil {
		r.Unresolved("limitersMap.getOrAdd")
		return
	}
	const thrPkg = modulePath + "/plugin/action/throttle"
	isGenStore := func(in ssa.Instruction) bool {
		ci, ok := in.(ssa.CallInstruction)
		if !ok {
			return false
		}
		f := calleeFunc(ci)
		if f == nil || f.Name() != "Store" || len(ci.Common().Args) < 2 {
			return false
		}
		_, fl, _, okf := fieldOf(ci.Common().Args[0])
		if !okf {
			_, fl, _, okf = loadedField(stripConv(ci.Common().Args[0]))
		}
		return okf && fl == "gen" && isLoadOfField(stripConv(ci.Common().Args[1]), thrPkg, "limitersMap", "curGen")
	}
	n := 0
	for _, b := range goa.Blocks {
		for _, in := range b.Instrs {
			lk, ok := in.(*ssa.Lookup)
			if !ok || !lk.CommaOk || !isLoadOfField(stripConv(lk.X), thrPkg, "limitersMap", "lims") {
				continue
			}
			n++
			r.Inst(1)
			// returns reached with this lookup's found flag true
			bad := token.NoPos
			for _, ret := range returnsOf(goa) {
				found := false
				for _, l := range c.unitGuards(ret) {
					if e, isE := l.v.(*ssa.Extract); isE && e.Tuple == ssa.Value(lk) && e.Index == 1 && l.pol {
						found = true
					}
				}
				if !found {
					continue
				}
				if miss, _ := c.pathExists(goa, lk, func(x ssa.Instruction) bool { return x == ssa.Instruction(ret) }, isGenStore); miss {
					bad = ret.Pos()
				}
			}
			pos := lk.Pos()
			if bad != token.NoPos {
				pos = bad
			}
			r.Ob(bad == token.NoPos, fmt.Sprintf("%s|lookup#%d|found-limiter-refreshed", c.fnName(goa), n), pos, "a limiter found in the map has its generation set to the current one before it is handed out (the generation records the last use; maintenance expires by it)")
		}
	}
	r.Ob(n >= 1, c.fnName(goa)+"|lookups", goa.Pos(), fmt.Sprintf("%d look-ups of the limiter map examined", n))
}
