package main

import (
	"fmt"
	"go/types"

	"golang.org/x/tools/go/ssa"
)

// C14.R8 — legacy match_fields: which test a configured value selects.
//
// A scalar value starting with '/' is a regular expression; a list is a set of exact (or prefix)
// values, whatever its elements look like. extractConditions decides this per field while it walks the
// configuration map: the value list of a condition must never be turned into a regexp. Structurally:
// from the success edge of the assertion "the configured value is a list" no path of the same loop
// iteration reaches a store to MatchCondition.Regexp.
func init() {
	reg("C14", "C14.R8", "E2", "legacy match_fields: a configured list is a value set, never compiled into a regexp; only a scalar starting with / is", 1, ruleListNeverRegexp)
}

func ruleListNeverRegexp(c *Ctx, r *Rule) {
	fn := c.Func("fd", "extractConditions")
	if fn == nil {
		r.Unresolved("fd.extractConditions")
		return
	}
	name := c.fnName(fn)
	isRegexpStore := func(in ssa.Instruction) bool {
		st, ok := in.(*ssa.Store)
		if !ok {
			return false
		}
		o, f, _, ok := fieldOf(st.Addr)
		return ok && isField(o, f, modulePath+"/pipeline", "MatchCondition", "Regexp")
	}
	nStores, nLists := 0, 0
	for _, b := range fn.Blocks {
		for _, in := range b.Instrs {
			if isRegexpStore(in) {
				nStores++
			}
		}
	}
	r.Ob(nStores >= 1, name+"|regexp-assigned", fn.Pos(), fmt.Sprintf("extractConditions assigns MatchCondition.Regexp (%d stores)", nStores))
	for _, b := range fn.Blocks {
		for _, in := range b.Instrs {
			ta, ok := in.(*ssa.TypeAssert)
			if !ok || !ta.CommaOk {
				continue
			}
			if _, isSlice := ta.AssertedType.Underlying().(*types.Slice); !isSlice {
				continue
			}
			// the If that branches on the ok component
			var branch *ssa.If
			if refs := ta.Referrers(); refs != nil {
				for _, rf := range *refs {
					if ex, ok := rf.(*ssa.Extract); ok && ex.Index == 1 {
						if er := ex.Referrers(); er != nil {
							for _, u := range *er {
								if i, ok := u.(*ssa.If); ok {
									branch = i
								}
							}
						}
					}
				}
			}
			if branch == nil {
				r.Ob(false, name+"|list-assertion-branch", ta.Pos(), "the list assertion's verdict is branched on directly")
				continue
			}
			nLists++
			r.Inst(1)
			// innermost loop header around the assertion
			var header *ssa.BasicBlock
			for h := b; h != nil && header == nil; h = h.Idom() {
				for _, p := range h.Preds {
					if h.Dominates(p) && reaches(b, p) {
						header = h
					}
				}
			}
			blockAt := func(i ssa.Instruction) bool { return header != nil && i.Block() == header && instrIndex(i) == 0 }
			edgeOK := func(bb *ssa.BasicBlock, i int) bool { return !(bb == branch.Block() && i == 1) }
			// a store that only executes after the SAME value was successfully asserted to be a string
			// cannot follow a successful list assertion: such stores are not targets
			scalarGuarded := func(in ssa.Instruction) bool {
				return c.guardedBy(in, func(l lit) bool {
					ex, ok := l.v.(*ssa.Extract)
					if !ok || !l.pol || ex.Index != 1 {
						return false
					}
					t2, ok := ex.Tuple.(*ssa.TypeAssert)
					if !ok || !sameValue(t2.X, ta.X) {
						return false
					}
					bt, ok := t2.AssertedType.Underlying().(*types.Basic)
					return ok && bt.Kind() == types.String
				})
			}
			target := func(in ssa.Instruction) bool { return isRegexpStore(in) && !scalarGuarded(in) }
			hit, at := c.pathExistsE(fn, branch, target, blockAt, edgeOK)
			pos := ta.Pos()
			if hit && at != nil {
				pos = at.Pos()
			}
			r.Ob(!hit, name+"|list-never-regexp", pos, "no path from `the configured value is a list` to an assignment of MatchCondition.Regexp within the same field: a list is a value set even when it has one element starting with / (documented: only a scalar /…/ is a regular expression)")
		}
	}
	r.Ob(nLists >= 1, name+"|list-assertion", fn.Pos(), fmt.Sprintf("extractConditions recognises a configured list (%d assertions)", nLists))
}
