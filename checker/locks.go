package main

import (
	"fmt"
	"go/token"
	"sort"
	"strings"

	"golang.org/x/tools/go/ssa"
)

// A lock is identified by the access path of the mutex operand: root SSA value + field path.
type lockRef struct {
	root ssa.Value
	path string // ".mu", ".getCond.L", "" for a bare local
}

func (l lockRef) key() string { return fmt.Sprintf("%p%s", l.root, l.path) }

func (c *Ctx) lockString(l lockRef) string { return c.path(l.root) + l.path }

// refOf strips loads, field selections and interface conversions down to a root value.
func refOf(v ssa.Value) lockRef {
	path := ""
	for {
		switch x := v.(type) {
		case *ssa.UnOp:
			if x.Op == token.MUL {
				v = x.X
				continue
			}
		case *ssa.FieldAddr:
			_, f, b, _ := fieldOf(x)
			path = "." + f + path
			v = b
			continue
		case *ssa.Field:
			_, f, b, _ := fieldOf(x)
			path = "." + f + path
			v = b
			continue
		case *ssa.ChangeInterface:
			v = x.X
			continue
		case *ssa.MakeInterface:
			v = x.X
			continue
		case *ssa.ChangeType:
			v = x.X
			continue
		case *ssa.Alloc:
			// a local cell written exactly once (e.g. a receiver/parameter spilled because a
			// closure captures it): every load reads that value
			if sv := singleStore(x); sv != nil {
				v = sv
				continue
			}
		}
		return lockRef{v, path}
	}
}

type lockOp int

const (
	opNone lockOp = iota
	opLock
	opUnlock
)

var syncLockNames = map[string]lockOp{
	"(*sync.Mutex).Lock": opLock, "(*sync.Mutex).Unlock": opUnlock,
	"(*sync.RWMutex).Lock": opLock, "(*sync.RWMutex).Unlock": opUnlock,
	"(*sync.RWMutex).RLock": opLock, "(*sync.RWMutex).RUnlock": opUnlock,
}

// syncLockOp classifies a call as a direct Lock/Unlock on a sync mutex or sync.Locker.
func syncLockOp(ci ssa.CallInstruction) (lockOp, lockRef) {
	cc := ci.Common()
	if cc.IsInvoke() {
		if cc.Method.Pkg() != nil && cc.Method.Pkg().Path() == "sync" {
			switch cc.Method.Name() {
			case "Lock":
				return opLock, refOf(cc.Value)
			case "Unlock":
				return opUnlock, refOf(cc.Value)
			}
		}
		return opNone, lockRef{}
	}
	if f := cc.StaticCallee(); f != nil && len(cc.Args) > 0 {
		if op, ok := syncLockNames[qualName(f)]; ok {
			return op, refOf(cc.Args[0])
		}
	}
	return opNone, lockRef{}
}

// lockSummary describes a module helper in terms of locks reachable from its parameters:
// "$0.mu" = field mu of parameter 0 (the receiver for methods).
type lockSummary struct {
	acquires []string // held at every return though not at entry
	releases []string // unlocked on every path to every return
}

type lockset map[string]lockRef

func (s lockset) clone() lockset {
	n := lockset{}
	for k, v := range s {
		n[k] = v
	}
	return n
}

func paramIndex(fn *ssa.Function, v ssa.Value) int {
	for i, p := range fn.Params {
		if p == v {
			return i
		}
	}
	return -1
}

var lockSummaries = map[*ssa.Function]*lockSummary{}
var lockSummaryBusy = map[*ssa.Function]bool{}

func (c *Ctx) lockSummary(fn *ssa.Function) *lockSummary {
	if s, ok := lockSummaries[fn]; ok {
		return s
	}
	if fn.Blocks == nil || !c.inModule(fn) || lockSummaryBusy[fn] {
		return nil
	}
	lockSummaryBusy[fn] = true
	defer delete(lockSummaryBusy, fn)
	s := &lockSummary{}
	// candidate locks: param-rooted refs that are locked/unlocked in fn (directly or via callee summaries)
	cands := map[string]lockRef{}
	for _, ci := range callsIn(fn) {
		if _, isDefer := ci.(*ssa.Defer); isDefer {
			// deferred unlocks are accounted at exits
		}
		for _, ev := range c.lockEvents(ci) {
			if paramIndex(fn, ev.ref.root) >= 0 {
				cands[ev.ref.key()] = ev.ref
			}
		}
	}
	if len(cands) == 0 {
		lockSummaries[fn] = s
		return s
	}
	must := c.lockFlow(fn, lockset{}, true)
	for k, ref := range cands {
		heldAll, any := true, false
		for _, b := range fn.Blocks {
			if r, ok := asReturn(b); ok {
				any = true
				if _, h := must.at(r)[k]; !h {
					heldAll = false
				}
			}
		}
		if any && heldAll {
			s.acquires = append(s.acquires, fmt.Sprintf("$%d%s", paramIndex(fn, ref.root), ref.path))
		}
	}
	for k, ref := range cands {
		may := c.lockFlow(fn, lockset{k: ref}, false)
		releasedAll, any := true, false
		for _, b := range fn.Blocks {
			if r, ok := asReturn(b); ok {
				any = true
				if _, h := may.at(r)[k]; h {
					releasedAll = false
				}
			}
		}
		if any && releasedAll {
			s.releases = append(s.releases, fmt.Sprintf("$%d%s", paramIndex(fn, ref.root), ref.path))
		}
	}
	sort.Strings(s.acquires)
	sort.Strings(s.releases)
	lockSummaries[fn] = s
	return s
}

type lockEvent struct {
	op  lockOp
	ref lockRef
}

// lockEvents: the lock effects of one call instruction (direct sync ops, or helper summaries).
func (c *Ctx) lockEvents(ci ssa.CallInstruction) []lockEvent {
	if op, ref := syncLockOp(ci); op != opNone {
		return []lockEvent{{op, ref}}
	}
	f := calleeFunc(ci)
	if f == nil || !c.inModule(f) || f.Blocks == nil {
		return nil
	}
	s := c.lockSummary(f)
	if s == nil {
		return nil
	}
	var out []lockEvent
	conv := func(p string, op lockOp) {
		var idx int
		var rest string
		if i := strings.IndexByte(p, '.'); i >= 0 {
			fmt.Sscanf(p[1:i], "%d", &idx)
			rest = p[i:]
		} else {
			fmt.Sscanf(p[1:], "%d", &idx)
		}
		args := ci.Common().Args
		if idx >= len(args) {
			return
		}
		r := refOf(args[idx])
		r.path += rest
		out = append(out, lockEvent{op, r})
	}
	for _, p := range s.acquires {
		conv(p, opLock)
	}
	for _, p := range s.releases {
		conv(p, opUnlock)
	}
	return out
}

type lockFlowResult struct {
	c    *Ctx
	fn   *ssa.Function
	in   map[*ssa.BasicBlock]lockset
	must bool
}

// lockFlow: forward dataflow of held locks. must=true: intersection at joins (held on all
// paths); must=false: union (held on some path). `defer Unlock` keeps the lock to the exit.
func (c *Ctx) lockFlow(fn *ssa.Function, entry lockset, must bool) *lockFlowResult {
	res := &lockFlowResult{c: c, fn: fn, in: map[*ssa.BasicBlock]lockset{}, must: must}
	if len(fn.Blocks) == 0 {
		return res
	}
	out := map[*ssa.BasicBlock]lockset{}
	res.in[fn.Blocks[0]] = entry.clone()
	changed := true
	for iter := 0; changed && iter < 100; iter++ {
		changed = false
		for _, b := range fn.Blocks {
			var in lockset
			if b == fn.Blocks[0] {
				in = entry.clone()
			} else {
				first := true
				for _, p := range b.Preds {
					po, ok := out[p]
					if !ok {
						continue
					}
					if _, dead := c.info(fn).dead[p]; dead {
						continue
					}
					if first {
						in = po.clone()
						first = false
						continue
					}
					if must {
						for k := range in {
							if _, h := po[k]; !h {
								delete(in, k)
							}
						}
					} else {
						for k, v := range po {
							in[k] = v
						}
					}
				}
				if first {
					continue // not yet reachable
				}
			}
			res.in[b] = in
			cur := in.clone()
			for _, ins := range b.Instrs {
				c.lockStep(cur, ins)
			}
			if old, ok := out[b]; !ok || !sameSet(old, cur) {
				out[b] = cur
				changed = true
			}
		}
	}
	return res
}

func sameSet(a, b lockset) bool {
	if len(a) != len(b) {
		return false
	}
	for k := range a {
		if _, ok := b[k]; !ok {
			return false
		}
	}
	return true
}

func (c *Ctx) lockStep(cur lockset, ins ssa.Instruction) {
	if rd, isRD := ins.(*ssa.RunDefers); isRD {
		// deferred unlocks run here; a deferred call registered on only some paths is
		// applied too (removing a lock is the conservative direction for "held" facts)
		for _, b := range rd.Parent().Blocks {
			for _, x := range b.Instrs {
				if d, ok := x.(*ssa.Defer); ok {
					for _, ev := range c.lockEvents(d) {
						if ev.op == opUnlock {
							delete(cur, ev.ref.key())
						}
					}
					// deferred closures that unlock
					if mc, ok := d.Call.Value.(*ssa.MakeClosure); ok {
						if f, ok := mc.Fn.(*ssa.Function); ok {
							for _, ci := range callsIn(f) {
								if op, ref := syncLockOp(ci); op == opUnlock {
									// free variable -> binding
									for i, fv := range f.FreeVars {
										if ref.root == fv && i < len(mc.Bindings) {
											r := refOf(mc.Bindings[i])
											r.path += ref.path
											delete(cur, r.key())
										}
									}
								}
							}
						}
					}
				}
			}
		}
		return
	}
	ci, ok := ins.(ssa.CallInstruction)
	if !ok {
		return
	}
	if _, isDefer := ci.(*ssa.Defer); isDefer {
		return
	}
	if _, isGo := ci.(*ssa.Go); isGo {
		return
	}
	for _, ev := range c.lockEvents(ci) {
		switch ev.op {
		case opLock:
			cur[ev.ref.key()] = ev.ref
		case opUnlock:
			delete(cur, ev.ref.key())
		}
	}
}

// at returns the lock set just before instruction ins executes.
func (r *lockFlowResult) at(ins ssa.Instruction) lockset {
	b := ins.Block()
	in, ok := r.in[b]
	if !ok {
		return lockset{}
	}
	cur := in.clone()
	for _, x := range b.Instrs {
		if x == ins {
			break
		}
		r.c.lockStep(cur, x)
	}
	return cur
}

// holds: is a lock with the given field path (e.g. ".mu") rooted at root held before ins?
func (r *lockFlowResult) holds(ins ssa.Instruction, root ssa.Value, path string) bool {
	_, ok := r.at(ins)[lockRef{root, path}.key()]
	return ok
}

// holdsPath: is some lock whose path ends with suffix (".mu") and whose root is `root` held?
func (r *lockFlowResult) holdsAny(ins ssa.Instruction, pred func(l lockRef) bool) bool {
	for _, l := range r.at(ins) {
		if pred(l) {
			return true
		}
	}
	return false
}

func (c *Ctx) locksetString(s lockset) string {
	var parts []string
	for _, l := range s {
		parts = append(parts, c.lockString(l))
	}
	sort.Strings(parts)
	return "{" + strings.Join(parts, ", ") + "}"
}

// singleStore: the only value ever stored into local cell al (also looking into closures
// that capture the cell); nil if it is written more than once or escapes otherwise.
func singleStore(al *ssa.Alloc) ssa.Value {
	refs := al.Referrers()
	if refs == nil {
		return nil
	}
	var val ssa.Value
	n := 0
	for _, r := range *refs {
		switch x := r.(type) {
		case *ssa.Store:
			if x.Addr == ssa.Value(al) {
				n++
				val = x.Val
			} else {
				return nil // the address itself is stored somewhere
			}
		case *ssa.UnOp:
		case *ssa.DebugRef:
		case *ssa.MakeClosure:
			fn, ok := x.Fn.(*ssa.Function)
			if !ok {
				return nil
			}
			for i, b := range x.Bindings {
				if b == ssa.Value(al) && i < len(fn.FreeVars) {
					if fr := fn.FreeVars[i].Referrers(); fr != nil {
						for _, y := range *fr {
							if st, ok := y.(*ssa.Store); ok && st.Addr == ssa.Value(fn.FreeVars[i]) {
								return nil
							}
							if _, ok := y.(*ssa.UnOp); !ok {
								if _, ok := y.(*ssa.Store); !ok {
									if _, ok := y.(*ssa.DebugRef); !ok {
										return nil
									}
								}
							}
						}
					}
				}
			}
		default:
			return nil
		}
	}
	if n != 1 {
		return nil
	}
	return val
}
