package main

import (
	"fmt"
	"go/constant"
	"go/token"
	"go/types"
	"sort"
	"strings"

	"golang.org/x/tools/go/ssa"
)

func init() {
	explain("C13", "Static necessary conditions of 'no event content can crash an action plugin', decided exhaustively over the source: for everything reachable from every ActionPlugin.Do (all action plugins and the k8s multi-line action; callees in the module incl. cfg/matchrule, pipeline/doif evaluation, xtime and pipeline helpers; Start/Stop/constructors excluded) every index and slice clause is discharged by the difference-constraint bounds prover or is in the reviewed table with its reason; no process-exit / panic call and no unchecked type assertion is reachable there outside the reviewed table or the known findings; no method of an insane-json node that dereferences its receiver is called on a possibly-nil Dig result without a dominating nil test. "+
		"NOT decided: termination, that the event still encodes to valid JSON, 'one of the defined results'.",
		"go/types, go/ssa and x/tools call resolution are correct", "library post-conditions of bytes/strings/utf8/regexp index functions as documented", "struct fields written only by constructors/Start are stable while events are processed",
		"reviewed_obligations.json entries were checked by reading the code; each names one clause of one expression in one function")
	reg("C13", "C13.B", "E4", "every index/slice reachable from an action's Do is in bounds (prover or reviewed table)", 400, ruleActionBounds)
	reg("C13", "C13.X", "E5", "no process exit / explicit panic reachable from Do outside the reviewed table", 1, ruleActionExits)
	reg("C13", "C13.T", "E5", "no unchecked type assertion reachable from Do outside the reviewed table", 1, ruleActionAsserts)
	reg("C13", "C13.I", "E1", "field invariants the reviewed table relies on (parallel slices written only at Start; multi-line buffer keeps its first byte)", 8, ruleReviewedInvariants)
	reg("C13", "C13.N", "E5", "no receiver-dereferencing node method on a possibly-nil Dig result", 1, ruleNilNodes)
	reg("C13", "C13.M", "E1+E2", "metric label values (taken from event fields) are made valid UTF-8 before they reach a panicking prometheus Vec method", 4, ruleMetricLabelsSanitized)
	reg("C13", "C13.P", "E2", "a pointer field assigned from a constructor that can return nil is dereferenced in the event path only under a non-nil test", 1, ruleNilPointerFields)
	reg("C13", "C13.F", "E6", "a float an action writes into the event is finite (integer conversion, or parsed with the error checked)", 1, ruleFiniteFloats)
	reg("C13", "C13.E", "E6", "event.Buf is append-only for actions (earlier actions keep views into it)", 1, ruleEventBufAppendOnly)
	reg("C13", "C13.D", "E2", "no integer division or remainder by a value that may be zero (reviewed table otherwise)", 1, ruleActionDivisions)
	reg("C13", "C13.J", "E2", "the time-out exit of a joining action is unreachable: busy results only while the joining flag is true (same rule as C15.R7)", 1, ruleBusyOnlyWhileJoining)
	reg("C13", "C13.A", "E6", "no unsafe view of plugin-owned or pooled storage is left in the event or returned", 1, ruleActionBufferViews)
}

// coreType: receiver types of package pipeline that are the engine itself, not helpers.
var coreTypes = map[string]bool{"processor": true, "Pipeline": true, "stream": true, "streamer": true, "Batcher": true, "RetriableBatcher": true, "Router": true,
	"eventPool": true, "lowMemoryEventPool": true, "Batch": true, "actionWatcher": true}

func (c *Ctx) actionScope() []*ssa.Function {
	if c.actScope != nil {
		return c.actScope
	}
	ro := c.roles()
	skipName := func(fn *ssa.Function) bool {
		for f := fn; f != nil; f = f.Parent() {
			n := f.Name()
			if f.Signature.Recv() != nil && (n == "Start" || n == "Stop") {
				return true
			}
			if n == "init" || n == "factory" || n == "Factory" {
				return true
			}
		}
		return false
	}
	seen := map[*ssa.Function]bool{}
	var order []*ssa.Function
	var visit func(f *ssa.Function)
	cg := c.chaGraph()
	visit = func(f *ssa.Function) {
		if f == nil || seen[f] || f.Blocks == nil || !c.inModule(f) || skipName(f) {
			return
		}
		if c.pkgOf(f) == "pipeline" {
			if rn := recvNamed(f); rn != nil && coreTypes[rn.Obj().Name()] {
				return
			}
			for p := f.Parent(); p != nil; p = p.Parent() {
				if rn := recvNamed(p); rn != nil && coreTypes[rn.Obj().Name()] {
					return
				}
			}
		}
		if strings.HasPrefix(c.pkgOf(f), "plugin/output/") || (strings.HasPrefix(c.pkgOf(f), "plugin/input/") && c.pkgOf(f) != "plugin/input/k8s") || c.pkgOf(f) == "fd" || c.pkgOf(f) == "logger" || strings.HasPrefix(c.pkgOf(f), "metric") {
			return
		}
		seen[f] = true
		order = append(order, f)
		for _, b := range f.Blocks {
			for _, in := range b.Instrs {
				if ci, ok := in.(ssa.CallInstruction); ok {
					if _, isGo := ci.(*ssa.Go); isGo {
						continue
					}
					cc := ci.Common()
					if cc.IsInvoke() {
						// interfaces declared in package pipeline are the engine's boundary (controllers, plugins)
						if cc.Method.Pkg() != nil && cc.Method.Pkg().Path() == pipelinePkg {
							continue
						}
						if n := cg.Nodes[f]; n != nil {
							for _, e := range n.Out {
								if e.Site == ci && e.Callee.Func != nil {
									visit(e.Callee.Func)
								}
							}
						}
						continue
					}
					if cc.StaticCallee() == nil {
						// call through a function value (a check function kept in the configuration, a callback):
						// every address-taken module function of that signature (CHA), the safe direction
						if _, isBuiltin := cc.Value.(*ssa.Builtin); !isBuiltin {
							if n := cg.Nodes[f]; n != nil {
								for _, e := range n.Out {
									if e.Site == ci && e.Callee.Func != nil {
										visit(e.Callee.Func)
									}
								}
							}
						}
						continue
					}
					visit(cc.StaticCallee())
				}
				for _, op := range in.Operands(nil) {
					if *op == nil {
						continue
					}
					if mc, ok := (*op).(*ssa.MakeClosure); ok {
						if g, ok := mc.Fn.(*ssa.Function); ok {
							visit(g)
						}
					}
				}
			}
		}
	}
	if ro.ActionPlugin != nil {
		for _, t := range c.Implementers(ro.ActionPlugin) {
			if do := c.MethodOf(t, "Do"); do != nil {
				visit(do)
			}
		}
	}
	// the decoder package is decided under C12 (the decode action reuses it)
	inDec := map[*ssa.Function]bool{}
	for _, f := range c.decodeScope() {
		inDec[f] = true
	}
	var kept []*ssa.Function
	for _, f := range order {
		if !inDec[f] && c.pkgOf(f) != "decoder" {
			kept = append(kept, f)
		}
	}
	order = kept
	sort.Slice(order, func(i, j int) bool { return c.fnName(order[i]) < c.fnName(order[j]) })
	c.actScope = order
	return order
}

func ruleActionBounds(c *Ctx, r *Rule) {
	scope := c.actionScope()
	if len(scope) < 100 {
		r.Unresolved(fmt.Sprintf("action scope (found %d functions)", len(scope)))
		return
	}
	r.Note("scope: %d functions", len(scope))
	c.runBounds(r, scope)
}

func ruleActionExits(c *Ctx, r *Rule) {
	scope := c.actionScope()
	c.runExits(r, scope)
	r.Inst(1)
	r.Ob(len(scope) > 0, "scope", token.NoPos, fmt.Sprintf("%d functions scanned for exits", len(scope)))
}

func ruleActionAsserts(c *Ctx, r *Rule) {
	scope := c.actionScope()
	c.runAsserts(r, scope)
	r.Inst(1)
	r.Ob(len(scope) > 0, "scope", token.NoPos, fmt.Sprintf("%d functions scanned for unchecked type assertions", len(scope)))
}

const insanePkg = "github.com/ozontech/insane-json"

// nilUnsafeMethods: methods of insane-json's Node/Root that touch the receiver's fields before
// (or without) comparing the receiver with nil — derived from the library's own SSA.
func (c *Ctx) nilUnsafeMethods() map[*ssa.Function]bool {
	if c.nilUnsafe != nil {
		return c.nilUnsafe
	}
	c.nilUnsafe = map[*ssa.Function]bool{}
	for fn := range c.allFuncs {
		if fn.Signature.Recv() == nil || fn.Blocks == nil || fn.Synthetic != "" {
			continue
		}
		rn := namedOf(fn.Signature.Recv().Type())
		if rn == nil || rn.Obj().Pkg() == nil || rn.Obj().Pkg().Path() != insanePkg || rn.Obj().Name() != "Node" {
			continue
		}
		if _, isPtr := fn.Signature.Recv().Type().(*types.Pointer); !isPtr {
			continue
		}
		recv := fn.Params[0]
		// safe iff on every path the first use of a receiver field is dominated by the `recv == nil` false edge
		unsafe := false
		for _, b := range fn.Blocks {
			for _, in := range b.Instrs {
				fa, ok := in.(*ssa.FieldAddr)
				if !ok || fa.X != ssa.Value(recv) {
					continue
				}
				guarded := false
				for _, l := range c.unitGuards(fa) {
					if op, x, y, ok := cmpLit(l); ok && op == token.NEQ && ((x == ssa.Value(recv) && isNilConst(y)) || (y == ssa.Value(recv) && isNilConst(x))) {
						guarded = true
					}
				}
				if !guarded {
					unsafe = true
				}
			}
		}
		// calls that pass the receiver on to an unsafe method are handled transitively below
		if unsafe {
			c.nilUnsafe[fn] = true
		}
	}
	// transitive: forwards the (unchecked) receiver as receiver of an unsafe method
	for changed := true; changed; {
		changed = false
		for fn := range c.allFuncs {
			if c.nilUnsafe[fn] || fn.Signature.Recv() == nil || fn.Blocks == nil {
				continue
			}
			rn := namedOf(fn.Signature.Recv().Type())
			if rn == nil || rn.Obj().Pkg() == nil || rn.Obj().Pkg().Path() != insanePkg || rn.Obj().Name() != "Node" {
				continue
			}
			recv := fn.Params[0]
			for _, ci := range callsIn(fn) {
				g := calleeFunc(ci)
				if g == nil || !c.nilUnsafe[g] || len(ci.Common().Args) == 0 || ci.Common().Args[0] != ssa.Value(recv) {
					continue
				}
				guarded := false
				for _, l := range c.unitGuards(ci) {
					if op, x, y, ok := cmpLit(l); ok && op == token.NEQ && ((x == ssa.Value(recv) && isNilConst(y)) || (y == ssa.Value(recv) && isNilConst(x))) {
						guarded = true
					}
				}
				if !guarded {
					c.nilUnsafe[fn] = true
					changed = true
				}
			}
		}
	}
	return c.nilUnsafe
}

// mayBeNilNode: v is the result of a lookup that returns nil when the field is absent.
func mayBeNilNode(v ssa.Value) (string, bool) {
	call, ok := v.(*ssa.Call)
	if !ok {
		return "", false
	}
	f := call.Call.StaticCallee()
	if f == nil || f.Signature.Recv() == nil {
		return "", false
	}
	rn := namedOf(f.Signature.Recv().Type())
	if rn == nil || rn.Obj().Pkg() == nil || rn.Obj().Pkg().Path() != insanePkg {
		return "", false
	}
	switch f.Name() {
	case "Dig", "DigField", "AsFieldValue":
		return f.Name(), true
	}
	return "", false
}

func ruleNilNodes(c *Ctx, r *Rule) {
	unsafe := c.nilUnsafeMethods()
	if len(unsafe) < 5 {
		r.Unresolved(fmt.Sprintf("receiver-dereferencing methods of insane-json Node (found %d)", len(unsafe)))
		return
	}
	var names []string
	for f := range unsafe {
		names = append(names, f.Name())
	}
	sort.Strings(names)
	r.Note("nil-unsafe Node methods derived from the library: %s", strings.Join(uniq(names), ", "))
	scope := c.actionScope()
	for _, fn := range scope {
		n := 0
		for _, ci := range callsIn(fn) {
			g := calleeFunc(ci)
			if g == nil || !unsafe[g] || len(ci.Common().Args) == 0 {
				continue
			}
			recv := ci.Common().Args[0]
			src, maybe := mayBeNilNode(recv)
			if !maybe {
				// through a φ of lookups
				if phi, ok := recv.(*ssa.Phi); ok {
					for _, e := range phi.Edges {
						if s, m := mayBeNilNode(e); m {
							src, maybe = s, true
						}
					}
				}
			}
			if !maybe {
				continue
			}
			r.Inst(1)
			n++
			guarded := false
			for _, l := range c.unitGuards(ci) {
				if op, x, y, ok := cmpLit(l); ok && op == token.NEQ && ((x == recv && isNilConst(y)) || (y == recv && isNilConst(x))) {
					guarded = true
				}
			}
			r.Ob(guarded, fmt.Sprintf("%s|nil-node|%s.%s#%d", c.fnName(fn), src, g.Name(), n), ci.Pos(),
				"Node."+g.Name()+" dereferences its receiver, and the receiver is the result of "+src+", which is nil when the event lacks the field: an event without that field panics the processor")
		}
	}
	r.Inst(1)
	r.Ob(true, "scope", token.NoPos, fmt.Sprintf("%d functions scanned; %d nil-unsafe Node methods", len(scope), len(unsafe)))
}

// ruleReviewedInvariants turns the object invariants quoted as reasons in the reviewed table into
// checked facts: "allocated at Start with matching length and never re-assigned afterwards" means
// the field has no writer outside initialisation code; the k8s multi-line buffer keeps the opening
// quote written at Start because every later write is an append onto itself or a re-slice [:n>=1].
func ruleReviewedInvariants(c *Ctx, r *Rule) {
	type fld struct{ pkg, typ, field string }
	startOnly := []fld{
		{"plugin/action/cardinality", "parsedFields", "valsBuf"},
		{"plugin/action/cardinality", "parsedFields", "fields"},
		{"plugin/action/mask", "Plugin", "maskApplyCount"},
		{"plugin/action/mask", "Plugin", "hasMasksIgnoreFields"},
		{"plugin/action/mask", "Plugin", "hasMasksProcessFields"},
		{"plugin/action/rename", "Plugin", "names"},
		{"plugin/action/rename", "Plugin", "paths"},
		{"plugin/action/throttle", "rule", "values"},
		{"plugin/action/throttle", "rule", "fields"},
		{"plugin/action/keep_fields", "Plugin", "fieldsDepthSlice"},
		{"plugin/action/move", "Plugin", "allowFields"},
	}
	for _, f := range startOnly {
		n := c.Named(f.pkg, f.typ)
		if n == nil || fieldByName(n, f.field) == nil {
			r.Unresolved(f.pkg + "." + f.typ + "." + f.field)
			continue
		}
		r.Inst(1)
		r.Ob(c.stableField(n, f.field), f.typ+"."+f.field+"|written-only-at-start", n.Obj().Pos(),
			f.pkg+"."+f.typ+"."+f.field+" is (re)assigned only by initialisation code, so the length relation established at Start holds while events are processed")
	}
	// parse_es: the reviewed exit `Panicf("wrong state")` is unreachable only because the two
	// "what to do with the next line" flags are never true together: a flag is set to true only where
	// the other one is known false, and no path leads from there to setting the other one in the same call
	{
		pePkg := modulePath + "/plugin/action/parse_es"
		type fw struct {
			in   ssa.Instruction
			fn   *ssa.Function
			flag string
		}
		var sets []fw
		for _, fl := range []string{"passNext", "discardNext"} {
			for _, a := range c.fieldAccesses(pePkg, "Plugin", fl) {
				if a.write {
					if k, isK := constBool(a.val); isK && k {
						sets = append(sets, fw{a.in, a.fn, fl})
					}
				}
			}
		}
		if len(sets) < 2 {
			r.Unresolved("parse_es passNext / discardNext setters")
		} else {
			for i, sa := range sets {
				other := map[string]string{"passNext": "discardNext", "discardNext": "passNext"}[sa.flag]
				r.Inst(1)
				known := false
				for _, l := range c.unitGuards(sa.in) {
					if !l.pol && isLoadOfField(l.v, pePkg, "Plugin", other) {
						known = true
					}
				}
				both, _ := c.pathExists(sa.fn, sa.in, func(in ssa.Instruction) bool {
					for _, sb := range sets {
						if sb.flag == other && sb.in == in {
							return true
						}
					}
					return false
				}, nil)
				r.Ob(known && !both, fmt.Sprintf("parse_es|%s#%d|flags-exclusive", sa.flag, i), sa.in.Pos(), "parse_es sets "+sa.flag+" only where "+other+" is known false, and does not go on to set "+other+" in the same call (both true makes the next event hit Panicf(\"wrong state\") on the processor goroutine)")
			}
		}
	}
	// the reviewed index levelNames[ParseLevelAsNumber(..)] relies on the parser returning only
	// LevelUnknown or one of the table's indexes: every result is a constant in [-1, len(levelNames))
	if pl := c.Func("pipeline", "ParseLevelAsNumber"); pl == nil {
		r.Unresolved("pipeline.ParseLevelAsNumber")
	} else {
		tableLen := int64(-1)
		if pk := c.Pkgs[pipelinePkg]; pk != nil {
			if obj := pk.Types.Scope().Lookup("levelNames"); obj != nil {
				switch t := obj.Type().Underlying().(type) {
				case *types.Array:
					tableLen = t.Len()
				}
			}
		}
		r.Inst(1)
		bad := ""
		for _, ret := range returnsOf(pl) {
			for _, leaf := range phiLeaves(retResults(ret)[0]) {
				k, isK := constInt(stripConv(leaf))
				if !isK {
					bad = "a computed result " + c.path(leaf)
				} else if k < -1 || (tableLen >= 0 && k >= tableLen) {
					bad = fmt.Sprintf("result %d", k)
				}
			}
		}
		r.Ob(bad == "", "ParseLevelAsNumber|results-index-the-level-table", pl.Pos(), fmt.Sprintf("ParseLevelAsNumber returns only LevelUnknown or an index of the level-name table (%d entries; -1 = not an array)", tableLen)+ifs(bad != "", "; found "+bad+": ParseLevelAsString indexes the table with it"))
	}
	// k8s multi-line buffer
	k8sPkg := modulePath + "/plugin/input/k8s"
	nW := 0
	for _, a := range c.fieldAccesses(k8sPkg, "MultilineAction", "eventBuf") {
		if !a.write {
			continue
		}
		nW++
		ok := false
		switch v := a.val.(type) {
		case *ssa.Call:
			if b, isB := v.Call.Value.(*ssa.Builtin); isB && b.Name() == "append" && isLoadOfField(v.Call.Args[0], k8sPkg, "MultilineAction", "eventBuf") {
				ok = true
			}
		case *ssa.Slice:
			if isLoadOfField(v.X, k8sPkg, "MultilineAction", "eventBuf") && v.Low == nil && v.High != nil {
				if k, isK := constInt(v.High); isK && k >= 1 {
					// re-slice of the very value just loaded, with no store in between
					ok = true
					for _, b := range c.fieldAccesses(k8sPkg, "MultilineAction", "eventBuf") {
						if b.write && b.fn == a.fn && b.in != a.in && instrDominates(b.in, a.in) {
							ok = false
						}
					}
				}
			}
		}
		r.Ob(ok, fmt.Sprintf("%s|eventBuf-writer#%d", c.fnName(a.fn), nW), a.in.Pos(),
			"MultilineAction.eventBuf is only appended to, or re-sliced to [:n>=1] of its current value: the opening quote written at Start stays byte 0 (a fresh buffer re-sliced to [:1] would put a zero byte in front of the joined log and emit malformed JSON)")
	}
	r.Inst(nW)
	// group-number lists that index a regexp submatch table: the reviewed reasons say "verified
	// against NumSubexp"; the verifier RETURNS the list to use (it collapses a list containing 0 to
	// [0] and stops checking there), so the stored list must be its result, not its argument
	for _, f := range []fld{{"cfg/substitution", "RegexFilter", "groups"}, {"plugin/action/mask", "Mask", "Groups"}} {
		n := c.Named(f.pkg, f.typ)
		if n == nil || fieldByName(n, f.field) == nil {
			r.Unresolved(f.pkg + "." + f.typ + "." + f.field)
			continue
		}
		nG := 0
		for _, a := range c.fieldAccesses(modulePath+"/"+f.pkg, f.typ, f.field) {
			if !a.write {
				continue
			}
			nG++
			r.Inst(1)
			isVerified := func(v ssa.Value) bool {
				call, ok := v.(*ssa.Call)
				return ok && call.Call.StaticCallee() != nil && call.Call.StaticCallee().Name() == "VerifyGroupNumbers"
			}
			ok := isVerified(a.val)
			if ld, isLd := a.val.(*ssa.UnOp); !ok && isLd && ld.Op == token.MUL {
				if al, isAl := ld.X.(*ssa.Alloc); isAl {
					// address-taken local (filled by json.Unmarshal): the last definition before the
					// field write must be a store of the verifier's result
					if refs := al.Referrers(); refs != nil {
						for _, rf := range *refs {
							st, isSt := rf.(*ssa.Store)
							if !isSt || st.Addr != ssa.Value(al) || !isVerified(st.Val) || !instrDominates(st, a.in) {
								continue
							}
							// nothing redefines the local between that store and the field write
							redef, _ := c.pathExists(a.fn, st, func(in ssa.Instruction) bool {
								if in == a.in {
									return false
								}
								switch x := in.(type) {
								case *ssa.Store:
									return x.Addr == ssa.Value(al)
								case ssa.CallInstruction:
									for _, arg := range x.Common().Args {
										if arg == ssa.Value(al) {
											return true
										}
									}
								}
								return false
							}, func(in ssa.Instruction) bool { return in == a.in })
							if !redef {
								ok = true
							}
						}
					}
				}
			}
			r.Ob(ok, fmt.Sprintf("%s|%s.%s#%d|verified-result-stored", c.fnName(a.fn), f.typ, f.field, nG), a.in.Pos(),
				"the group-number list kept for event processing is the RESULT of cfg.VerifyGroupNumbers (a list like [0, 7] passes the verifier, which returns [0]; keeping the original list indexes past the submatch table on the first match)")
		}
		r.Ob(nG >= 1, f.typ+"."+f.field+"|has-writer", n.Obj().Pos(), "the group list is set at configuration time")
	}
	// throttle: the reviewed division by the bucket interval (and the ring indexing) rely on Start
	// rejecting a non-positive bucket_interval / buckets_count
	if start := c.Method("plugin/action/throttle", "Plugin", "Start"); start == nil {
		r.Unresolved("throttle Plugin.Start")
	} else {
		for _, fld := range []string{"BucketInterval_", "BucketsCount"} {
			r.Inst(1)
			rejected := false
			for _, b := range start.Blocks {
				for _, in := range b.Instrs {
					if !isNoReturn(in) {
						continue
					}
					for _, l := range c.unitGuards(in) {
						op, x, y, ok := cmpLit(l)
						if !ok || !isLoadOfField(x, throttlePkg, "Config", fld) {
							continue
						}
						if k, isK := constInt(y); isK && ((op == token.LEQ && k == 0) || (op == token.LSS && k == 1)) {
							rejected = true
						}
					}
				}
			}
			r.Ob(rejected, "(*plugin/action/throttle.Plugin).Start|rejects-non-positive|"+fld, start.Pos(), "Start ends the process when "+fld+" <= 0: the per-event bucket arithmetic divides by the interval and indexes a ring of that many buckets")
		}
	}
}

const promPkg = "github.com/prometheus/client_golang/prometheus"

// ruleMetricLabelsSanitized: prometheus panics (in the calling goroutine, i.e. the processor) when a
// label value is not valid UTF-8. Label values come from event fields (mask, throttle, cardinality),
// so every way into a panicking Vec method must pass a sanitizer that makes each value valid.
func ruleMetricLabelsSanitized(c *Ctx, r *Rule) {
	isPanickingVecMethod := func(f *ssa.Function) bool {
		if f == nil {
			return false
		}
		// method values appear as bound-method wrappers
		name := f.Name()
		name = strings.TrimSuffix(name, "$bound")
		if name != "WithLabelValues" && name != "With" && name != "MustCurryWith" {
			return false
		}
		var recv types.Type
		if f.Signature.Recv() != nil {
			recv = f.Signature.Recv().Type()
		} else if len(f.FreeVars) == 1 {
			recv = f.FreeVars[0].Type()
		}
		rn := namedOf(deref(recv))
		return rn != nil && rn.Obj().Pkg() != nil && rn.Obj().Pkg().Path() == promPkg && strings.HasSuffix(rn.Obj().Name(), "Vec")
	}
	// (a) every reference to such a method: a method value handed to the store's get-or-create
	var stores []*ssa.Function
	n := 0
	for _, fn := range c.ModFuncs {
		for _, b := range fn.Blocks {
			for _, in := range b.Instrs {
				switch x := in.(type) {
				case *ssa.MakeClosure:
					f, _ := x.Fn.(*ssa.Function)
					if !isPanickingVecMethod(f) {
						continue
					}
					n++
					r.Inst(1)
					okUse := false
					if refs := x.Referrers(); refs != nil {
						for _, rf := range *refs {
							if ci, ok := rf.(ssa.CallInstruction); ok {
								if g := calleeFunc(ci); g != nil && c.inModule(g) && strings.HasPrefix(g.Name(), "GetOrCreate") {
									okUse = true
									stores = append(stores, g)
								}
							}
						}
					}
					r.Ob(okUse, fmt.Sprintf("%s|vec-method-value#%d", c.fnName(fn), n), x.Pos(), "a panicking prometheus Vec method is only handed, as a method value, to the metric store's get-or-create (which sanitizes the label values first)")
				case ssa.CallInstruction:
					if f := calleeFunc(x); isPanickingVecMethod(f) && f.Signature.Recv() != nil {
						n++
						r.Inst(1)
						allConst := true
						for _, a := range x.Common().Args[1:] {
							if sl, isSl := a.(*ssa.Slice); isSl {
								if _, isAl := sl.X.(*ssa.Alloc); isAl {
									continue // varargs of the call: checked through their stores below
								}
							}
							if _, isC := a.(*ssa.Const); !isC {
								allConst = false
							}
						}
						okCall := allConst && len(x.Common().Args) <= 1
						// a forwarding closure `func(s ...string) { return vec.WithLabelValues(s...) }` handed to the store
						if !okCall && fn.Parent() != nil && len(x.Common().Args) == 2 {
							if p, isP := x.Common().Args[1].(*ssa.Parameter); isP && p.Parent() == fn {
								handed := 0
								for _, in2 := range allInstrs(fn.Parent()) {
									mc, isMC := in2.(*ssa.MakeClosure)
									if !isMC || mc.Fn != ssa.Value(fn) {
										continue
									}
									if refs := mc.Referrers(); refs != nil {
										for _, rf := range *refs {
											if ci, ok := rf.(ssa.CallInstruction); ok {
												if g := calleeFunc(ci); g != nil && c.inModule(g) && strings.HasPrefix(g.Name(), "GetOrCreate") {
													handed++
													stores = append(stores, g)
												} else {
													handed = -100
												}
											} else {
												handed = -100
											}
										}
									}
								}
								okCall = handed >= 1
							}
						}
						r.Ob(okCall, fmt.Sprintf("%s|vec-method-call#%d", c.fnName(fn), n), x.Pos(), "a panicking prometheus Vec method is called with computed label values only from a forwarding closure handed to the metric store's get-or-create")
					}
				}
			}
		}
	}
	r.Ob(n >= 3 && len(stores) >= 1, "metric|vec-methods-found", token.NoPos, fmt.Sprintf("label-taking prometheus Vec methods are reached through the metric store (%d references)", n))
	// (b) the store sanitizes first; (c) the sanitizer makes every value valid UTF-8
	seen := map[*ssa.Function]bool{}
	for _, g := range stores {
		if seen[g] {
			continue
		}
		seen[g] = true
		r.Inst(1)
		labels := g.Params[1]
		var san ssa.CallInstruction
		for _, ci := range callsIn(g) {
			for _, a := range ci.Common().Args {
				if a == ssa.Value(labels) {
					if f := calleeFunc(ci); f != nil && c.inModule(f) && c.sanitizesUTF8(f) {
						if san == nil {
							san = ci
						}
					}
				}
			}
		}
		okFirst := san != nil
		if okFirst {
			if refs := labels.Referrers(); refs != nil {
				for _, rf := range *refs {
					if rf == ssa.Instruction(san) {
						continue
					}
					if _, isDbg := rf.(*ssa.DebugRef); isDbg {
						continue
					}
					if !instrDominates(san, rf) {
						okFirst = false
					}
				}
			}
		}
		r.Ob(okFirst, c.fnName(g)+"|sanitizes-before-use", g.Pos(), "the label values are made valid UTF-8 before anything else is done with them (prometheus panics on an invalid label value; a byte-length cut can split a rune)")
	}
}

// sanitizesUTF8: f rewrites every element of its []string parameter so that it is valid UTF-8:
// every return is behind the element loop, and on every way round the loop the element is either
// known valid (utf8.ValidString true) or replaced by strings.ToValidUTF8(...).
func (c *Ctx) sanitizesUTF8(f *ssa.Function) bool {
	var sl *ssa.Parameter
	for _, p := range f.Params {
		if s, ok := p.Type().Underlying().(*types.Slice); ok {
			if b, isB := s.Elem().Underlying().(*types.Basic); isB && b.Kind() == types.String {
				sl = p
			}
		}
	}
	if sl == nil {
		return false
	}
	// element loads and the loop
	var elem *ssa.UnOp
	for _, b := range f.Blocks {
		for _, in := range b.Instrs {
			if u, ok := in.(*ssa.UnOp); ok && u.Op == token.MUL {
				if ia, isIA := u.X.(*ssa.IndexAddr); isIA && ia.X == ssa.Value(sl) && elem == nil {
					elem = u
				}
			}
		}
	}
	if elem == nil {
		return false
	}
	head := loopHeadOf(elem)
	if head == nil {
		return false
	}
	for _, ret := range returnsOf(f) {
		if !head.Dominates(ret.Block()) {
			return false // a way out that never looks at the values
		}
	}
	isFix := func(in ssa.Instruction) bool {
		st, ok := in.(*ssa.Store)
		if !ok {
			return false
		}
		ia, isIA := st.Addr.(*ssa.IndexAddr)
		if !isIA || ia.X != ssa.Value(sl) {
			return false
		}
		for _, leaf := range phiLeaves(st.Val) {
			call, isCall := leaf.(*ssa.Call)
			if !isCall || call.Call.StaticCallee() == nil || qualName(call.Call.StaticCallee()) != "strings.ToValidUTF8" {
				return false
			}
		}
		return true
	}
	first := head.Instrs[0]
	bad, _ := c.pathExistsE(f, elem, func(in ssa.Instruction) bool { return in == first || isReturn(in) }, isFix, func(b *ssa.BasicBlock, i int) bool {
		iff, ok := b.Instrs[len(b.Instrs)-1].(*ssa.If)
		if !ok {
			return true
		}
		v, pol := peelNot(iff.Cond, i == 0)
		if call, isCall := v.(*ssa.Call); isCall && call.Call.StaticCallee() != nil && qualName(call.Call.StaticCallee()) == "unicode/utf8.ValidString" && pol {
			return false // known valid: nothing to repair on this way
		}
		return true
	})
	return !bad
}

func allInstrs(fn *ssa.Function) []ssa.Instruction {
	var out []ssa.Instruction
	for _, b := range fn.Blocks {
		out = append(out, b.Instrs...)
	}
	return out
}

// runDivisions: integer division / remainder by a value not known to be non-zero panics.
// A divisor is accepted when it is a non-zero constant, when a dominating branch established
// != 0 / > 0 / >= 1 for it (own guard facts), or when it is (a conversion of) a struct field
// that is only written by initialisation code from a value checked there (reviewed otherwise).
func (c *Ctx) runDivisions(r *Rule, scope []*ssa.Function) {
	for _, fn := range scope {
		n := 0
		for _, b := range fn.Blocks {
			for _, in := range b.Instrs {
				bo, ok := in.(*ssa.BinOp)
				if !ok || (bo.Op != token.QUO && bo.Op != token.REM) || !isIntegerType(bo.Type()) {
					continue
				}
				if k, isK := constInt(bo.Y); isK && k != 0 {
					continue
				}
				n++
				r.Inst(1)
				div := stripConv(bo.Y)
				okG := false
				for _, l := range c.unitGuards(bo) {
					op, x, y, isCmp := cmpLit(l)
					if !isCmp || !(sameValue(stripConv(x), div) || x == bo.Y) {
						continue
					}
					k, isK := constInt(y)
					if !isK {
						continue
					}
					if (op == token.NEQ && k == 0) || (op == token.GTR && k >= 0) || (op == token.GEQ && k >= 1) {
						okG = true
					}
				}
				r.Ob(okG, fmt.Sprintf("%s|div#%d", c.fnName(fn), n), bo.Pos(), "integer division / remainder by "+c.path(bo.Y)+": a dominating test establishes that it is not zero")
			}
		}
	}
}

func ruleActionDivisions(c *Ctx, r *Rule) {
	c.runDivisions(r, c.actionScope())
	r.Inst(1)
	r.Ob(true, "scope", token.NoPos, "integer divisions in the action scope enumerated")
}

// ruleNoReusableBufferViews: an unsafe string/byte view (no copy) of storage that the plugin or a
// pool re-uses must not be left in the event or handed back to a caller: the next field, the next
// event on the same processor, or the next user of the pooled object rewrites it while the first
// event is still waiting in an output batch.
func (c *Ctx) runBufferViews(r *Rule, scope []*ssa.Function) {
	isView := func(ci ssa.CallInstruction) (ssa.Value, bool) {
		cc := ci.Common()
		if b, ok := cc.Value.(*ssa.Builtin); ok && (b.Name() == "String" || b.Name() == "Slice") && len(cc.Args) >= 1 {
			return cc.Args[0], true // unsafe.String / unsafe.Slice
		}
		if f := cc.StaticCallee(); f != nil && c.inModule(f) && (f.Name() == "ByteToStringUnsafe" || f.Name() == "StringToByteUnsafe") && len(cc.Args) == 1 {
			return cc.Args[0], true
		}
		return nil, false
	}
	var reusable func(v ssa.Value, fn *ssa.Function, d int) (bool, string)
	reusable = func(v ssa.Value, fn *ssa.Function, d int) (bool, string) {
		if d > 8 {
			return false, ""
		}
		switch x := v.(type) {
		case *ssa.Slice:
			return reusable(x.X, fn, d+1)
		case *ssa.Convert:
			return reusable(x.X, fn, d+1)
		case *ssa.ChangeType:
			return reusable(x.X, fn, d+1)
		case *ssa.Phi:
			for _, e := range x.Edges {
				if ok, why := reusable(e, fn, d+1); ok {
					return true, why
				}
			}
		case *ssa.Call:
			if b, isB := x.Call.Value.(*ssa.Builtin); isB && (b.Name() == "append" || b.Name() == "SliceData" || b.Name() == "StringData") {
				return reusable(x.Call.Args[0], fn, d+1)
			}
		case *ssa.TypeAssert:
			return reusable(x.X, fn, d+1)
		case *ssa.Extract:
			return reusable(x.Tuple, fn, d+1)
		case *ssa.UnOp:
			if x.Op != token.MUL {
				return false, ""
			}
			if fa, isFA := x.X.(*ssa.FieldAddr); isFA {
				// a field of the receiver (plugin state) or of a pooled object
				base := fa.X
				for i := 0; i < 4; i++ {
					if u, isU := base.(*ssa.UnOp); isU && u.Op == token.MUL {
						if fa2, isFA2 := u.X.(*ssa.FieldAddr); isFA2 {
							base = fa2.X
							continue
						}
					}
					break
				}
				if len(fn.Params) > 0 && fn.Signature.Recv() != nil && base == ssa.Value(fn.Params[0]) {
					o, f, _, _ := fieldOf(fa)
					if o != nil && typeIs(o, pipelinePkg, "Event") {
						return false, ""
					}
					return true, "the receiver's field " + f
				}
				if ok, _ := fromPool(base, 0); ok {
					return true, "a field of a pooled object"
				}
			}
		}
		return false, ""
	}
	n := 0
	for _, fn := range scope {
		for _, ci := range callsIn(fn) {
			src, ok := isView(ci)
			if !ok || ci.Value() == nil {
				continue
			}
			n++
			r.Inst(1)
			re, why := reusable(src, fn, 0)
			if !re {
				r.Ob(true, fmt.Sprintf("%s|view#%d", c.fnName(fn), n), ci.Pos(), "unsafe view of storage that is not re-used by the plugin or a pool (event-owned or local)")
				continue
			}
			// does the view outlive the call?
			esc := ""
			var uses func(v ssa.Value, d int)
			uses = func(v ssa.Value, d int) {
				refs := v.Referrers()
				if refs == nil || d > 4 || esc != "" {
					return
				}
				for _, rf := range *refs {
					switch x := rf.(type) {
					case *ssa.Return:
						esc = "returned to the caller"
					case *ssa.Store:
						if x.Val == v {
							if _, local := x.Addr.(*ssa.Alloc); !local {
								esc = "stored into " + c.path(x.Addr)
							}
						}
					case *ssa.Phi, *ssa.ChangeType, *ssa.Convert, *ssa.Slice:
						uses(x.(ssa.Value), d+1)
					case *ssa.MakeInterface:
						uses(x, d+1)
					case ssa.CallInstruction:
						f := calleeFunc(x)
						if f == nil {
							continue
						}
						rn := recvNamed(f)
						if rn != nil && rn.Obj().Pkg() != nil && rn.Obj().Pkg().Path() == insanePkg {
							nm := f.Name()
							if (strings.HasPrefix(nm, "MutateTo") || strings.HasPrefix(nm, "AddField")) && !strings.Contains(nm, "Copy") {
								esc = "left in the event by " + nm + " (no copy)"
							}
						}
					}
				}
			}
			uses(ci.Value(), 0)
			r.Ob(esc == "", fmt.Sprintf("%s|view#%d", c.fnName(fn), n), ci.Pos(), "an unsafe view of "+why+" does not outlive the call: "+ifs(esc != "", esc+"; the storage is rewritten for the next field / event / pool user while this event is still in flight")+ifs(esc == "", "used for look-ups and comparisons only"))
		}
	}
	r.Ob(true, "views-enumerated", token.NoPos, fmt.Sprintf("%d unsafe views examined", n))
}

func fromPool(v ssa.Value, d int) (bool, string) {
	if d > 6 {
		return false, ""
	}
	switch x := v.(type) {
	case *ssa.Call:
		if f := x.Call.StaticCallee(); f != nil {
			if qualName(f) == "(*sync.Pool).Get" {
				return true, "sync.Pool"
			}
			// a getter that returns a pooled object
			for _, b := range f.Blocks {
				for _, in := range b.Instrs {
					if cc, ok := in.(*ssa.Call); ok && cc.Call.StaticCallee() != nil && qualName(cc.Call.StaticCallee()) == "(*sync.Pool).Get" {
						return true, "sync.Pool"
					}
				}
			}
		}
	case *ssa.TypeAssert:
		return fromPool(x.X, d+1)
	case *ssa.Extract:
		return fromPool(x.Tuple, d+1)
	case *ssa.Phi:
		for _, e := range x.Edges {
			if ok, w := fromPool(e, d+1); ok {
				return true, w
			}
		}
	case *ssa.UnOp:
		return fromPool(x.X, d+1)
	case *ssa.FieldAddr:
		return fromPool(x.X, d+1)
	}
	return false, ""
}

func ruleActionBufferViews(c *Ctx, r *Rule) {
	c.runBufferViews(r, c.actionScope())
	r.Inst(1)
}

// ruleNilPointerFields: a pointer field of a plugin's own structs that is assigned the result of a
// module function which can return the nil constant is dereferenced in the event path only under a
// non-nil guard. (A nil comparison somewhere else is deliberately NOT taken as evidence that the field
// may be nil: a redundant check added during clean-up must not make every other use an alarm.)
func ruleNilPointerFields(c *Ctx, r *Rule) {
	type fkey struct {
		owner *types.Named
		field string
	}
	maybe := map[fkey]string{}
	nilReturning := func(f *ssa.Function) bool {
		if f == nil || f.Blocks == nil || !c.inModule(f) {
			return false
		}
		for _, ret := range returnsOf(f) {
			res := retResults(ret)
			if len(res) == 1 {
				for _, leaf := range phiLeaves(res[0]) {
					if isNilConst(leaf) {
						return true
					}
				}
			}
		}
		return false
	}
	isPtrToStruct := func(t types.Type) bool {
		p, ok := t.Underlying().(*types.Pointer)
		if !ok {
			return false
		}
		_, isS := p.Elem().Underlying().(*types.Struct)
		return isS
	}
	for _, fn := range c.ModFuncs {
		if !strings.HasPrefix(c.pkgOf(fn), "plugin/action/") && c.pkgOf(fn) != "plugin/input/k8s" {
			continue
		}
		for _, b := range fn.Blocks {
			for _, in := range b.Instrs {
				switch x := in.(type) {
				case *ssa.Store:
					if !isPtrToStruct(x.Val.Type()) {
						continue
					}
					o, f, _, ok := fieldOf(x.Addr)
					if !ok || o == nil || !c.inModulePkg(o) {
						continue
					}
					for _, leaf := range phiLeaves(x.Val) {
						if call, isCall := leaf.(*ssa.Call); isCall && nilReturning(call.Call.StaticCallee()) {
							maybe[fkey{o, f}] = "assigned the result of " + c.fnName(call.Call.StaticCallee()) + ", which can return nil"
						}
					}
				}
			}
		}
	}
	scope := c.actionScope()
	nDeref := 0
	for _, fn := range scope {
		n := 0
		perField := map[string]int{}
		for _, b := range fn.Blocks {
			for _, in := range b.Instrs {
				var recv ssa.Value
				what := ""
				switch x := in.(type) {
				case ssa.CallInstruction:
					cc := x.Common()
					if cc.IsInvoke() || len(cc.Args) == 0 {
						continue
					}
					g := cc.StaticCallee()
					if g == nil || g.Signature.Recv() == nil {
						continue
					}
					if _, isP := g.Signature.Recv().Type().Underlying().(*types.Pointer); !isP {
						continue
					}
					recv, what = cc.Args[0], "method "+g.Name()
				case *ssa.FieldAddr:
					recv, what = x.X, "field access"
				default:
					continue
				}
				o, f, _, ok := loadedField(stripConv(recv))
				if !ok || o == nil {
					continue
				}
				why, isMaybe := maybe[fkey{o, f}]
				if !isMaybe {
					continue
				}
				nDeref++
				perField[o.Obj().Name()+"."+f]++
				n = perField[o.Obj().Name()+"."+f]
				r.Inst(1)
				guarded := false
				want := c.path(stripConv(recv))
				for _, l := range c.unitGuardsCtx(in) {
					if op, a, bb, isCmp := cmpLit(l); isCmp && op == token.NEQ && isNilConst(bb) && c.path(stripConv(a)) == want {
						guarded = true
					}
				}
				r.Ob(guarded, fmt.Sprintf("%s|nil-field|%s.%s#%d", c.fnName(fn), o.Obj().Name(), f, n), in.Pos(),
					fmt.Sprintf("%s on %s.%s, which may be nil (%s), happens only under a non-nil test", what, o.Obj().Name(), f, why))
			}
		}
	}
	r.Inst(1)
	r.Ob(true, "scope", token.NoPos, fmt.Sprintf("%d possibly-nil pointer fields, %d dereferences in the event path", len(maybe), nDeref))
}

func (c *Ctx) inModulePkg(n *types.Named) bool {
	p := n.Obj().Pkg()
	return p != nil && (p.Path() == modulePath || strings.HasPrefix(p.Path(), modulePath+"/"))
}

// ruleFiniteFloats: insane-json writes a float with strconv formatting, so +Inf, -Inf and NaN end up
// in the event as bare words that no JSON parser accepts. A float stored into the event by an action
// must therefore be finite: converted from an integer, or parsed with the parser's error checked
// (strconv.ParseFloat and jx.Num.Float64 report ErrRange together with ±Inf).
func ruleFiniteFloats(c *Ctx, r *Rule) {
	n := 0
	for _, fn := range c.actionScope() {
		for _, ci := range callsIn(fn) {
			g := calleeFunc(ci)
			if g == nil || g.Name() != "MutateToFloat" || g.Pkg == nil || g.Pkg.Pkg.Path() != insanePkg || len(ci.Common().Args) < 2 {
				continue
			}
			n++
			r.Inst(1)
			ok, why := c.finiteFloat(ci.Common().Args[1], ci, 0)
			r.Ob(ok, fmt.Sprintf("%s|finite-float#%d", c.fnName(fn), n), ci.Pos(), "the float written into the event is finite (±Inf / NaN are encoded as bare words: the event is no longer JSON)"+ifs(!ok, ": "+why))
		}
	}
	r.Inst(1)
	r.Ob(true, "scope", token.NoPos, fmt.Sprintf("%d float writes in the event path of actions", n))
}

func (c *Ctx) finiteFloat(v ssa.Value, at ssa.Instruction, d int) (bool, string) {
	if d > 4 {
		return false, "too deep"
	}
	switch x := v.(type) {
	case *ssa.Const:
		if x.Value != nil && x.Value.Kind() != constant.Unknown {
			return true, ""
		}
	case *ssa.Convert:
		if b, ok := x.X.Type().Underlying().(*types.Basic); ok && b.Info()&types.IsInteger != 0 {
			return true, ""
		}
		return c.finiteFloat(x.X, at, d+1)
	case *ssa.Phi:
		for _, e := range x.Edges {
			if ok, why := c.finiteFloat(e, at, d+1); !ok {
				return false, why
			}
		}
		return true, ""
	case *ssa.UnOp:
		if x.Op == token.MUL {
			if cv := cellValue(x.X); cv != nil {
				return c.finiteFloat(cv, at, d+1)
			}
		}
	case *ssa.Extract:
		call, ok := x.Tuple.(*ssa.Call)
		if !ok || x.Index != 0 {
			break
		}
		g := call.Call.StaticCallee()
		if g == nil {
			break
		}
		q := qualName(g)
		if q != "strconv.ParseFloat" && !strings.HasSuffix(q, "jx.Num).Float64") && !strings.HasSuffix(q, "jx.Num.Float64") {
			return false, "result of " + q
		}
		// the parser's error must be known to be nil where the value is written
		for _, l := range c.unitGuardsCtx(at) {
			if op, a, b, isCmp := cmpLit(l); isCmp && op == token.EQL && isNilConst(b) {
				for _, leaf := range phiLeaves(stripConv(a)) {
					if e, isE := leaf.(*ssa.Extract); isE && e.Tuple == x.Tuple && e.Index == 1 {
						return true, ""
					}
				}
			}
		}
		return false, "parsed by " + q + " but written without `err == nil` (an out-of-range number parses to ±Inf together with ErrRange)"
	}
	return false, "value " + c.path(v) + " is not known to be finite"
}

// ruleEventBufAppendOnly: event.Buf is the event's own byte store; actions keep unsafe views into it
// (field names, joined values, encoded sub-trees) that live as long as the event. An action may
// therefore only APPEND to it: re-slicing it to a shorter length (`event.Buf[:0]`) lets the next
// write run over bytes the JSON tree still points to.
func ruleEventBufAppendOnly(c *Ctx, r *Rule) {
	n := 0
	for _, fn := range c.actionScope() {
		for _, b := range fn.Blocks {
			for _, in := range b.Instrs {
				sl, ok := in.(*ssa.Slice)
				if !ok || !isLoadOfField(stripConv(sl.X), pipelinePkg, "Event", "Buf") {
					continue
				}
				n++
				if sl.High == nil {
					continue // Buf[s:] a view of the tail
				}
				f := lin(sl.High)
				okHigh := false
				// [:len(Buf)+k] with k >= 0 cannot occur; allow only High == len(Buf) spelled out
				if f.k == 0 && len(f.t) == 1 {
					for key, cnt := range f.t {
						if key.isLen && cnt == 1 && isLoadOfField(stripConv(key.v), pipelinePkg, "Event", "Buf") {
							okHigh = true
						}
					}
				}
				// a view [a:b] that is only read (not used as an append destination) is harmless
				usedAsDest := false
				if refs := sl.Referrers(); refs != nil {
					for _, rf := range *refs {
						if call, isCall := rf.(*ssa.Call); isCall {
							if len(call.Call.Args) > 0 && call.Call.Args[0] == ssa.Value(sl) {
								if _, isB := call.Call.Value.(*ssa.Builtin); isB || (call.Call.StaticCallee() != nil && (strings.HasPrefix(call.Call.StaticCallee().Name(), "Encode") || strings.HasPrefix(call.Call.StaticCallee().Name(), "Append"))) {
									usedAsDest = true
								}
							}
							for i, a := range call.Call.Args {
								if i > 0 && a == ssa.Value(sl) && call.Call.StaticCallee() != nil && strings.HasPrefix(call.Call.StaticCallee().Name(), "Encode") {
									usedAsDest = true
								}
							}
						}
						if st, isSt := rf.(*ssa.Store); isSt && st.Val == ssa.Value(sl) {
							if _, fl, _, okf := fieldOf(st.Addr); okf && fl == "Buf" {
								usedAsDest = true
							}
						}
					}
				}
				r.Inst(1)
				r.Ob(okHigh || !usedAsDest, fmt.Sprintf("%s|event-buf-rewound#%d", c.fnName(fn), n), sl.Pos(), "event.Buf is only appended to by actions; a shortened event.Buf used as a write destination overwrites bytes that earlier actions left views into (cut at "+c.linString(f)+")")
			}
		}
	}
	r.Inst(1)
	r.Ob(true, "scope", token.NoPos, fmt.Sprintf("%d slices of Event.Buf in the event path of actions", n))
}
