package main

import (
	"fmt"
	"go/token"
	"go/types"
	"sort"
	"strings"

	"golang.org/x/tools/go/ssa"
)

func init() {
	explain("C13", "Static necessary conditions of 'no event content can crash an action plugin', decided exhaustively over the source: for everything reachable from every ActionPlugin.Do (all action plugins and the k8s multi-line action; callees in the module incl. cfg/matchrule, pipeline/doif evaluation, xtime and pipeline helpers; Start/Stop/constructors excluded) every index and slice clause is discharged by the difference-constraint bounds prover or is in the reviewed table with its reason; no process-exit / panic call and no unchecked type assertion is reachable there outside the reviewed table or the known findings; no method of an insane-json node that dereferences its receiver is called on a possibly-nil Dig result without a dominating nil test. "+
		"NOT decided: termination, that the event still encodes to valid JSON, 'one of the defined results'.",
		"go/types, go/ssa and x/tools call resolution are correct", "library post-conditions of bytes/strings/utf8/regexp index functions as documented", "struct fields written only by constructors/Start are stable while events are processed",
		"reviewed_obligations.json entries were checked by reading the code; each names one clause of one expression in one function")
	reg("C13", "C13.B", "E4", "every index/slice reachable from an action's Do is in bounds (prover or reviewed table)", 400, ruleActionBounds)
	reg("C13", "C13.X", "E5", "no process exit / explicit panic reachable from Do outside the reviewed table", 1, ruleActionExits)
	reg("C13", "C13.T", "E5", "no unchecked type assertion reachable from Do outside the reviewed table", 1, ruleActionAsserts)
	reg("C13", "C13.I", "E1", "field invariants the reviewed table relies on (parallel slices written only at Start; multi-line buffer keeps its first byte)", 8, ruleReviewedInvariants)
	reg("C13", "C13.N", "E5", "no receiver-dereferencing node method on a possibly-nil Dig result", 1, ruleNilNodes)
}

// coreType: receiver types of package pipeline that are the engine itself, not helpers.
var coreTypes = map[string]bool{"processor": true, "Pipeline": true, "stream": true, "streamer": true, "Batcher": true, "RetriableBatcher": true, "Router": true,
	"eventPool": true, "lowMemoryEventPool": true, "Batch": true, "actionWatcher": true}

func (c *Ctx) actionScope() []*ssa.Function {
	if c.actScope != nil {
		return c.actScope
	}
	ro := c.roles()
	skipName := func(fn *ssa.Function) bool {
		for f := fn; f != nil; f = f.Parent() {
			n := f.Name()
			if f.Signature.Recv() != nil && (n == "Start" || n == "Stop") {
				return true
			}
			if n == "init" || n == "factory" || n == "Factory" {
				return true
			}
		}
		return false
	}
	seen := map[*ssa.Function]bool{}
	var order []*ssa.Function
	var visit func(f *ssa.Function)
	cg := c.chaGraph()
	visit = func(f *ssa.Function) {
		if f == nil || seen[f] || f.Blocks == nil || !c.inModule(f) || skipName(f) {
			return
		}
		if c.pkgOf(f) == "pipeline" {
			if rn := recvNamed(f); rn != nil && coreTypes[rn.Obj().Name()] {
				return
			}
			for p := f.Parent(); p != nil; p = p.Parent() {
				if rn := recvNamed(p); rn != nil && coreTypes[rn.Obj().Name()] {
					return
				}
			}
		}
		if strings.HasPrefix(c.pkgOf(f), "plugin/output/") || (strings.HasPrefix(c.pkgOf(f), "plugin/input/") && c.pkgOf(f) != "plugin/input/k8s") || c.pkgOf(f) == "fd" || c.pkgOf(f) == "logger" || strings.HasPrefix(c.pkgOf(f), "metric") {
			return
		}
		seen[f] = true
		order = append(order, f)
		for _, b := range f.Blocks {
			for _, in := range b.Instrs {
				if ci, ok := in.(ssa.CallInstruction); ok {
					if _, isGo := ci.(*ssa.Go); isGo {
						continue
					}
					cc := ci.Common()
					if cc.IsInvoke() {
						// interfaces declared in package pipeline are the engine's boundary (controllers, plugins)
						if cc.Method.Pkg() != nil && cc.Method.Pkg().Path() == pipelinePkg {
							continue
						}
						if n := cg.Nodes[f]; n != nil {
							for _, e := range n.Out {
								if e.Site == ci && e.Callee.Func != nil {
									visit(e.Callee.Func)
								}
							}
						}
						continue
					}
					visit(cc.StaticCallee())
				}
				for _, op := range in.Operands(nil) {
					if *op == nil {
						continue
					}
					if mc, ok := (*op).(*ssa.MakeClosure); ok {
						if g, ok := mc.Fn.(*ssa.Function); ok {
							visit(g)
						}
					}
				}
			}
		}
	}
	if ro.ActionPlugin != nil {
		for _, t := range c.Implementers(ro.ActionPlugin) {
			if do := c.MethodOf(t, "Do"); do != nil {
				visit(do)
			}
		}
	}
	// the decoder package is decided under C12 (the decode action reuses it)
	inDec := map[*ssa.Function]bool{}
	for _, f := range c.decodeScope() {
		inDec[f] = true
	}
	var kept []*ssa.Function
	for _, f := range order {
		if !inDec[f] && c.pkgOf(f) != "decoder" {
			kept = append(kept, f)
		}
	}
	order = kept
	sort.Slice(order, func(i, j int) bool { return c.fnName(order[i]) < c.fnName(order[j]) })
	c.actScope = order
	return order
}

func ruleActionBounds(c *Ctx, r *Rule) {
	scope := c.actionScope()
	if len(scope) < 100 {
		r.Unresolved(fmt.Sprintf("action scope (found %d functions)", len(scope)))
		return
	}
	r.Note("scope: %d functions", len(scope))
	c.runBounds(r, scope)
}

func ruleActionExits(c *Ctx, r *Rule) {
	scope := c.actionScope()
	c.runExits(r, scope)
	r.Inst(1)
	r.Ob(len(scope) > 0, "scope", token.NoPos, fmt.Sprintf("%d functions scanned for exits", len(scope)))
}

func ruleActionAsserts(c *Ctx, r *Rule) {
	scope := c.actionScope()
	c.runAsserts(r, scope)
	r.Inst(1)
	r.Ob(len(scope) > 0, "scope", token.NoPos, fmt.Sprintf("%d functions scanned for unchecked type assertions", len(scope)))
}

const insanePkg = "github.com/ozontech/insane-json"

// nilUnsafeMethods: methods of insane-json's Node/Root that touch the receiver's fields before
// (or without) comparing the receiver with nil — derived from the library's own SSA.
func (c *Ctx) nilUnsafeMethods() map[*ssa.Function]bool {
	if c.nilUnsafe != nil {
		return c.nilUnsafe
	}
	c.nilUnsafe = map[*ssa.Function]bool{}
	for fn := range c.allFuncs {
		if fn.Signature.Recv() == nil || fn.Blocks == nil || fn.Synthetic != "" {
			continue
		}
		rn := namedOf(fn.Signature.Recv().Type())
		if rn == nil || rn.Obj().Pkg() == nil || rn.Obj().Pkg().Path() != insanePkg || rn.Obj().Name() != "Node" {
			continue
		}
		if _, isPtr := fn.Signature.Recv().Type().(*types.Pointer); !isPtr {
			continue
		}
		recv := fn.Params[0]
		// safe iff on every path the first use of a receiver field is dominated by the `recv == nil` false edge
		unsafe := false
		for _, b := range fn.Blocks {
			for _, in := range b.Instrs {
				fa, ok := in.(*ssa.FieldAddr)
				if !ok || fa.X != ssa.Value(recv) {
					continue
				}
				guarded := false
				for _, l := range c.unitGuards(fa) {
					if op, x, y, ok := cmpLit(l); ok && op == token.NEQ && ((x == ssa.Value(recv) && isNilConst(y)) || (y == ssa.Value(recv) && isNilConst(x))) {
						guarded = true
					}
				}
				if !guarded {
					unsafe = true
				}
			}
		}
		// calls that pass the receiver on to an unsafe method are handled transitively below
		if unsafe {
			c.nilUnsafe[fn] = true
		}
	}
	// transitive: forwards the (unchecked) receiver as receiver of an unsafe method
	for changed := true; changed; {
		changed = false
		for fn := range c.allFuncs {
			if c.nilUnsafe[fn] || fn.Signature.Recv() == nil || fn.Blocks == nil {
				continue
			}
			rn := namedOf(fn.Signature.Recv().Type())
			if rn == nil || rn.Obj().Pkg() == nil || rn.Obj().Pkg().Path() != insanePkg || rn.Obj().Name() != "Node" {
				continue
			}
			recv := fn.Params[0]
			for _, ci := range callsIn(fn) {
				g := calleeFunc(ci)
				if g == nil || !c.nilUnsafe[g] || len(ci.Common().Args) == 0 || ci.Common().Args[0] != ssa.Value(recv) {
					continue
				}
				guarded := false
				for _, l := range c.unitGuards(ci) {
					if op, x, y, ok := cmpLit(l); ok && op == token.NEQ && ((x == ssa.Value(recv) && isNilConst(y)) || (y == ssa.Value(recv) && isNilConst(x))) {
						guarded = true
					}
				}
				if !guarded {
					c.nilUnsafe[fn] = true
					changed = true
				}
			}
		}
	}
	return c.nilUnsafe
}

// mayBeNilNode: v is the result of a lookup that returns nil when the field is absent.
func mayBeNilNode(v ssa.Value) (string, bool) {
	call, ok := v.(*ssa.Call)
	if !ok {
		return "", false
	}
	f := call.Call.StaticCallee()
	if f == nil || f.Signature.Recv() == nil {
		return "", false
	}
	rn := namedOf(f.Signature.Recv().Type())
	if rn == nil || rn.Obj().Pkg() == nil || rn.Obj().Pkg().Path() != insanePkg {
		return "", false
	}
	switch f.Name() {
	case "Dig", "DigField", "AsFieldValue":
		return f.Name(), true
	}
	return "", false
}

func ruleNilNodes(c *Ctx, r *Rule) {
	unsafe := c.nilUnsafeMethods()
	if len(unsafe) < 5 {
		r.Unresolved(fmt.Sprintf("receiver-dereferencing methods of insane-json Node (found %d)", len(unsafe)))
		return
	}
	var names []string
	for f := range unsafe {
		names = append(names, f.Name())
	}
	sort.Strings(names)
	r.Note("nil-unsafe Node methods derived from the library: %s", strings.Join(uniq(names), ", "))
	scope := c.actionScope()
	for _, fn := range scope {
		n := 0
		for _, ci := range callsIn(fn) {
			g := calleeFunc(ci)
			if g == nil || !unsafe[g] || len(ci.Common().Args) == 0 {
				continue
			}
			recv := ci.Common().Args[0]
			src, maybe := mayBeNilNode(recv)
			if !maybe {
				// through a φ of lookups
				if phi, ok := recv.(*ssa.Phi); ok {
					for _, e := range phi.Edges {
						if s, m := mayBeNilNode(e); m {
							src, maybe = s, true
						}
					}
				}
			}
			if !maybe {
				continue
			}
			r.Inst(1)
			n++
			guarded := false
			for _, l := range c.unitGuards(ci) {
				if op, x, y, ok := cmpLit(l); ok && op == token.NEQ && ((x == recv && isNilConst(y)) || (y == recv && isNilConst(x))) {
					guarded = true
				}
			}
			r.Ob(guarded, fmt.Sprintf("%s|nil-node|%s.%s#%d", c.fnName(fn), src, g.Name(), n), ci.Pos(),
				"Node."+g.Name()+" dereferences its receiver, and the receiver is the result of "+src+", which is nil when the event lacks the field: an event without that field panics the processor")
		}
	}
	r.Inst(1)
	r.Ob(true, "scope", token.NoPos, fmt.Sprintf("%d functions scanned; %d nil-unsafe Node methods", len(scope), len(unsafe)))
}

// ruleReviewedInvariants turns the object invariants quoted as reasons in the reviewed table into
// checked facts: "allocated at Start with matching length and never re-assigned afterwards" means
// the field has no writer outside initialisation code; the k8s multi-line buffer keeps the opening
// quote written at Start because every later write is an append onto itself or a re-slice [:n>=1].
func ruleReviewedInvariants(c *Ctx, r *Rule) {
	type fld struct{ pkg, typ, field string }
	startOnly := []fld{
		{"plugin/action/cardinality", "parsedFields", "valsBuf"},
		{"plugin/action/cardinality", "parsedFields", "fields"},
		{"plugin/action/mask", "Plugin", "maskApplyCount"},
		{"plugin/action/mask", "Plugin", "hasMasksIgnoreFields"},
		{"plugin/action/mask", "Plugin", "hasMasksProcessFields"},
		{"plugin/action/rename", "Plugin", "names"},
		{"plugin/action/rename", "Plugin", "paths"},
		{"plugin/action/throttle", "rule", "values"},
		{"plugin/action/throttle", "rule", "fields"},
		{"plugin/action/keep_fields", "Plugin", "fieldsDepthSlice"},
		{"plugin/action/move", "Plugin", "allowFields"},
	}
	for _, f := range startOnly {
		n := c.Named(f.pkg, f.typ)
		if n == nil || fieldByName(n, f.field) == nil {
			r.Unresolved(f.pkg + "." + f.typ + "." + f.field)
			continue
		}
		r.Inst(1)
		r.Ob(c.stableField(n, f.field), f.typ+"."+f.field+"|written-only-at-start", n.Obj().Pos(),
			f.pkg+"."+f.typ+"."+f.field+" is (re)assigned only by initialisation code, so the length relation established at Start holds while events are processed")
	}
	// k8s multi-line buffer
	k8sPkg := modulePath + "/plugin/input/k8s"
	nW := 0
	for _, a := range c.fieldAccesses(k8sPkg, "MultilineAction", "eventBuf") {
		if !a.write {
			continue
		}
		nW++
		ok := false
		switch v := a.val.(type) {
		case *ssa.Call:
			if b, isB := v.Call.Value.(*ssa.Builtin); isB && b.Name() == "append" && isLoadOfField(v.Call.Args[0], k8sPkg, "MultilineAction", "eventBuf") {
				ok = true
			}
		case *ssa.Slice:
			if isLoadOfField(v.X, k8sPkg, "MultilineAction", "eventBuf") && v.Low == nil && v.High != nil {
				if k, isK := constInt(v.High); isK && k >= 1 {
					// re-slice of the very value just loaded, with no store in between
					ok = true
					for _, b := range c.fieldAccesses(k8sPkg, "MultilineAction", "eventBuf") {
						if b.write && b.fn == a.fn && b.in != a.in && instrDominates(b.in, a.in) {
							ok = false
						}
					}
				}
			}
		}
		r.Ob(ok, fmt.Sprintf("%s|eventBuf-writer#%d", c.fnName(a.fn), nW), a.in.Pos(),
			"MultilineAction.eventBuf is only appended to, or re-sliced to [:n>=1] of its current value: the opening quote written at Start stays byte 0 (a fresh buffer re-sliced to [:1] would put a zero byte in front of the joined log and emit malformed JSON)")
	}
	r.Inst(nW)
}
