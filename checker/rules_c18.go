package main

import (
	"fmt"
	"go/token"
	"go/types"
	"sort"
	"strings"

	"golang.org/x/tools/go/ssa"
)

const (
	keepPkg   = modulePath + "/plugin/action/keep_fields"
	removePkg = modulePath + "/plugin/action/remove_fields"
)

func init() {
	explain("C18", "Thin static necessary conditions of 'keep_fields and remove_fields select exactly the configured paths', decided over the source by who-may-call, def-use and CFG path rules: "+
		"(1) both actions touch the event only through a closed set of node methods, and the only mutation is Suicide on a node dug from the event by name(s); "+
		"(2) remove_fields digs every configured path in full on every iteration of its loop (no path skipped, no early exit) and removes exactly that node; its path list is written only at Start from cfg.ParseNestedFields(config.Fields); "+
		"(3) keep_fields examines every field of every visited object; a field name is queued for deletion only on ways on which it is not a configured leaf and the recursion below it found nothing to keep; the keep flag is raised only for a configured leaf or a successful recursion; queued names are deleted from the node they were found in, only at the top level or when the node itself is kept; the per-depth queue is emptied on every way out; the recursion descends by exactly that field with depth+1; a configured leaf reports true, a non-object reports false; "+
		"(4) cfg.ParseNestedFields parses every listed selector, orders paths by length before comparing, and drops a path only when an earlier (shorter or equal) listed path is its prefix. "+
		"(5) the removal primitive (insane-json Suicide, analysed in the pinned library's own SSA) keeps the order of the surviving keys - it does NOT on this tree: known finding K7. "+
		"NOT decided: equality with the naive project/subtract function on every event, selector syntax (escaped dots).",
		"go/types, go/ssa and x/tools call resolution are correct",
		"insane-json: Dig/IsObject/AsFields/AsString do not modify the tree; Suicide removes exactly its receiver")
	reg("C18", "C18.R1", "E1", "closed set of node methods; the only mutation is Suicide on a dug node", 2, ruleFieldsNodeMethods)
	reg("C18", "C18.R2", "E2+E6", "remove_fields digs and removes every configured path in full", 2, ruleRemoveFieldsLoop)
	reg("C18", "C18.R3", "E2+E6", "keep_fields: queue/keep/delete/reset discipline of the tree walk", 8, ruleKeepFieldsWalk)
	reg("C18", "C18.R4", "E2", "ParseNestedFields drops a path only for a listed prefix", 3, ruleParseNestedFields)
	reg("C18", "C18.R5", "E6", "the removal primitive keeps the order of the surviving keys", 1, ruleRemovalKeepsOrder)
}

// jsonMethod: name of an insane-json Node/Root method called by ci ("" otherwise).
func jsonMethod(ci ssa.CallInstruction) string {
	f := calleeFunc(ci)
	if f == nil {
		return ""
	}
	rn := recvNamed(f)
	if rn == nil || rn.Obj().Pkg() == nil || !strings.HasSuffix(rn.Obj().Pkg().Path(), "insane-json") {
		return ""
	}
	return f.Name()
}

// singleVararg: v is the variadic slice holding exactly one value.
func singleVararg(v ssa.Value) (ssa.Value, bool) {
	sl, ok := v.(*ssa.Slice)
	if !ok {
		return nil, false
	}
	al, ok := sl.X.(*ssa.Alloc)
	if !ok {
		return nil, false
	}
	var val ssa.Value
	n := 0
	if refs := al.Referrers(); refs != nil {
		for _, rf := range *refs {
			if ia, isIA := rf.(*ssa.IndexAddr); isIA {
				if r2 := ia.Referrers(); r2 != nil {
					for _, st := range *r2 {
						if store, isSt := st.(*ssa.Store); isSt {
							val = store.Val
							n++
						}
					}
				}
			}
		}
	}
	return val, n == 1
}

// fieldsFuncs: the event-path functions of an action package: Do and what it calls inside the package.
func (c *Ctx) fieldsFuncs(pkgRel string) (do *ssa.Function, all []*ssa.Function) {
	ro := c.roles()
	for _, t := range c.Implementers(ro.ActionPlugin) {
		if f := c.MethodOf(t, "Do"); f != nil && c.pkgOf(f) == pkgRel {
			do = f
		}
	}
	if do == nil {
		return nil, nil
	}
	seen := map[*ssa.Function]bool{}
	var walk func(f *ssa.Function)
	walk = func(f *ssa.Function) {
		if f == nil || seen[f] || c.pkgOf(f) != pkgRel || f.Blocks == nil {
			return
		}
		seen[f] = true
		all = append(all, f)
		for _, ci := range callsIn(f) {
			walk(calleeFunc(ci))
		}
	}
	walk(do)
	return do, all
}

func ruleFieldsNodeMethods(c *Ctx, r *Rule) {
	allowed := map[string]map[string]bool{
		"plugin/action/remove_fields": {"IsObject": true, "Dig": true, "Suicide": true},
		"plugin/action/keep_fields":   {"IsObject": true, "Dig": true, "Suicide": true, "AsFields": true, "AsString": true},
	}
	var pkgs []string
	for p := range allowed {
		pkgs = append(pkgs, p)
	}
	sort.Strings(pkgs)
	for _, pkg := range pkgs {
		do, fns := c.fieldsFuncs(pkg)
		if do == nil {
			r.Unresolved(pkg + " Do")
			continue
		}
		r.Inst(1)
		n := map[string]int{}
		for _, fn := range fns {
			for _, ci := range callsIn(fn) {
				m := jsonMethod(ci)
				if m == "" {
					continue
				}
				n[m]++
				key := fmt.Sprintf("%s|%s#%d", c.fnName(fn), m, n[m])
				if !allowed[pkg][m] {
					r.Ob(false, key+"|closed-set", ci.Pos(), "the action touches the event only through "+strings.Join(keysOf(allowed[pkg]), ", ")+"; found "+m)
					continue
				}
				if m == "Suicide" {
					// receiver: result of Dig on a node of the event
					dug := false
					if call, ok := ci.Common().Args[0].(*ssa.Call); ok && jsonMethod(call) == "Dig" {
						dug = true
					}
					r.Ob(dug, key+"|on-dug-node", ci.Pos(), "the removed node is the result of digging a path (nil-safe: a missing path removes nothing)")
				} else {
					r.Ob(true, key+"|closed-set", ci.Pos(), "read-only node method")
				}
			}
			// no other package's mutating helpers on the event: calls with an Event/Node argument to module functions outside the package
			for _, ci := range callsIn(fn) {
				f := calleeFunc(ci)
				if f == nil || !c.inModule(f) || c.pkgOf(f) == pkg {
					continue
				}
				for _, a := range ci.Common().Args {
					if typeIs(deref(a.Type()), pipelinePkg, "Event") || (namedOf(deref(a.Type())) != nil && namedOf(deref(a.Type())).Obj().Pkg() != nil && strings.HasSuffix(namedOf(deref(a.Type())).Obj().Pkg().Path(), "insane-json")) {
						r.Ob(false, fmt.Sprintf("%s|event-handed-to|%s", c.fnName(fn), c.fnName(f)), ci.Pos(), "the event is not handed to other code on the action's path")
					}
				}
			}
		}
		r.Ob(n["Suicide"] >= 1, c.fnName(do)+"|removes", do.Pos(), "the action removes nodes")
	}
}

// loopBodyExits: does the loop headed by head have an exit from a block other than head?
func (c *Ctx) loopBodyExits(fn *ssa.Function, head *ssa.BasicBlock) bool {
	for _, b := range fn.Blocks {
		if b == head || !pathWithin(head, b) {
			continue
		}
		for _, sc := range b.Succs {
			if sc != head && !pathWithin(head, sc) {
				if _, dead := c.info(fn).dead[sc]; !dead {
					return true
				}
			}
		}
		if _, isRet := b.Instrs[len(b.Instrs)-1].(*ssa.Return); isRet {
			return true
		}
	}
	return false
}

func ruleRemoveFieldsLoop(c *Ctx, r *Rule) {
	do, _ := c.fieldsFuncs("plugin/action/remove_fields")
	if do == nil {
		r.Unresolved("remove_fields Do")
		return
	}
	name := c.fnName(do)
	n := 0
	for _, ci := range callsIn(do) {
		if jsonMethod(ci) != "Suicide" {
			continue
		}
		dig, ok := ci.Common().Args[0].(*ssa.Call)
		if !ok || jsonMethod(dig) != "Dig" {
			continue
		}
		n++
		r.Inst(1)
		key := fmt.Sprintf("%s|remove#%d", name, n)
		// the dug path: an element of Plugin.fieldPaths, whole
		path := dig.Call.Args[len(dig.Call.Args)-1]
		el, isEl := path.(*ssa.UnOp)
		okPath := false
		if isEl && el.Op == token.MUL {
			if ia, isIA := el.X.(*ssa.IndexAddr); isIA && isLoadOfField(ia.X, removePkg, "Plugin", "fieldPaths") {
				okPath = true
			}
		}
		r.Ob(okPath, key+"|whole-configured-path", dig.Pos(), "the removed node is dug by one whole configured path (an element of the parsed path list): "+c.path(path))
		// dug from the event's root
		root := false
		if o, f, _, ok := loadedField(dig.Call.Args[0]); ok && f == "Node" && o != nil && o.Obj().Name() == "Root" {
			root = true
		}
		r.Ob(root, key+"|from-root", dig.Pos(), "paths are resolved from the event's root")
		if !okPath {
			continue
		}
		head := loopHeadOf(el)
		if head == nil {
			r.Ob(false, key+"|every-path", el.Pos(), "the configured paths are iterated")
			continue
		}
		first := head.Instrs[0]
		skip, _ := c.pathExists(do, el, func(in ssa.Instruction) bool { return in == first || isReturn(in) }, func(in ssa.Instruction) bool { return in == ssa.Instruction(ci) })
		r.Ob(!skip && !c.loopBodyExits(do, head), key+"|every-path", el.Pos(), "every configured path is removed on every event: no iteration skips the removal and the loop is left only when the list is exhausted")
	}
	r.Ob(n == 1, name+"|one-removal-site", do.Pos(), fmt.Sprintf("%d removal sites (expected 1)", n))
	// writers of the path list
	for _, a := range c.fieldAccesses(removePkg, "Plugin", "fieldPaths") {
		if !a.write {
			continue
		}
		r.Inst(1)
		r.Ob(parsedFromConfig(c, a, removePkg), c.fnName(a.fn)+"|path-list-from-config", a.in.Pos(), "the path list is cfg.ParseNestedFields(config.Fields), stored at Start only")
	}
}

func parsedFromConfig(c *Ctx, a fieldAccess, pkg string) bool {
	if a.fn.Name() != "Start" {
		return false
	}
	ex, ok := a.val.(*ssa.Extract)
	if !ok || ex.Index != 0 {
		return false
	}
	call, ok := ex.Tuple.(*ssa.Call)
	if !ok || call.Call.StaticCallee() == nil || qualName(call.Call.StaticCallee()) != modulePath+"/cfg.ParseNestedFields" {
		return false
	}
	return isLoadOfField(call.Call.Args[0], pkg, "Config", "Fields")
}

func ruleKeepFieldsWalk(c *Ctx, r *Rule) {
	do, fns := c.fieldsFuncs("plugin/action/keep_fields")
	if do == nil {
		r.Unresolved("keep_fields Do")
		return
	}
	var walk *ssa.Function
	for _, f := range fns {
		for _, ci := range callsIn(f) {
			if jsonMethod(ci) == "Suicide" {
				walk = f
			}
		}
	}
	if walk == nil {
		r.Unresolved("keep_fields tree walk")
		return
	}
	name := c.fnName(walk)
	fi := c.info(walk)
	c.guards(walk)
	// parameters: the event node and the depth
	var nodeP, depthP *ssa.Parameter
	for _, p := range walk.Params {
		if nn := namedOf(deref(p.Type())); nn != nil && nn.Obj().Name() == "Node" {
			nodeP = p
		}
		if isIntegerType(p.Type()) {
			depthP = p
		}
	}
	if nodeP == nil || depthP == nil {
		r.Unresolved("node / depth parameters of the tree walk")
		return
	}
	isQueue := func(v ssa.Value) bool { // p.fieldsDepthSlice[depth] (address)
		ia, ok := v.(*ssa.IndexAddr)
		return ok && ia.Index == ssa.Value(depthP) && isLoadOfField(ia.X, keepPkg, "Plugin", "fieldsDepthSlice")
	}
	isQueueLoad := func(v ssa.Value) bool {
		u, ok := v.(*ssa.UnOp)
		return ok && u.Op == token.MUL && isQueue(u.X)
	}
	// the field loop
	var fields *ssa.Call
	for _, ci := range callsIn(walk) {
		if jsonMethod(ci) == "AsFields" && ci.Common().Args[0] == ssa.Value(nodeP) {
			fields, _ = ci.(*ssa.Call)
		}
	}
	if fields == nil {
		r.Unresolved("iteration over the node's fields")
		return
	}
	var elem *ssa.UnOp
	if refs := fields.Referrers(); refs != nil {
		for _, rf := range *refs {
			if ia, isIA := rf.(*ssa.IndexAddr); isIA {
				if r2 := ia.Referrers(); r2 != nil {
					for _, ld := range *r2 {
						if u, isU := ld.(*ssa.UnOp); isU && u.Op == token.MUL {
							elem = u
						}
					}
				}
			}
		}
	}
	if elem == nil || loopHeadOf(elem) == nil {
		r.Unresolved("field loop of the tree walk")
		return
	}
	head := loopHeadOf(elem)
	r.Inst(1)
	r.Ob(!c.loopBodyExits(walk, head), name+"|every-field-examined", elem.Pos(), "every field of a visited object is examined: the field loop is left only when the fields are exhausted")
	// the field's name
	var fname *ssa.Call
	if refs := elem.Referrers(); refs != nil {
		for _, rf := range *refs {
			if call, ok := rf.(*ssa.Call); ok && jsonMethod(call) == "AsString" {
				fname = call
			}
		}
	}
	r.Ob(fname != nil, name+"|field-name", elem.Pos(), "fields are matched by their own name")
	if fname == nil {
		return
	}
	// the configured-children lookup by that name, and the leaf test on the found child
	var found ssa.Value // ok of children[name]
	var childCell ssa.Value
	for _, b := range walk.Blocks {
		for _, in := range b.Instrs {
			if lk, ok := in.(*ssa.Lookup); ok && lk.CommaOk && lk.Index == ssa.Value(fname) {
				if refs := lk.Referrers(); refs != nil {
					for _, rf := range *refs {
						if ex, isEx := rf.(*ssa.Extract); isEx {
							if ex.Index == 1 {
								found = ex
							} else if r2 := ex.Referrers(); r2 != nil {
								for _, st := range *r2 {
									if store, isSt := st.(*ssa.Store); isSt {
										childCell = store.Addr
									}
								}
							}
						}
					}
				}
			}
		}
	}
	r.Ob(found != nil, name+"|lookup-by-name", fname.Pos(), "the field's name is looked up among the configured children of the current path node")
	if found == nil {
		return
	}
	isLeafTest := func(l lit) (bool, bool) { // (is the test, "child is a leaf" polarity)
		op, x, y, ok := cmpLit(l)
		if !ok {
			return false, false
		}
		k, isK := constInt(y)
		if !isK || k != 0 {
			return false, false
		}
		f := lin(x)
		if len(f.t) != 1 || f.k != 0 {
			return false, false
		}
		for key := range f.t {
			if !key.isLen {
				return false, false
			}
			ld, isLd := key.v.(*ssa.UnOp)
			if !isLd {
				return false, false
			}
			fa, isFA := ld.X.(*ssa.FieldAddr)
			if !isFA || childCell == nil || fa.X != childCell {
				return false, false
			}
		}
		switch op {
		case token.EQL:
			return true, true
		case token.NEQ, token.GTR:
			return true, false
		}
		return false, false
	}
	// the recursion
	var rec *ssa.Call
	for _, ci := range callsIn(walk) {
		if calleeFunc(ci) == walk {
			rec, _ = ci.(*ssa.Call)
		}
	}
	r.Inst(1)
	if rec == nil {
		r.Ob(false, name+"|recursion", walk.Pos(), "nested paths are followed by recursion")
		return
	}
	{
		args := argsNoRecv(rec)
		okRec := len(args) == 3
		why := ""
		if okRec {
			// node argument: Dig(eventNode, name)
			dig, isDig := args[1].(*ssa.Call)
			if !isDig || jsonMethod(dig) != "Dig" || dig.Call.Args[0] != ssa.Value(nodeP) {
				okRec, why = false, "does not descend from the current node"
			} else if v, one := singleVararg(dig.Call.Args[1]); !one || v != ssa.Value(fname) {
				okRec, why = false, "does not descend by exactly the matched field"
			}
			if !lin(args[2]).equal(linForm{k: 1, t: map[linKey]int64{{depthP, false}: 1}}) {
				okRec, why = false, "depth is not depth+1"
			}
			// path-node argument: the looked-up child
			if ld, isLd := args[0].(*ssa.UnOp); !isLd || childCell == nil || ld.X != childCell {
				okRec, why = false, "does not continue with the matched child of the path tree"
			}
		}
		r.Ob(okRec, name+"|recursion", rec.Pos(), "the recursion descends into the matched field of the current node, with the matched child of the path tree and depth+1"+ifs(why != "", ": "+why))
	}
	// queue appends
	nQ := 0
	for _, b := range walk.Blocks {
		for _, in := range b.Instrs {
			st, ok := in.(*ssa.Store)
			if !ok || !isQueue(st.Addr) {
				continue
			}
			app, isApp := isBuiltinCall(instrOf(st.Val), "append")
			if !isApp {
				continue
			}
			nQ++
			r.Inst(1)
			key := fmt.Sprintf("%s|queue#%d", name, nQ)
			v, one := singleVararg(app.Call.Args[1])
			r.Ob(isQueueLoad(app.Call.Args[0]) && one && v == ssa.Value(fname), key+"|own-depth-own-name", st.Pos(), "the queue of this depth grows by the examined field's own name")
			// never for a configured leaf, never after a successful recursion
			notLeaf := c.guardedBy(st, func(l lit) bool {
				if l.v == found && !l.pol {
					return true
				}
				is, leaf := isLeafTest(l)
				return is && !leaf
			})
			notKept := c.guardedBy(st, func(l lit) bool {
				if l.v == found && !l.pol {
					return true
				}
				return l.v == ssa.Value(rec) && !l.pol
			})
			r.Ob(notLeaf, key+"|not-a-configured-leaf", st.Pos(), "a field is queued for deletion only if it is not a configured leaf (unknown name, or a path continues below it)")
			r.Ob(notKept, key+"|nothing-kept-below", st.Pos(), "a field is queued for deletion only if it is unknown or the recursion below it found nothing to keep")
		}
	}
	r.Ob(nQ >= 1, name+"|queues", walk.Pos(), "unwanted fields are queued")
	// the keep flag
	var keep *phiWebT
	for _, ret := range returnsOf(walk) {
		if w := phiWeb(retResults(ret)[0]); len(w.phis) > 0 {
			keep = w
		}
	}
	if keep == nil {
		r.Ob(false, name+"|keep-flag", walk.Pos(), "the walk reports whether anything below was kept")
	} else {
		var phis []*ssa.Phi
		for p := range keep.phis {
			phis = append(phis, p)
		}
		sort.Slice(phis, func(i, j int) bool { return phis[i].Block().Index < phis[j].Block().Index })
		nT := 0
		for _, p := range phis {
			for i, e := range p.Edges {
				b, isB := constBool(e)
				if !isB || !b {
					if !isB && !keep.has(e) {
						r.Ob(false, fmt.Sprintf("%s|keep-flag|source#%d", name, i), p.Pos(), "the keep flag is built from constants only: "+c.path(e))
					}
					continue
				}
				nT++
				r.Inst(1)
				facts := c.edgeFacts(fi, p.Block().Preds[i], p.Block())
				foundKnown := false
				for _, l := range unitLits(facts) {
					if l.v == found && l.pol {
						foundKnown = true
					}
				}
				// some fact on that edge is a disjunction of accepted reasons only
				okT := false
				for _, cl := range facts {
					all := len(cl) > 0
					for _, l := range cl {
						if l.v == ssa.Value(rec) && l.pol {
							continue
						}
						if is, leaf := isLeafTest(l); is && leaf && foundKnown {
							continue
						}
						all = false
					}
					if all {
						okT = true
					}
				}
				r.Ob(okT, fmt.Sprintf("%s|keep-flag|raised#%d", name, nT), p.Pos(), "the keep flag is raised only for a configured leaf that is present or after the recursion below reported something kept")
			}
		}
		r.Ob(nT >= 1, name+"|keep-flag|raised", walk.Pos(), "the keep flag can be raised")
	}
	// deletions
	nD := 0
	for _, ci := range callsIn(walk) {
		if jsonMethod(ci) != "Suicide" {
			continue
		}
		nD++
		r.Inst(1)
		key := fmt.Sprintf("%s|delete#%d", name, nD)
		dig, ok := ci.Common().Args[0].(*ssa.Call)
		okD := ok && jsonMethod(dig) == "Dig" && dig.Call.Args[0] == ssa.Value(nodeP)
		if okD {
			v, one := singleVararg(dig.Call.Args[1])
			okD = false
			if one {
				if ld, isLd := v.(*ssa.UnOp); isLd {
					if ia, isIA := ld.X.(*ssa.IndexAddr); isIA && isQueueLoad(ia.X) {
						okD = true
					}
				}
			}
		}
		r.Ob(okD, key+"|queued-name-from-this-node", ci.Pos(), "what is deleted is a child of the current node named by an entry of this depth's queue")
		g := c.guardedBy(ci, func(l lit) bool {
			if op, x, y, ok := cmpLit(l); ok && op == token.EQL && x == ssa.Value(depthP) {
				if k, isK := constInt(y); isK && k == 0 {
					return true
				}
			}
			return keep != nil && keep.has(l.v) && l.pol
		})
		r.Ob(g, key+"|only-at-top-or-when-kept", ci.Pos(), "fields are deleted from a node only at the top level or when the node itself is kept (otherwise the parent removes the whole node)")
	}
	r.Ob(nD >= 1, name+"|deletes", walk.Pos(), "queued fields are deleted")
	// the queue is emptied on every way out after the loop
	isReset := func(in ssa.Instruction) bool {
		st, ok := in.(*ssa.Store)
		if !ok || !isQueue(st.Addr) {
			return false
		}
		sl, isSl := st.Val.(*ssa.Slice)
		if !isSl || sl.High == nil || !isQueueLoad(sl.X) {
			return false
		}
		k, isK := constInt(sl.High)
		return isK && k == 0 && sl.Low == nil
	}
	r.Inst(1)
	leak, _ := c.pathExists(walk, head.Instrs[0], isReturn, isReset)
	r.Ob(!leak, name+"|queue-emptied", walk.Pos(), "every way out of a visited object empties this depth's queue (stale names would be deleted from the next object visited at this depth)")
	// the path tree: written at Start only, from the parsed configuration
	for _, fld := range []string{"fieldPaths", "parsedFieldsRoot", "fieldsDepthSlice"} {
		for _, a := range c.fieldAccesses(keepPkg, "Plugin", fld) {
			if !a.write {
				continue
			}
			r.Inst(1)
			ok := a.fn.Name() == "Start"
			if fld == "fieldPaths" {
				ok = parsedFromConfig(c, a, keepPkg)
			}
			r.Ob(ok, fmt.Sprintf("%s|writes-Plugin.%s", c.fnName(a.fn), fld), a.in.Pos(), "the configured path tree and its buffers are set up at Start only"+ifs(fld == "fieldPaths", ", from cfg.ParseNestedFields(config.Fields)"))
		}
	}
	// each depth's queue owns its storage: the walk of a nested object appends to the next depth's queue
	// while the parent's queue is pending, so a queue that can grow into another one's backing array
	// overwrites names that are still to be deleted
	tables := map[ssa.Value]bool{}
	var addTable func(v ssa.Value, d int)
	addTable = func(v ssa.Value, d int) {
		v = stripConv(v)
		if tables[v] || d > 3 {
			return
		}
		tables[v] = true
		// built by a helper or a function literal: what it returns
		if call, ok := v.(*ssa.Call); ok {
			var g *ssa.Function
			if f := call.Call.StaticCallee(); f != nil && c.inModule(f) {
				g = f
			} else if mc, isMC := call.Call.Value.(*ssa.MakeClosure); isMC {
				g, _ = mc.Fn.(*ssa.Function)
			}
			if g != nil && g.Blocks != nil {
				for _, ret := range returnsOf(g) {
					for _, res := range retResults(ret) {
						for _, leaf := range phiLeaves(res) {
							addTable(leaf, d+1)
						}
					}
				}
			}
		}
	}
	for _, a := range c.fieldAccesses(keepPkg, "Plugin", "fieldsDepthSlice") {
		if a.write {
			addTable(a.val, 0)
		}
	}
	isDepthTable := func(v ssa.Value) bool {
		v = stripConv(v)
		return isLoadOfField(v, keepPkg, "Plugin", "fieldsDepthSlice") || tables[v]
	}
	nEl := 0
	for _, fn := range c.ModFuncs {
		if c.pkgOf(fn) != "plugin/action/keep_fields" {
			continue
		}
		for _, b := range fn.Blocks {
			for _, in := range b.Instrs {
				st, ok := in.(*ssa.Store)
				if !ok {
					continue
				}
				ia, ok := st.Addr.(*ssa.IndexAddr)
				if !ok || !isDepthTable(ia.X) {
					continue
				}
				nEl++
				r.Inst(1)
				own := false
				why := c.path(st.Val)
				switch x := stripConv(st.Val).(type) {
				case *ssa.MakeSlice:
					own = true
				case *ssa.Slice:
					// a re-slice of the same queue, or a window with an explicit capacity bound
					if ld, isLd := stripConv(x.X).(*ssa.UnOp); isLd && ld.Op == token.MUL {
						if ia2, ok2 := ld.X.(*ssa.IndexAddr); ok2 && isDepthTable(ia2.X) && lin(ia2.Index).equal(lin(ia.Index)) {
							own = true
						}
					}
					if x.Max != nil {
						own = true
					}
					// make([]T, n, constant): a fresh array sliced once
					// (allocated in the same block as it is sliced: one array per queue, not one for all)
					if al, isAl := x.X.(*ssa.Alloc); isAl && al.Heap && al.Block() == x.Block() {
						refs := al.Referrers()
						if refs != nil && len(*refs) == 1 {
							own = true
						}
					}
					if mk, isMk := x.X.(*ssa.MakeSlice); isMk && mk.Block() == x.Block() {
						if refs := mk.Referrers(); refs != nil && len(*refs) == 1 {
							own = true
						}
					}
				case *ssa.Call:
					if app, isApp := isBuiltinCall(x, "append"); isApp {
						if ld, isLd := stripConv(app.Call.Args[0]).(*ssa.UnOp); isLd && ld.Op == token.MUL {
							if ia2, ok2 := ld.X.(*ssa.IndexAddr); ok2 && isDepthTable(ia2.X) && lin(ia2.Index).equal(lin(ia.Index)) {
								own = true
							}
						}
						if sl, isSl := stripConv(app.Call.Args[0]).(*ssa.Slice); isSl {
							if ld, isLd := stripConv(sl.X).(*ssa.UnOp); isLd && ld.Op == token.MUL {
								if ia2, ok2 := ld.X.(*ssa.IndexAddr); ok2 && isDepthTable(ia2.X) && lin(ia2.Index).equal(lin(ia.Index)) {
									own = true
								}
							}
						}
					}
				}
				r.Ob(own, fmt.Sprintf("%s|depth-queue-owns-storage#%d", c.fnName(fn), nEl), st.Pos(), "a depth's queue is a fresh allocation, a re-slice / append of itself, or a window with an explicit capacity bound (found "+why+"): a queue that can grow into the next depth's storage overwrites names still waiting to be deleted")
			}
		}
	}
	r.Ob(nEl >= 2, name+"|depth-queue-writers", walk.Pos(), fmt.Sprintf("%d stores into the per-depth queues examined", nEl))
	// constant results
	for i, ret := range returnsOf(walk) {
		b, isB := constBool(retResults(ret)[0])
		if !isB {
			continue
		}
		r.Inst(1)
		lits := c.unitGuards(ret)
		if b {
			ok := false
			for _, l := range lits {
				if op, x, y, isCmp := cmpLit(l); isCmp && op == token.EQL {
					if k, isK := constInt(y); isK && k == 0 {
						for key := range lin(x).t {
							if key.isLen {
								ok = true
							}
						}
					}
				}
			}
			r.Ob(ok, fmt.Sprintf("%s|return#%d|leaf-is-kept", name, i), ret.Pos(), "constant true is returned only for a path node without children (the configured target)")
		} else {
			ok := false
			for _, l := range lits {
				if call, isCall := l.v.(*ssa.Call); isCall && jsonMethod(call) == "IsObject" && !l.pol {
					ok = true
				}
			}
			r.Ob(ok, fmt.Sprintf("%s|return#%d|non-object-has-nothing", name, i), ret.Pos(), "constant false is returned only when the node is not an object (the path cannot continue)")
		}
	}
}

// boolSource: one way a boolean gets its value — a constant chosen under facts, or something else.
type boolSource struct {
	isConst bool
	val     bool
	facts   []lit
	pos     token.Pos
}

// boolSources enumerates how v gets its value when v is a flag variable (φ of constants) or a result
// of a function literal that is called where it is made (the shape an inlined helper with several
// returns takes): for every constant source, the unit facts under which it is chosen.
func (c *Ctx) boolSources(v ssa.Value, depth int) ([]boolSource, bool) {
	if depth > 3 {
		return nil, false
	}
	switch x := v.(type) {
	case *ssa.Phi:
		fn := x.Parent()
		fi := c.info(fn)
		c.guards(fn)
		var out []boolSource
		seen := map[*ssa.Phi]bool{}
		var walk func(p *ssa.Phi)
		walk = func(p *ssa.Phi) {
			if seen[p] {
				return
			}
			seen[p] = true
			for i, e := range p.Edges {
				if q, ok := e.(*ssa.Phi); ok {
					walk(q)
					continue
				}
				if b, isB := constBool(e); isB {
					out = append(out, boolSource{true, b, unitLits(c.edgeFacts(fi, p.Block().Preds[i], p.Block())), p.Pos()})
					continue
				}
				out = append(out, boolSource{pos: p.Pos()})
			}
		}
		walk(x)
		return out, true
	case *ssa.Extract:
		call, ok := x.Tuple.(*ssa.Call)
		if !ok {
			return nil, false
		}
		return c.litResultSources(call, x.Index, depth)
	case *ssa.Call:
		if _, isTuple := x.Type().(*types.Tuple); !isTuple {
			return c.litResultSources(x, 0, depth)
		}
	}
	return nil, false
}

func (c *Ctx) litResultSources(call *ssa.Call, idx, depth int) ([]boolSource, bool) {
	var litFn *ssa.Function
	switch f := call.Call.Value.(type) {
	case *ssa.MakeClosure:
		litFn, _ = f.Fn.(*ssa.Function)
	case *ssa.Function:
		if f.Parent() != nil {
			litFn = f
		}
	}
	if litFn == nil || litFn.Parent() != call.Parent() {
		return nil, false
	}
	var out []boolSource
	for _, ret := range returnsOf(litFn) {
		res := retResults(ret)
		if idx >= len(res) {
			return nil, false
		}
		if b, isB := constBool(res[idx]); isB {
			out = append(out, boolSource{true, b, c.unitGuards(ret), ret.Pos()})
			continue
		}
		if sub, ok := c.boolSources(res[idx], depth+1); ok {
			g := c.unitGuards(ret)
			for _, s := range sub {
				s.facts = append(append([]lit(nil), s.facts...), g...)
				out = append(out, s)
			}
			continue
		}
		out = append(out, boolSource{pos: ret.Pos()})
	}
	return out, true
}

// siteIn: the instruction of fn that in belongs to — in itself, or the one call of the literal(s) it sits in.
func (c *Ctx) siteIn(in ssa.Instruction, fn *ssa.Function) ssa.Instruction {
	for d := 0; d < 4 && in != nil; d++ {
		if in.Parent() == fn {
			return in
		}
		sites := c.sitesOf(in.Parent())
		if len(sites) != 1 {
			return nil
		}
		in = sites[0]
	}
	return nil
}

func ruleParseNestedFields(c *Ctx, r *Rule) {
	fn := c.Func("cfg", "ParseNestedFields")
	if fn == nil {
		r.Unresolved("cfg.ParseNestedFields")
		return
	}
	name := c.fnName(fn)
	// every selector parsed
	var parse, sortCall, equal *ssa.Call
	allCalls := callsIn(fn)
	for _, a := range allAnon(fn) {
		allCalls = append(allCalls, callsIn(a)...)
	}
	for _, ci := range allCalls {
		call, ok := ci.(*ssa.Call)
		if !ok {
			continue
		}
		f := call.Call.StaticCallee()
		if f == nil {
			continue
		}
		switch {
		case f.Name() == "ParseFieldSelector":
			parse = call
		case qualName(f) == "sort.Slice" || qualName(f) == "sort.SliceStable" || strings.HasPrefix(qualName(f), "slices.SortFunc") || strings.HasPrefix(qualName(f), "slices.SortStableFunc"):
			sortCall = call
		case strings.HasPrefix(qualName(f), "slices.Equal"):
			equal = call
		}
	}
	r.Inst(1)
	r.Ob(parse != nil, name+"|parses-every-selector", fn.Pos(), "every listed selector is parsed into a path")
	r.Ob(equal != nil, name+"|compares-by-segments", fn.Pos(), "prefixes are compared segment by segment (slices.Equal on path segments; joined text loses the boundary of a segment that contains a dot)")
	r.Ob(sortCall != nil, name+"|sorted-before-compare", fn.Pos(), "paths are ordered by length before prefixes are compared")
	if sortCall == nil || equal == nil {
		return
	}
	sortSite, equalSite := c.siteIn(sortCall, fn), c.siteIn(equal, fn)
	r.Ob(sortSite != nil && equalSite != nil && sortSite.Block().Dominates(equalSite.Block()), name+"|sort-dominates-compare", sortCall.Pos(), "the ordering happens before any comparison")
	// the result grows only under a 'no listed prefix' verdict; the opposite verdict is given only after a prefix match
	var result *ssa.Call
	for _, ret := range returnsOf(fn) {
		res := retResults(ret)
		if len(res) == 2 && !isNilConst(res[0]) {
			for _, leaf := range phiLeaves(res[0]) {
				if app, ok := isBuiltinCall(instrOf(leaf), "append"); ok {
					result = app
				}
			}
		}
	}
	r.Inst(1)
	if result == nil {
		r.Ob(false, name+"|result-appends", fn.Pos(), "the result is built by appending surviving paths")
		return
	}
	// the verdict: a flag variable, or the boolean result of a function literal called in place
	var srcs []boolSource
	found := false
	for _, l := range c.unitGuards(result) {
		if ss, ok := c.boolSources(l.v, 0); ok && !found {
			// sources giving the opposite of the surviving polarity drop the path
			srcs, found = nil, true
			for _, s := range ss {
				if !s.isConst || s.val != l.pol {
					srcs = append(srcs, s)
				}
			}
		}
	}
	r.Ob(found, name+"|append-under-flag", result.Pos(), "a path survives only under its 'no listed prefix' flag")
	if !found {
		return
	}
	nF := 0
	for _, s := range srcs {
		nF++
		r.Inst(1)
		ok := false
		if s.isConst {
			for _, l := range s.facts {
				if l.v == ssa.Value(equal) && l.pol {
					ok = true
				}
			}
		}
		r.Ob(ok, fmt.Sprintf("%s|dropped-only-for-listed-prefix#%d", name, nF), s.pos, "a path is dropped only when an earlier listed path equals its prefix")
	}
	r.Ob(nF >= 1, name+"|drops-nested", fn.Pos(), "nested paths are dropped")
	// the compared prefix: longPath[:len(shortPath)]
	okPfx := false
	if len(equal.Call.Args) == 2 {
		for i := 0; i < 2; i++ {
			if sl, isSl := equal.Call.Args[i].(*ssa.Slice); isSl && sl.High != nil && sl.Low == nil {
				f := lin(sl.High)
				other := equal.Call.Args[1-i]
				if f.equal(linForm{t: map[linKey]int64{{other, true}: 1}}) {
					okPfx = true
				}
			}
		}
	}
	r.Ob(okPfx, name+"|compares-prefix-of-equal-length", equal.Pos(), "the comparison is between a listed path and the other path cut to the same length")
}

// ruleRemovalKeepsOrder: "key order of survivors is untouched" needs the removal primitive to
// close the gap by shifting; a primitive that fills the freed slot with the LAST sibling
// re-orders the survivors. Decided on the library's own SSA (the version /repo's go.mod pins).
func ruleRemovalKeepsOrder(c *Ctx, r *Rule) {
	var suicide *ssa.Function
	for fn := range c.allFuncs {
		if fn.Name() != "Suicide" || fn.Signature.Recv() == nil || fn.Blocks == nil || fn.Synthetic != "" {
			continue
		}
		rn := namedOf(deref(fn.Signature.Recv().Type()))
		if rn != nil && rn.Obj().Pkg() != nil && rn.Obj().Pkg().Path() == insanePkg && rn.Obj().Name() == "Node" {
			suicide = fn
		}
	}
	if suicide == nil {
		r.Unresolved("insane-json (*Node).Suicide")
		return
	}
	r.Inst(1)
	isNodes := func(v ssa.Value) bool {
		_, f, _, ok := loadedField(v)
		return ok && f == "nodes"
	}
	n := 0
	swaps := 0
	var pos token.Pos
	for _, b := range suicide.Blocks {
		for _, in := range b.Instrs {
			st, ok := in.(*ssa.Store)
			if !ok {
				continue
			}
			ia, isIA := st.Addr.(*ssa.IndexAddr)
			if !isIA || !isNodes(ia.X) {
				continue
			}
			n++
			// value loaded from the same slice at index len-1
			ld, isLd := st.Val.(*ssa.UnOp)
			if !isLd || ld.Op != token.MUL {
				continue
			}
			src, isSrc := ld.X.(*ssa.IndexAddr)
			if !isSrc || !isNodes(src.X) {
				continue
			}
			f := lin(src.Index)
			if f.k == -1 && len(f.t) == 1 {
				for key, cnt := range f.t {
					if key.isLen && cnt == 1 && isNodes(key.v) {
						swaps++
						pos = st.Pos()
					}
				}
			}
		}
	}
	if pos == token.NoPos {
		pos = suicide.Pos()
	}
	r.Ob(swaps == 0, "insane-json.Node.Suicide|keeps-sibling-order", pos,
		fmt.Sprintf("removing a child keeps the order of its siblings: the freed slot is not filled with the last sibling (%d element stores, %d of them move nodes[len-1] into the freed slot)", n, swaps))
}
