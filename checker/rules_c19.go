package main

import (
	"fmt"
	"go/ast"
	"go/token"
	"go/types"
	"sort"
	"strings"

	"golang.org/x/tools/go/packages"
	"golang.org/x/tools/go/ssa"
)

func init() {
	explain("C19", "Static necessary conditions of well-formed, exactly-once output payloads, decided exhaustively over the source: in every batched output's send function each buffer that is appended to per event is truncated to [:0] before the batch is iterated (no bytes of the previous batch leak into the next request); the batch is iterated only through Batch.ForEach, which calls back for every event except split parents, in order; no raw event string (AsString/AsBytes of a node) is spliced into a framed buffer in an output package without an escaping encoder; the split-and-resend helpers of the Elasticsearch and HTTP outputs recurse on (left, m) and (m, right) with the same m, send data[begin[left]:begin[right]], and take the second half only after the first succeeded; the Kafka output fills exactly one record slot per callback and produces messages[:i]. "+
		"NOT decided: byte-level validity of a payload, the sinks' own framing rules.",
		"go/types, go/ssa and x/tools call resolution are correct", "Event.Encode / Node.Encode / AppendEscapedString emit valid JSON (insane-json)")
	reg("C19", "C19.R1", "E2", "per-worker buffers are truncated before the batch is iterated", 7, ruleResetBeforeAppend)
	reg("C19", "C19.R2", "E6", "no raw event string spliced into a framed buffer", 1, ruleRawSplice)
	reg("C19", "C19.R3", "E7", "split-and-resend halves partition [left, right)", 2, ruleSplitPartition)
	reg("C19", "C19.R4", "E2", "Kafka: one record slot per callback, produced slice is messages[:i]", 1, ruleKafkaRecords)
	reg("C19", "C19.R6", "E2", "a JSON root re-used across the events of a batch is reset in every iteration", 1, ruleScratchRootReset)
	reg("C19", "C19.R7", "E6", "payload buffers are only appended to, emptied, or shortened by a constant from their own end", 7, rulePayloadOnlyGrows)
	reg("C19", "C19.R5", "E2", "Batch.ForEach visits every event except split parents, in order", 1, ruleForEachShape)
	reg("C19", "C19.R8", "E2", "the shared HTTP client writes the payload into an acquired request once (the gzip writer appends)", 1, ruleRequestBodyWrittenOnce)
}

// outFns: the send functions of batched outputs: second argument of NewRetriableBatcher, or
// the value stored into BatcherOptions.OutFn outside package pipeline.
func (c *Ctx) outFns() []*ssa.Function {
	seen := map[*ssa.Function]bool{}
	var out []*ssa.Function
	add := func(v ssa.Value) {
		v = stripConv(v)
		if mc, ok := v.(*ssa.MakeClosure); ok {
			v = mc.Fn
		}
		f, ok := v.(*ssa.Function)
		if !ok {
			return
		}
		if f.Synthetic != "" {
			for _, ci := range callsIn(f) {
				if g := calleeFunc(ci); g != nil && c.inModule(g) {
					f = g
				}
			}
		}
		if !seen[f] && strings.HasPrefix(c.pkgOf(f), "plugin/output/") {
			seen[f] = true
			out = append(out, f)
		}
	}
	if ctor := c.Func("pipeline", "NewRetriableBatcher"); ctor != nil {
		for _, cs := range c.sitesOf(ctor) {
			add(cs.Common().Args[1])
		}
	}
	for _, a := range c.fieldAccesses(pipelinePkg, "BatcherOptions", "OutFn") {
		if a.write && c.pkgOf(a.fn) != "pipeline" {
			add(a.val)
		}
	}
	sort.Slice(out, func(i, j int) bool { return c.fnName(out[i]) < c.fnName(out[j]) })
	return out
}

// funcDeclOf finds the AST declaration of an SSA function.
func (c *Ctx) funcDeclOf(fn *ssa.Function) (*ast.FuncDecl, *packages.Package) {
	pos := fn.Pos()
	for _, p := range c.Pkgs {
		for _, f := range p.Syntax {
			if pos < f.Pos() || pos > f.End() {
				continue
			}
			for _, d := range f.Decls {
				if fd, ok := d.(*ast.FuncDecl); ok && fd.Name.Pos() == pos {
					return fd, p
				}
			}
		}
	}
	return nil, nil
}

func exprString(fset *token.FileSet, e ast.Expr) string { return types.ExprString(e) }

func ruleResetBeforeAppend(c *Ctx, r *Rule) {
	fns := c.outFns()
	if len(fns) < 7 {
		r.Unresolved(fmt.Sprintf("send functions of batched outputs (found %d)", len(fns)))
		return
	}
	for _, fn := range fns {
		fd, p := c.funcDeclOf(fn)
		if fd == nil || fd.Body == nil {
			r.Ob(false, c.fnName(fn)+"|decl", fn.Pos(), "cannot find the declaration")
			continue
		}
		name := c.fnName(fn)
		// locate the ForEach call statement in the top-level statement list
		forEachIdx := -1
		var closure *ast.FuncLit
		find := func() {
			for i, st := range fd.Body.List {
				ast.Inspect(st, func(n ast.Node) bool {
					call, ok := n.(*ast.CallExpr)
					if !ok {
						return true
					}
					sel, ok := call.Fun.(*ast.SelectorExpr)
					if !ok || sel.Sel.Name != "ForEach" || len(call.Args) != 1 {
						return true
					}
					if tv, ok := p.TypesInfo.Types[sel.X]; ok && typeIs(tv.Type, pipelinePkg, "Batch") {
						if fl, ok := call.Args[0].(*ast.FuncLit); ok && forEachIdx < 0 {
							forEachIdx, closure = i, fl
						}
					}
					return true
				})
			}
		}
		find()
		var helperStmt ast.Stmt
		if forEachIdx < 0 {
			// the encoding half may live in a helper of the same package that is handed the batch
			// (`n := p.encodeBatch(data, batch)`): the reset / iterate discipline is then checked there
			var helper *ast.FuncDecl
			for _, st := range fd.Body.List {
				st := st
				ast.Inspect(st, func(n ast.Node) bool {
					call, ok := n.(*ast.CallExpr)
					if !ok || helper != nil {
						return true
					}
					takesBatch := false
					for _, a := range call.Args {
						if tv, ok := p.TypesInfo.Types[a]; ok && typeIs(tv.Type, pipelinePkg, "Batch") {
							takesBatch = true
						}
					}
					if !takesBatch {
						return true
					}
					var id *ast.Ident
					switch f := call.Fun.(type) {
					case *ast.Ident:
						id = f
					case *ast.SelectorExpr:
						id = f.Sel
					}
					if id == nil {
						return true
					}
					if obj, ok := p.TypesInfo.Uses[id].(*types.Func); ok && obj.Pkg() == p.Types {
						for _, f := range p.Syntax {
							for _, d := range f.Decls {
								if hd, ok := d.(*ast.FuncDecl); ok && p.TypesInfo.Defs[hd.Name] == obj && hd.Body != nil {
									helper = hd
									helperStmt = st
								}
							}
						}
					}
					return true
				})
			}
			if helper != nil {
				fd = helper
				find()
			} else {
				helperStmt = nil
			}
		}
		if forEachIdx < 0 {
			r.Ob(false, name+"|foreach", fn.Pos(), "the send function does not iterate the batch through Batch.ForEach with a literal callback")
			continue
		}
		r.Inst(1)
		// every call of the send function encodes the batch it was given: the iteration (or the helper
		// that does it) is a plain top-level statement, not something skipped under a condition
		top := fd.Body.List[forEachIdx]
		if helperStmt != nil {
			top = helperStmt
		}
		simple := false
		switch top.(type) {
		case *ast.ExprStmt, *ast.AssignStmt, *ast.DeclStmt:
			simple = true
		}
		r.Ob(simple, name+"|encodes-on-every-call", top.Pos(), "the batch handed to the send function is encoded on every call (a body kept from an earlier call belongs to whatever batch object was encoded then; batch objects are recycled)")
		// buffers appended to per event: LHS[0] of assignments in the closure whose RHS call takes the same expression as an argument
		grown := map[string]token.Pos{}
		ast.Inspect(closure.Body, func(n ast.Node) bool {
			as, ok := n.(*ast.AssignStmt)
			if !ok || len(as.Rhs) != 1 {
				return true
			}
			call, ok := as.Rhs[0].(*ast.CallExpr)
			if !ok {
				return true
			}
			lhs := exprString(c.Fset, as.Lhs[0])
			tv, ok := p.TypesInfo.Types[as.Lhs[0]]
			if ok {
				if _, isSlice := tv.Type.Underlying().(*types.Slice); !isSlice {
					return true
				}
			} else if id, isID := as.Lhs[0].(*ast.Ident); isID {
				if obj := p.TypesInfo.ObjectOf(id); obj != nil {
					if _, isSlice := obj.Type().Underlying().(*types.Slice); !isSlice {
						return true
					}
				}
			}
			for _, a := range call.Args {
				if exprString(c.Fset, a) == lhs {
					grown[lhs] = as.Pos()
				}
			}
			return true
		})
		var keys []string
		for k := range grown {
			keys = append(keys, k)
		}
		sort.Strings(keys)
		for _, e := range keys {
			// an earlier top-level statement `e = X[:0]` / `e := X[:0]`
			reset := false
			for _, st := range fd.Body.List[:forEachIdx] {
				as, ok := st.(*ast.AssignStmt)
				if !ok {
					continue
				}
				for i, l := range as.Lhs {
					if exprString(c.Fset, l) != e || i >= len(as.Rhs) {
						continue
					}
					if se, ok := as.Rhs[i].(*ast.SliceExpr); ok && se.Low == nil && se.High != nil {
						if tv, ok := p.TypesInfo.Types[se.High]; ok && tv.Value != nil && tv.Value.ExactString() == "0" {
							reset = true
						}
					}
				}
			}
			r.Ob(reset, name+"|reset|"+e, grown[e], "buffer "+e+" grows per event inside ForEach and is truncated to [:0] before the iteration (otherwise the previous batch's bytes are sent again)")
		}
		r.Ob(len(keys) >= 0, name+"|buffers", fn.Pos(), fmt.Sprintf("per-event buffers: %v", keys))
	}
}

// taintedBy: v derives from a raw node string (AsString / AsBytes) without an escaping step.
func (c *Ctx) rawSource(v ssa.Value) (string, bool) {
	seen := map[ssa.Value]bool{}
	var walk func(v ssa.Value, d int) (string, bool)
	walk = func(v ssa.Value, d int) (string, bool) {
		if v == nil || d > 8 || seen[v] {
			return "", false
		}
		seen[v] = true
		switch x := v.(type) {
		case *ssa.Call:
			f := x.Call.StaticCallee()
			if f == nil {
				return "", false
			}
			q := qualName(f)
			if strings.HasPrefix(q, "(*github.com/ozontech/insane-json.Node).") {
				switch f.Name() {
				case "AsString", "AsBytes":
					return c.path(x), true
				}
				return "", false
			}
			// transparent helpers
			switch f.Name() {
			case "StringToByteUnsafe", "ByteToStringUnsafe", "CloneString", "Clone":
				return walk(x.Call.Args[0], d+1)
			}
		case *ssa.Phi:
			for _, e := range x.Edges {
				if s, ok := walk(e, d+1); ok {
					return s, true
				}
			}
		case *ssa.Convert:
			return walk(x.X, d+1)
		case *ssa.ChangeType:
			return walk(x.X, d+1)
		case *ssa.Slice:
			return walk(x.X, d+1)
		case *ssa.UnOp:
			if al := varOf(x); al != nil {
				for _, ref := range *al.Referrers() {
					if st, ok := ref.(*ssa.Store); ok && st.Addr == ssa.Value(al) {
						if s, ok := walk(st.Val, d+1); ok {
							return s, true
						}
					}
				}
			}
		}
		return "", false
	}
	return walk(v, 0)
}

func ruleRawSplice(c *Ctx, r *Rule) {
	fns := c.outFns()
	if len(fns) == 0 {
		r.Unresolved("send functions")
		return
	}
	// everything statically reachable from the send functions inside plugin/output/*
	scope := map[*ssa.Function]bool{}
	var visit func(f *ssa.Function, d int)
	visit = func(f *ssa.Function, d int) {
		if f == nil || scope[f] || f.Blocks == nil || d > 5 || !strings.HasPrefix(c.pkgOf(f), "plugin/output/") {
			return
		}
		scope[f] = true
		for _, ci := range callsIn(f) {
			visit(calleeFunc(ci), d+1)
			for _, a := range ci.Common().Args {
				if mc, ok := a.(*ssa.MakeClosure); ok {
					if g, ok := mc.Fn.(*ssa.Function); ok {
						visit(g, d+1)
					}
				}
			}
		}
	}
	for _, f := range fns {
		visit(f, 0)
	}
	r.Inst(len(scope))
	n := 0
	var list []*ssa.Function
	for f := range scope {
		list = append(list, f)
	}
	sort.Slice(list, func(i, j int) bool { return c.fnName(list[i]) < c.fnName(list[j]) })
	for _, f := range list {
		k := 0
		for _, b := range f.Blocks {
			for _, in := range b.Instrs {
				call, ok := isBuiltinCall(in, "append")
				if !ok || len(call.Call.Args) != 2 {
					continue
				}
				dst, ok := call.Call.Args[0].Type().Underlying().(*types.Slice)
				if !ok {
					continue
				}
				if bt, ok := dst.Elem().Underlying().(*types.Basic); !ok || bt.Kind() != types.Uint8 {
					continue
				}
				n++
				if src, raw := c.rawSource(call.Call.Args[1]); raw {
					k++
					r.Ob(false, fmt.Sprintf("%s|raw-append#%d", c.fnName(f), k), call.Pos(), "a raw event string ("+src+") is appended to an output buffer without JSON escaping: a quote, backslash or newline in that field breaks the framing of the whole request")
				}
			}
		}
	}
	r.Ob(n > 0, "appends-examined", token.NoPos, fmt.Sprintf("%d byte-buffer appends examined in %d functions of output packages", n, len(scope)))
}

func ruleSplitPartition(c *Ctx, r *Rule) {
	for _, fn := range c.ModFuncs {
		if !strings.HasPrefix(c.pkgOf(fn), "plugin/output/") || fn.Parent() != nil {
			continue
		}
		var rec []ssa.CallInstruction
		for _, ci := range callsIn(fn) {
			if calleeFunc(ci) == fn {
				rec = append(rec, ci)
			}
		}
		if len(rec) != 2 {
			continue
		}
		r.Inst(1)
		name := c.fnName(fn)
		sort.Slice(rec, func(i, j int) bool { return rec[i].Pos() < rec[j].Pos() })
		// int params: left, right = first two int parameters after the receiver
		var ints []*ssa.Parameter
		for _, p := range fn.Params {
			if b, ok := p.Type().Underlying().(*types.Basic); ok && b.Kind() == types.Int {
				ints = append(ints, p)
			}
		}
		if len(ints) < 2 {
			r.Ob(false, name+"|params", fn.Pos(), "no (left, right) int parameters")
			continue
		}
		left, right := ints[0], ints[1]
		li, ri := paramIndex(fn, left), paramIndex(fn, right)
		a1, a2 := rec[0].Common().Args, rec[1].Common().Args
		m := a1[ri]
		ok := a1[li] == ssa.Value(left) && a2[ri] == ssa.Value(right) && sameValue(a2[li], m)
		_, mIsParam := m.(*ssa.Parameter)
		r.Ob(ok && !mIsParam, name+"|halves", rec[0].Pos(), fmt.Sprintf("the two halves are (left, m) and (m, right) with the same m: (%s, %s) and (%s, %s)", c.path(a1[li]), c.path(a1[ri]), c.path(a2[li]), c.path(a2[ri])))
		// other arguments passed through unchanged
		same := true
		for i := range a1 {
			if i == li || i == ri {
				continue
			}
			if a1[i] != ssa.Value(fn.Params[i]) || a2[i] != ssa.Value(fn.Params[i]) {
				same = false
			}
		}
		r.Ob(same, name+"|same-data", rec[0].Pos(), "both halves use the same offsets table and data buffer")
		// the second half only after the first succeeded
		r.Ob(c.succeededBefore(rec[0], rec[1]), name+"|second-after-first", rec[1].Pos(), "the second half is sent only after the first half succeeded")
		// the request body is data[begin[left]:begin[right]]
		okBody := false
		for _, b := range fn.Blocks {
			for _, in := range b.Instrs {
				if sl, ok := in.(*ssa.Slice); ok && sl.Low != nil && sl.High != nil {
					lo, hi := sl.Low, sl.High
					idx := func(v ssa.Value, p *ssa.Parameter) bool {
						u, ok := v.(*ssa.UnOp)
						if !ok || u.Op != token.MUL {
							return false
						}
						ia, ok := u.X.(*ssa.IndexAddr)
						return ok && ia.Index == ssa.Value(p)
					}
					if idx(lo, left) && idx(hi, right) {
						okBody = true
					}
				}
			}
		}
		r.Ob(okBody, name+"|body", fn.Pos(), "the request body is data[begin[left]:begin[right]]")
		// empty range terminates
		okEmpty := false
		for _, ret := range returnsOf(fn) {
			for _, l := range c.unitGuards(ret) {
				if op, x, y, ok := cmpLit(l); ok && op == token.EQL && ((x == ssa.Value(left) && y == ssa.Value(right)) || (x == ssa.Value(right) && y == ssa.Value(left))) {
					okEmpty = true
				}
			}
		}
		r.Ob(okEmpty, name+"|empty-range", fn.Pos(), "an empty range returns at once")
		// a single event is not split further
		okOne := false
		for _, ret := range returnsOf(fn) {
			for _, l := range c.unitGuards(ret) {
				if op, x, y, ok := cmpLit(l); ok && op == token.EQL {
					if k, isK := constInt(y); isK && k == 1 {
						if bo, ok := x.(*ssa.BinOp); ok && bo.Op == token.SUB && bo.X == ssa.Value(right) && bo.Y == ssa.Value(left) {
							okOne = true
						}
					}
				}
			}
		}
		r.Ob(okOne, name+"|single-event", fn.Pos(), "a range of one event is not split again (the recursion terminates)")
	}
}

func ruleKafkaRecords(c *Ctx, r *Rule) {
	var out *ssa.Function
	for _, f := range c.outFns() {
		if c.pkgOf(f) == "plugin/output/kafka" {
			out = f
		}
	}
	if out == nil {
		r.Unresolved("kafka output send function")
		return
	}
	r.Inst(1)
	name := c.fnName(out)
	// closure passed to ForEach
	var cl *ssa.Function
	for _, ci := range callsIn(out) {
		if f := calleeFunc(ci); f != nil && f.Name() == "ForEach" {
			if mc, ok := ci.Common().Args[1].(*ssa.MakeClosure); ok {
				cl, _ = mc.Fn.(*ssa.Function)
			}
		}
	}
	if cl == nil {
		r.Ob(false, name+"|closure", out.Pos(), "no ForEach callback")
		return
	}
	// the counter: a captured int cell incremented by 1 exactly once on every path
	var inc []*ssa.Store
	var counter ssa.Value
	for _, b := range cl.Blocks {
		for _, in := range b.Instrs {
			if st, ok := in.(*ssa.Store); ok {
				if bo, ok := st.Val.(*ssa.BinOp); ok && bo.Op == token.ADD {
					if k, ok := constInt(bo.Y); ok && k == 1 {
						if u, ok := bo.X.(*ssa.UnOp); ok && u.X == st.Addr {
							if _, isFV := st.Addr.(*ssa.FreeVar); isFV {
								inc = append(inc, st)
								counter = st.Addr
							}
						}
					}
				}
			}
		}
	}
	okInc := len(inc) == 1
	if okInc {
		miss, _ := c.pathExists(cl, nil, isReturn, func(in ssa.Instruction) bool { return in == ssa.Instruction(inc[0]) })
		okInc = !miss
	}
	r.Ob(okInc, name+"|one-increment", cl.Pos(), fmt.Sprintf("the record counter is incremented exactly once per event on every path (%d increments)", len(inc)))
	if counter == nil {
		return
	}
	// Value of the slot indexed by the counter is set from the encode buffer tail
	okVal := false
	for _, b := range cl.Blocks {
		for _, in := range b.Instrs {
			if st, ok := in.(*ssa.Store); ok {
				if _, f, base, okf := fieldOf(st.Addr); okf && f == "Value" {
					_ = base
					if sl, ok := st.Val.(*ssa.Slice); ok && sl.Low != nil && sl.High == nil {
						okVal = true
					}
				}
			}
		}
	}
	r.Ob(okVal, name+"|value-is-tail", cl.Pos(), "each record's Value is the tail of the shared buffer starting at this event's encode start")
	// the produced slice is messages[:i] with i the same counter variable
	okProd := false
	var fvIdx = -1
	for i, fv := range cl.FreeVars {
		if fv == counter {
			fvIdx = i
		}
	}
	for _, b := range out.Blocks {
		for _, in := range b.Instrs {
			if sl, ok := in.(*ssa.Slice); ok && sl.Low == nil && sl.High != nil {
				if al := varOf(sl.High); al != nil {
					// the cell bound to the closure's counter free variable
					for _, ci := range callsIn(out) {
						if f := calleeFunc(ci); f != nil && f.Name() == "ForEach" {
							if mc, ok := ci.Common().Args[1].(*ssa.MakeClosure); ok && fvIdx >= 0 && fvIdx < len(mc.Bindings) && mc.Bindings[fvIdx] == ssa.Value(al) {
								if _, f, _, okf := loadedField(stripConv(sl.X)); okf && f == "messages" {
									okProd = true
								}
							}
						}
					}
				}
			}
		}
	}
	r.Ob(okProd, name+"|produce-prefix", out.Pos(), "exactly the filled records are produced: messages[:i]")
}

func ruleForEachShape(c *Ctx, r *Rule) {
	fe := c.Method("pipeline", "Batch", "ForEach")
	if fe == nil {
		r.Unresolved("Batch.ForEach")
		return
	}
	r.Inst(1)
	name := c.fnName(fe)
	var cbs []ssa.CallInstruction
	for _, ci := range callsIn(fe) {
		if ci.Common().Value == ssa.Value(fe.Params[1]) {
			cbs = append(cbs, ci)
		}
	}
	r.Ob(len(cbs) == 1, name+"|one-callback-site", fe.Pos(), fmt.Sprintf("%d callback call sites", len(cbs)))
	if len(cbs) != 1 {
		return
	}
	cb := cbs[0]
	// argument: events[i], i ascending
	okArg := false
	if u, ok := cb.Common().Args[0].(*ssa.UnOp); ok && u.Op == token.MUL {
		if ia, ok := u.X.(*ssa.IndexAddr); ok && isLoadOfField(ia.X, pipelinePkg, "Batch", "events") && ascendingFromZero(ia.Index) {
			okArg = true
		}
	}
	r.Ob(okArg, name+"|in-order", cb.Pos(), "the callback receives events[i] for i = 0,1,2,…")
	// guards: only the loop bound and !IsChildParentKind
	extra := ""
	skipParent := false
	for _, cl := range c.guards(fe)[cb.Block()] {
		for _, l := range cl {
			if call, ok := l.v.(*ssa.Call); ok && call.Call.StaticCallee() != nil && call.Call.StaticCallee().Name() == "IsChildParentKind" && !l.pol {
				skipParent = true
				continue
			}
			if op, _, y, ok := cmpLit(l); ok && op == token.LSS {
				if call, ok := y.(*ssa.Call); ok {
					if b, ok := call.Call.Value.(*ssa.Builtin); ok && b.Name() == "len" {
						continue
					}
				}
			}
			extra = c.litString(l)
		}
	}
	r.Ob(skipParent && extra == "", name+"|skips-only-parents", cb.Pos(), "every event is passed to the callback except split parents (extra guard: "+extra+")")
	// the "batch has something to send" flag the worker tests before calling the output must be
	// the accumulated OR over all appended events of "not a split parent" — the same predicate ForEach uses
	for _, a := range c.fieldAccesses(pipelinePkg, "Batch", "hasIterableEvents") {
		if !a.write {
			continue
		}
		nm := c.fnName(a.fn)
		if k, isK := constBool(a.val); isK {
			r.Ob(!k, nm+"|flag-const", a.in.Pos(), "the flag is only ever reset to false as a constant (reset)")
			continue
		}
		okOr := false
		if phi, ok := a.val.(*ssa.Phi); ok && len(phi.Edges) == 2 {
			var keepsTrue, addsNew bool
			for i, e := range phi.Edges {
				if k, isK := constBool(e); isK && k {
					// the short-circuit edge: taken when the old flag value is true
					for _, cl := range c.edgeFactsOf(a.fn, phi.Block().Preds[i], phi.Block()) {
						if len(cl) == 1 && cl[0].pol && isLoadOfField(cl[0].v, pipelinePkg, "Batch", "hasIterableEvents") {
							keepsTrue = true
						}
					}
				}
				if u, ok := e.(*ssa.UnOp); ok && u.Op == token.NOT {
					if call, ok := u.X.(*ssa.Call); ok && call.Call.StaticCallee() != nil && call.Call.StaticCallee().Name() == "IsChildParentKind" {
						if p, isP := call.Call.Args[0].(*ssa.Parameter); isP && paramIndex(a.fn, p) >= 0 {
							addsNew = true
						}
					}
				}
			}
			okOr = keepsTrue && addsNew
		}
		r.Ob(okOr, nm+"|flag-accumulates", a.in.Pos(), "hasIterableEvents = hasIterableEvents || !event.IsChildParentKind(): once a deliverable event is in the batch the flag stays true (otherwise a batch that ends with a split parent is committed without being sent): "+c.path(a.val))
	}
}

// rulePayloadOnlyGrows: a payload buffer under construction is only appended to, emptied, or
// shortened by a constant counted from its own end (the quote-stripping idiom). A cut at a
// position computed from elsewhere can land inside an escape sequence or a frame.
func rulePayloadOnlyGrows(c *Ctx, r *Rule) {
	n := 0
	for _, fn := range c.ModFuncs {
		if !strings.HasPrefix(c.pkgOf(fn), "plugin/output/") {
			continue
		}
		for _, b := range fn.Blocks {
			for _, in := range b.Instrs {
				sl, ok := in.(*ssa.Slice)
				if !ok || sl.Low != nil || sl.High == nil {
					continue
				}
				st, isSl := sl.X.Type().Underlying().(*types.Slice)
				if !isSl {
					continue
				}
				if bt, isB := st.Elem().Underlying().(*types.Basic); !isB || bt.Kind() != types.Byte {
					continue
				}
				// does the shortened value go on as a buffer (append destination, returned, stored)?
				goesOn := false
				if refs := sl.Referrers(); refs != nil {
					for _, rf := range *refs {
						switch x := rf.(type) {
						case *ssa.Return:
							goesOn = true
						case *ssa.Store:
							if x.Val == ssa.Value(sl) {
								goesOn = true
							}
						case *ssa.Phi:
							goesOn = true
						case *ssa.Call:
							if bi, isBi := x.Call.Value.(*ssa.Builtin); isBi && bi.Name() == "append" && x.Call.Args[0] == ssa.Value(sl) {
								goesOn = true
							} else if len(x.Call.Args) > 0 {
								for _, a := range x.Call.Args {
									if a == ssa.Value(sl) {
										if f := x.Call.StaticCallee(); f != nil && (strings.HasPrefix(f.Name(), "append") || strings.HasPrefix(f.Name(), "Append") || strings.HasPrefix(f.Name(), "Encode")) {
											goesOn = true
										}
									}
								}
							}
						}
					}
				}
				if !goesOn {
					continue
				}
				n++
				r.Inst(1)
				okHigh := false
				if k, isK := constInt(sl.High); isK && k == 0 {
					okHigh = true
					// emptying is how a batch starts; a function that is handed the buffer as an argument and
					// returns it (the per-event encoder contract: append to what is there) must not empty it —
					// that drops every event already in the body
					if par, isPar := bufferParam(sl.X); isPar && returnsValue(fn, sl) {
						r.Ob(false, fmt.Sprintf("%s|empties-its-argument", c.fnName(fn)), sl.Pos(), "a function that receives the payload buffer ("+par.Name()+") and returns it appends to it; returning it emptied drops every event already encoded into the body of this batch")
					}
				}
				f := lin(sl.High)
				if !okHigh && f.k <= 0 && len(f.t) == 1 {
					for key, cnt := range f.t {
						if key.isLen && cnt == 1 && (key.v == sl.X || sameValue(key.v, sl.X)) {
							okHigh = true
						}
					}
				}
				r.Ob(okHigh, fmt.Sprintf("%s|shorten#%d", c.fnName(fn), n), sl.Pos(), "a payload buffer is shortened only to empty or by a constant counted from its own end; cut at "+c.linString(f))
			}
		}
	}
	r.Ob(n >= 7, "plugin/output|buffer-resets", token.NoPos, fmt.Sprintf("%d places where an output buffer is emptied or shortened", n))
}

// ruleScratchRootReset: a JSON root that an output re-uses for every event of a batch (created outside
// the per-event callback, filled and encoded inside it) is reset inside the callback on every path,
// so that nothing of one event's envelope is left for the next.
func ruleScratchRootReset(c *Ctx, r *Rule) {
	n := 0
	for _, fn := range c.ModFuncs {
		if !strings.HasPrefix(c.pkgOf(fn), "plugin/output/") || fn.Parent() == nil {
			continue
		}
		for _, fv := range fn.FreeVars {
			// captured *insaneJSON.Root (possibly through the variable's cell)
			t := fv.Type()
			if p, isP := t.(*types.Pointer); isP {
				if _, isPP := p.Elem().(*types.Pointer); isPP {
					t = p.Elem()
				}
			}
			nn := namedOf(deref(t))
			if nn == nil || nn.Obj().Name() != "Root" || nn.Obj().Pkg() == nil || nn.Obj().Pkg().Path() != insanePkg {
				continue
			}
			// values of the root inside the closure
			isRoot := func(v ssa.Value) bool {
				for d := 0; d < 4; d++ {
					if v == ssa.Value(fv) {
						return true
					}
					switch x := v.(type) {
					case *ssa.UnOp:
						v = x.X
					case *ssa.FieldAddr:
						v = x.X
					default:
						return false
					}
				}
				return false
			}
			mutated, encoded := false, false
			isReset := func(in ssa.Instruction) bool {
				ci, ok := in.(ssa.CallInstruction)
				if !ok {
					return false
				}
				f := calleeFunc(ci)
				if f == nil || !strings.HasPrefix(f.Name(), "Decode") || len(ci.Common().Args) == 0 {
					return false
				}
				return isRoot(ci.Common().Args[0])
			}
			for _, ci := range callsIn(fn) {
				f := calleeFunc(ci)
				if f == nil {
					continue
				}
				for i, a := range ci.Common().Args {
					if !isRoot(a) {
						continue
					}
					nm := f.Name()
					if strings.HasPrefix(nm, "Encode") && i == 0 {
						encoded = true
					}
					if strings.HasPrefix(nm, "AddField") || strings.HasPrefix(nm, "MutateTo") || strings.HasPrefix(nm, "CreateNestedField") || strings.HasPrefix(nm, "Merge") {
						mutated = true
					}
				}
			}
			if !mutated || !encoded {
				continue
			}
			n++
			r.Inst(1)
			leak, _ := c.pathExists(fn, nil, isReturn, isReset)
			r.Ob(!leak, fmt.Sprintf("%s|scratch-root-reset#%d", c.fnName(fn), n), fn.Pos(), "the JSON root re-used for every event of the batch is reset (re-decoded) on every path of the per-event callback: an envelope describes only its own event")
		}
	}
	r.Ob(n >= 1, "plugin/output|scratch-roots", token.NoPos, fmt.Sprintf("%d per-event callbacks fill and encode a re-used JSON root", n))
}

// bufferParam: v is a []byte parameter of its function (through φs).
func bufferParam(v ssa.Value) (*ssa.Parameter, bool) {
	for _, leaf := range phiLeaves(v) {
		if p, ok := leaf.(*ssa.Parameter); ok {
			return p, true
		}
	}
	return nil, false
}

// returnsValue: v (through φs) is a result of fn.
func returnsValue(fn *ssa.Function, v ssa.Value) bool {
	for _, ret := range returnsOf(fn) {
		for _, res := range retResults(ret) {
			for _, leaf := range phiLeaves(res) {
				if leaf == v {
					return true
				}
			}
		}
	}
	return false
}

// ruleRequestBodyWrittenOnce: the shared HTTP client writes the payload into a pooled request; with
// gzip the body writer APPENDS a compressed member. A request acquired once is therefore prepared
// once: a second preparation (a fail-over to the next endpoint on the same request) sends every
// event of the batch twice.
func ruleRequestBodyWrittenOnce(c *Ctx, r *Rule) {
	n := 0
	for _, fn := range c.ModFuncs {
		if c.pkgOf(fn) != "xhttp" {
			continue
		}
		for _, ci := range callsIn(fn) {
			f := calleeFunc(ci)
			if f == nil || !c.inModule(f) || f.Blocks == nil {
				continue
			}
			// a preparing callee: writes the body of a *fasthttp.Request (SetBodyRaw / BodyWriter)
			prepares := false
			for _, cj := range callsIn(f) {
				if g := calleeFunc(cj); g != nil && (g.Name() == "SetBodyRaw" || g.Name() == "BodyWriter" || g.Name() == "SetBody" || g.Name() == "AppendBody") {
					prepares = true
				}
			}
			if !prepares {
				continue
			}
			n++
			r.Inst(1)
			again, at := c.pathExists(fn, ci, func(in ssa.Instruction) bool {
				cj, ok := in.(ssa.CallInstruction)
				return ok && calleeFunc(cj) == f
			}, func(in ssa.Instruction) bool {
				cj, ok := in.(ssa.CallInstruction)
				if !ok {
					return false
				}
				g := calleeFunc(cj)
				return g != nil && (g.Name() == "AcquireRequest" || g.Name() == "Reset" || g.Name() == "ResetBody")
			})
			msg := "the payload is written into an acquired request once"
			if again {
				msg = "the request is prepared again at " + c.pos(at.Pos()) + " without being reset: with gzip the body writer appends, and the receiver gets every event of the batch twice"
			}
			r.Ob(!again, fmt.Sprintf("%s|%s|once-per-request", c.fnName(fn), f.Name()), ci.Pos(), msg)
		}
	}
	r.Ob(n >= 1, "xhttp|prepare-sites", token.NoPos, fmt.Sprintf("%d places where the shared HTTP client fills a request", n))
}
