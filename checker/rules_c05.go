package main

import (
	"fmt"
	"go/token"
	"go/types"
	"strings"

	"golang.org/x/tools/go/ssa"
)

func init() {
	explain("C05", "Static necessary conditions of capacity/conservation, decided exhaustively over the source: who may take events from / return events to the pool (all invoke sites of the unexported pool interface); on every CFG path of In after pool.get the event is streamed or given back; low-memory pool admits only under Inc()<=capacity and undoes the increment before waiting (effect balance +1/0/-1); standard pool has exactly one Inc per successful get and one Dec per back and indexes slots by counter mod capacity; the finalizer returns an event only when backEvent and not timeout/child; every foreign Event literal is re-kinded before use. "+
		"NOT decided: the in-use count under a concrete interleaving, the slot CAS protocol, double return through aliasing.",
		"go/types, go/ssa and x/tools call resolution are correct", "the pool interface is pipeline.pool and is used only through the Pipeline.eventPool field")
	reg("C05", "C05.R1", "E1", "pool.get only in In; pool.back only in In, its streaming helper and the finalizer", 4, rulePoolWhoMay)
	reg("C05", "C05.R2", "E2", "every path of In after pool.get streams the event or gives it back", 1, ruleGetStreamOrBack)
	reg("C05", "C05.R3", "E2+E8", "low-memory pool: admission under Inc()<=capacity; Dec before waiting; back = one Dec", 1, ruleLowMemAdmission)
	reg("C05", "C05.R4", "E2+E8", "standard pool: one Inc per get, one Dec per back, slot = counter mod capacity", 1, ruleStdPoolBalance)
	reg("C05", "C05.R5", "E2", "finalizer gives an event back only when backEvent && !(timeout||child), once", 1, ruleFinalizerBack)
	reg("C05", "C05.R7", "E1+E2", "every event of a batch is acknowledged: the commit loop covers batch.events[0..len) (same rule as C02.R3)", 1, ruleFIFOBatchFill)
	reg("C05", "C05.R8", "E2", "a recycled event is a regular event again (kind reset on all paths of back or get, both pools)", 2, ruleRecycledEventIsRegular)
	reg("C05", "C05.R9", "E2", "back() does not touch the event after handing it to the pool's storage (one owner at a time)", 2, ruleNoUseAfterPublish)
	reg("C05", "C05.R10", "E2", "an event held by a joining action is always flushed: the action lets the processor leave only with its joining flag false (same rule as C15.R7)", 1, ruleBusyOnlyWhileJoining)
	reg("C05", "C05.R6", "E1+E2", "every Event literal outside the pool is re-kinded (child/timeout/unlock) on all paths", 3, ruleForeignEvents)
}

type poolRoles struct {
	get, back *types.Func
	iface     *types.Named
}

func (c *Ctx) pool() *poolRoles {
	n := c.Named("pipeline", "pool")
	if n == nil {
		return nil
	}
	g := c.IfaceMethod("pipeline", "pool", "get")
	b := c.IfaceMethod("pipeline", "pool", "back")
	if g == nil || b == nil {
		return nil
	}
	return &poolRoles{g, b, n}
}

func (c *Ctx) inImpl() *ssa.Function {
	ro := c.roles()
	if ro.InputCtl == nil || ro.ctlIn == nil {
		return nil
	}
	for _, t := range c.Implementers(ro.InputCtl) {
		if f := c.MethodOf(t, "In"); f != nil && c.pkgOf(f) == "pipeline" {
			return f
		}
	}
	return nil
}

func rulePoolWhoMay(c *Ctx, r *Rule) {
	pr := c.pool()
	in := c.inImpl()
	fin, _, _ := c.notifyFn()
	if pr == nil || in == nil || fin == nil {
		r.Unresolved("pipeline.pool / In implementation / finalizer")
		return
	}
	isPoolType := func(fn *ssa.Function) bool {
		rn := recvNamed(fn)
		if rn == nil {
			// constructors / closures of pool types
			for f := fn; f != nil; f = f.Parent() {
				if rn2 := recvNamed(f); rn2 != nil && types.Implements(types.NewPointer(rn2), pr.iface.Underlying().(*types.Interface)) {
					return true
				}
			}
			return false
		}
		return types.Implements(types.NewPointer(rn), pr.iface.Underlying().(*types.Interface))
	}
	c.eachCall(func(fn *ssa.Function, ci ssa.CallInstruction) {
		isGet := invokesMethod(ci, pr.get) || c.callsImplOf(ci, pr.iface, pr.get)
		isBack := invokesMethod(ci, pr.back) || c.callsImplOf(ci, pr.iface, pr.back)
		if !isGet && !isBack {
			return
		}
		if isPoolType(fn) {
			return
		}
		r.Inst(1)
		name := c.fnName(fn)
		if isGet {
			r.Ob(fn == in, name+"|get", ci.Pos(), "events are taken from the pool only by the In implementation (a second taker would by-pass the admission accounting)")
			return
		}
		ok := fn == in || fn == fin || (c.reachesWithin(in, fn, 2) && c.pkgOf(fn) == "pipeline")
		r.Ob(ok, name+"|back", ci.Pos(), "events are returned to the pool only by In (error paths), its streaming helper and the finalizer")
	})
}

// consumes: on every returning path from `from` (nil = entry) in fn, value ev is either given
// back to the pool or enqueued into a stream, directly or through a callee that consumes it.
func (c *Ctx) consumeSink(ev0 ssa.Value, depth int) func(in ssa.Instruction) bool {
	pr := c.pool()
	// the event may live in a variable cell (captured by a function literal): its loads are the event too
	same := map[ssa.Value]bool{ev0: true}
	if refs := ev0.Referrers(); refs != nil {
		for _, rf := range *refs {
			if st, ok := rf.(*ssa.Store); ok && st.Val == ev0 {
				if al, isAl := st.Addr.(*ssa.Alloc); isAl && singleStore(al) == ev0 {
					if r2 := al.Referrers(); r2 != nil {
						for _, ld := range *r2 {
							if u, isU := ld.(*ssa.UnOp); isU && u.Op == token.MUL {
								same[u] = true
							}
						}
					}
				}
			}
		}
	}
	isEv := func(v ssa.Value) bool { return same[v] }
	ev := ev0
	_ = ev
	return func(in ssa.Instruction) bool {
		switch x := in.(type) {
		case *ssa.Store:
			// enqueue: stream.last = ev / stream.first = ev
			if isEv(x.Val) {
				if o, f, _, ok := fieldOf(x.Addr); ok && (isField(o, f, pipelinePkg, "stream", "last")) {
					return true
				}
			}
		case ssa.CallInstruction:
			if _, isGo := x.(*ssa.Go); isGo {
				return false
			}
			args := x.Common().Args
			if pr != nil && invokesMethod(x, pr.back) && len(args) == 1 && isEv(args[0]) {
				return true
			}
			if f := calleeFunc(x); f != nil && depth > 0 && c.inModule(f) && f.Blocks != nil {
				for i, a := range args {
					if isEv(a) && i < len(f.Params) {
						if ok, _ := c.mustPassBeforeReturn(f, nil, c.consumeSink(f.Params[i], depth-1)); ok {
							return true
						}
					}
				}
			}
		}
		return false
	}
}

func ruleGetStreamOrBack(c *Ctx, r *Rule) {
	pr := c.pool()
	in := c.inImpl()
	if pr == nil || in == nil {
		r.Unresolved("pipeline.pool / In implementation")
		return
	}
	for _, ci := range callsIn(in) {
		if !invokesMethod(ci, pr.get) {
			continue
		}
		r.Inst(1)
		ev := ci.Value()
		ok, w := c.mustPassBeforeReturn(in, ci, c.consumeSink(ev, 3))
		msg := "after pool.get every returning path of In hands the event to a stream or back to the pool"
		if !ok {
			msg = "a path from pool.get reaches the return at " + c.pos(w.Pos()) + " without streaming the event or returning it to the pool: the event leaks and capacity shrinks for ever"
		}
		r.Ob(ok, c.fnName(in)+"|get->stream|back", ci.Pos(), msg)
		// no double consumption: after anything that consumes ev (pool.back, or a callee that streams or
		// gives it back on every path) nothing else consumes ev on the same path
		sink := c.consumeSink(ev, 3)
		n := 0
		for _, b := range in.Blocks {
			for _, cj := range b.Instrs {
				if !sink(cj) {
					continue
				}
				n++
				again, w2 := c.pathExists(in, cj, sink, nil)
				msg2 := "after the event was consumed (streamed or given back, directly or by a callee) it is not consumed again on that path"
				if again {
					msg2 = "after the event was consumed here it is consumed again at " + c.pos(w2.Pos()) + " (returned twice / streamed after return): the in-use count drops below the truth and one object is handed out twice"
				}
				r.Ob(!again, fmt.Sprintf("%s|consumed-once#%d", c.fnName(in), n), cj.Pos(), msg2)
			}
		}
	}
	// streaming helper: same for its own parameter after a back
	for _, f := range c.ModFuncs {
		if f == in || c.pkgOf(f) != "pipeline" || !c.reachesWithin(in, f, 2) {
			continue
		}
		for _, cj := range callsIn(f) {
			if invokesMethod(cj, pr.back) && len(cj.Common().Args) == 1 {
				ev := cj.Common().Args[0]
				again, w2 := c.pathExists(f, cj, c.consumeSink(ev, 2), nil)
				msg2 := "after pool.back(event) the event is not used again on that path"
				if again {
					msg2 = "after pool.back(event) the event is consumed again at " + c.pos(w2.Pos())
				}
				r.Ob(!again, c.fnName(f)+"|no-use-after-back", cj.Pos(), msg2)
			}
		}
	}
}

// atomicOpOn: ci is a call of method `name` on &recv.<field> (go.uber.org/atomic or sync/atomic value types).
func atomicOpOn(ci ssa.CallInstruction, name, typ, field string) bool {
	f := calleeFunc(ci)
	if f == nil || f.Name() != name || len(ci.Common().Args) == 0 {
		return false
	}
	a := ci.Common().Args[0]
	if o, fl, _, ok := fieldOf(a); ok && isField(o, fl, pipelinePkg, typ, field) {
		return true
	}
	return isLoadOfField(a, pipelinePkg, typ, field)
}

func ruleLowMemAdmission(c *Ctx, r *Rule) {
	get := c.Method("pipeline", "lowMemoryEventPool", "get")
	back := c.Method("pipeline", "lowMemoryEventPool", "back")
	if get == nil || back == nil {
		r.Unresolved("lowMemoryEventPool.get/back")
		return
	}
	r.Inst(1)
	name := c.fnName(get)
	var incs, decs []ssa.CallInstruction
	for _, ci := range callsIn(get) {
		if atomicOpOn(ci, "Inc", "lowMemoryEventPool", "inUseEvents") || atomicOpOn(ci, "Add", "lowMemoryEventPool", "inUseEvents") {
			incs = append(incs, ci)
		}
		if atomicOpOn(ci, "Dec", "lowMemoryEventPool", "inUseEvents") || atomicOpOn(ci, "Sub", "lowMemoryEventPool", "inUseEvents") {
			decs = append(decs, ci)
		}
	}
	if len(incs) != 1 || len(decs) != 1 {
		r.Ob(false, name+"|shape", get.Pos(), fmt.Sprintf("%d Inc and %d Dec on inUseEvents in get (expected 1 and 1)", len(incs), len(decs)))
		return
	}
	inc, dec := incs[0], decs[0]
	isInc := func(in ssa.Instruction) bool { return in == ssa.Instruction(inc) }
	isDec := func(in ssa.Instruction) bool { return in == ssa.Instruction(dec) }
	// every return is control-dependent on  Inc() <= capacity  (compared value = the result of the increment)
	n := 0
	for _, b := range get.Blocks {
		ret, ok := asReturn(b)
		if !ok {
			continue
		}
		n++
		adm := false
		for _, l := range c.unitGuards(ret) {
			op, x, y, ok := cmpLit(l)
			if !ok {
				continue
			}
			if op == token.LEQ && stripConv(x) == inc.Value() && isLoadOfField(stripConv(y), pipelinePkg, "lowMemoryEventPool", "capacity") {
				adm = true
			}
			if op == token.GEQ && stripConv(y) == inc.Value() && isLoadOfField(stripConv(x), pipelinePkg, "lowMemoryEventPool", "capacity") {
				adm = true
			}
		}
		r.Ob(adm, fmt.Sprintf("%s|admission#%d", name, n), ret.Pos(), "an event is handed out only when the incremented in-use count is <= capacity; guards: "+c.clausesString(c.guards(get)[b]))
	}
	// effect balance: from Inc, the next Inc is reachable only through Dec (net 0 per retry) ...
	leak, _ := c.pathExists(get, inc, isInc, isDec)
	r.Ob(!leak, name+"|retry-net-zero", inc.Pos(), "a failed admission undoes its increment before trying again (retry path net 0)")
	// ... and no return after Dec without a fresh Inc (returning path net +1)
	under, _ := c.pathExists(get, dec, isReturn, isInc)
	r.Ob(!under, name+"|return-net-plus-one", dec.Pos(), "no return after the undo without a new increment (returning path net +1)")
	// the Dec precedes the wait
	var waits []ssa.CallInstruction
	for _, ci := range callsIn(get) {
		if f := calleeFunc(ci); f != nil && qualName(f) == "(*sync.Cond).Wait" {
			waits = append(waits, ci)
		}
	}
	for _, w := range waits {
		r.Ob(instrDominates(dec, w), name+"|dec-before-wait", w.Pos(), "the reader releases its claim on the counter before it blocks")
	}
	// back: exactly one Dec on every path, no Inc
	bname := c.fnName(back)
	nDec, nInc := 0, 0
	var bdec ssa.CallInstruction
	for _, ci := range callsIn(back) {
		if atomicOpOn(ci, "Dec", "lowMemoryEventPool", "inUseEvents") {
			nDec++
			bdec = ci
		}
		if atomicOpOn(ci, "Inc", "lowMemoryEventPool", "inUseEvents") || atomicOpOn(ci, "Add", "lowMemoryEventPool", "inUseEvents") || atomicOpOn(ci, "Store", "lowMemoryEventPool", "inUseEvents") {
			nInc++
		}
	}
	okB := nDec == 1 && nInc == 0
	if okB {
		miss, _ := c.pathExists(back, nil, isReturn, func(in ssa.Instruction) bool { return in == ssa.Instruction(bdec) })
		cyc, _ := c.pathExists(back, bdec, func(in ssa.Instruction) bool { return in == ssa.Instruction(bdec) }, nil)
		okB = !miss && !cyc
	}
	r.Ob(okB, bname+"|net-minus-one", back.Pos(), fmt.Sprintf("back decrements the in-use count exactly once on every path (Dec sites=%d, other writes=%d)", nDec, nInc))
	// all other writers of the counter
	c.counterWriters(r, "lowMemoryEventPool", "inUseEvents", get, back)
}

// counterWriters: no function other than the allowed ones mutates the atomic counter field.
func (c *Ctx) counterWriters(r *Rule, typ, field string, allowed ...*ssa.Function) {
	c.eachCall(func(fn *ssa.Function, ci ssa.CallInstruction) {
		for _, m := range []string{"Inc", "Dec", "Add", "Sub", "Store", "Swap", "CAS", "CompareAndSwap"} {
			if atomicOpOn(ci, m, typ, field) {
				ok := false
				for _, a := range allowed {
					if a == fn {
						ok = true
					}
				}
				if !ok {
					r.Ob(false, c.fnName(fn)+"|counter-writer|"+typ+"."+field, ci.Pos(), typ+"."+field+" is modified outside get/back")
				}
			}
		}
	})
}

func ruleStdPoolBalance(c *Ctx, r *Rule) {
	get := c.Method("pipeline", "eventPool", "get")
	back := c.Method("pipeline", "eventPool", "back")
	if get == nil || back == nil {
		r.Unresolved("eventPool.get/back")
		return
	}
	r.Inst(1)
	check := func(fn *ssa.Function, op, counter string) {
		name := c.fnName(fn)
		var ops []ssa.CallInstruction
		other := 0
		for _, ci := range callsIn(fn) {
			if atomicOpOn(ci, op, "eventPool", "inUseEvents") {
				ops = append(ops, ci)
			} else {
				for _, m := range []string{"Inc", "Dec", "Add", "Sub", "Store"} {
					if atomicOpOn(ci, m, "eventPool", "inUseEvents") {
						other++
					}
				}
			}
		}
		ok := len(ops) == 1 && other == 0
		if ok {
			miss, _ := c.pathExists(fn, nil, isReturn, func(in ssa.Instruction) bool { return in == ssa.Instruction(ops[0]) })
			cyc, _ := c.pathExists(fn, ops[0], func(in ssa.Instruction) bool { return in == ssa.Instruction(ops[0]) }, nil)
			ok = !miss && !cyc
		}
		r.Ob(ok, name+"|one-"+op, fn.Pos(), fmt.Sprintf("%s changes inUseEvents by exactly one %s on every returning path, outside any loop (sites=%d, other writes=%d)", fn.Name(), op, len(ops), other))
		// slot index = (counter.Inc()-1) % capacity, and every slot access in the function uses it
		var slot ssa.Value
		for _, b := range fn.Blocks {
			for _, in := range b.Instrs {
				if bo, ok := in.(*ssa.BinOp); ok && bo.Op == token.REM && isLoadOfField(stripConv(bo.Y), pipelinePkg, "eventPool", "capacity") {
					if sub, ok := bo.X.(*ssa.BinOp); ok && sub.Op == token.SUB {
						if k, ok := constInt(sub.Y); ok && k == 1 {
							if call, ok := sub.X.(*ssa.Call); ok && atomicOpOn(call, "Inc", "eventPool", counter) {
								slot = bo
							}
						}
					}
				}
			}
		}
		r.Ob(slot != nil, name+"|slot-formula", fn.Pos(), "slot index is ("+counter+".Inc()-1) % capacity")
		if slot == nil {
			return
		}
		bad := 0
		for _, b := range fn.Blocks {
			for _, in := range b.Instrs {
				if ia, ok := in.(*ssa.IndexAddr); ok {
					if o, f, _, ok := loadedField(ia.X); ok && inPkg(o, pipelinePkg) && o.Obj().Name() == "eventPool" && (f == "events" || f == "free1" || f == "free2") {
						if stripConv(ia.Index) != slot {
							bad++
						}
					}
				}
			}
		}
		r.Ob(bad == 0, name+"|slot-use", fn.Pos(), fmt.Sprintf("every access to events/free1/free2 uses that slot index (%d other indexes)", bad))
	}
	check(get, "Inc", "getCounter")
	check(back, "Dec", "backCounter")
	c.counterWriters(r, "eventPool", "inUseEvents", get, back)
	// the event handed out is the slot's event, and back stores the returned event into the slot
	okOut := false
	for _, b := range get.Blocks {
		if ret, ok := asReturn(b); ok && len(ret.Results) == 1 {
			if u, ok := ret.Results[0].(*ssa.UnOp); ok && u.Op == token.MUL {
				if ia, ok := u.X.(*ssa.IndexAddr); ok && isLoadOfField(ia.X, pipelinePkg, "eventPool", "events") {
					okOut = true
				}
			}
		}
	}
	r.Ob(okOut, c.fnName(get)+"|returns-slot-event", get.Pos(), "get returns the event stored in the claimed slot")
}

func ruleFinalizerBack(c *Ctx, r *Rule) {
	pr := c.pool()
	fin, _, _ := c.notifyFn()
	if pr == nil || fin == nil {
		r.Unresolved("pool / finalizer")
		return
	}
	name := c.fnName(fin)
	var backs []ssa.CallInstruction
	for _, ci := range callsIn(fin) {
		if invokesMethod(ci, pr.back) {
			backs = append(backs, ci)
		}
	}
	r.Inst(len(backs))
	r.Ob(len(backs) == 1, name+"|single-back", fin.Pos(), fmt.Sprintf("%d pool.back sites in the finalizer (expected 1)", len(backs)))
	for _, b := range backs {
		var needBack, notTimeout, notChild bool
		for _, l := range c.unitGuards(b) {
			if p, ok := l.v.(*ssa.Parameter); ok && l.pol && paramIndex(fin, p) >= 0 && strings.Contains(strings.ToLower(p.Name()), "back") {
				needBack = true
			} else if p, ok := l.v.(*ssa.Parameter); ok && l.pol && paramIndex(fin, p) >= 2 {
				needBack = true
			}
			if call, ok := l.v.(*ssa.Call); ok && !l.pol {
				if f := call.Call.StaticCallee(); f != nil {
					switch f.Name() {
					case "IsTimeoutKind":
						notTimeout = true
					case "IsChildKind":
						notChild = true
					}
				}
			}
		}
		r.Ob(needBack, name+"|back-under-backEvent", b.Pos(), "pool.back is control-dependent on the backEvent parameter (a held event is not returned)")
		r.Ob(notTimeout && notChild, name+"|back-not-foreign", b.Pos(), "pool.back is control-dependent on !IsTimeoutKind && !IsChildKind (foreign events never enter the pool)")
		cyc, _ := c.pathExists(fin, b, func(in ssa.Instruction) bool { return in == ssa.Instruction(b) }, nil)
		r.Ob(!cyc, name+"|back-once", b.Pos(), "pool.back is not inside a loop")
		args := b.Common().Args
		p, isP := args[0].(*ssa.Parameter)
		r.Ob(isP && paramIndex(fin, p) >= 0, name+"|back-own-event", b.Pos(), "the finalizer returns its own event parameter")
	}
}

func ruleForeignEvents(c *Ctx, r *Rule) {
	pr := c.pool()
	if pr == nil {
		r.Unresolved("pool")
		return
	}
	ev := c.Named("pipeline", "Event")
	var ctor *ssa.Function
	for _, fn := range c.ModFuncs {
		for _, b := range fn.Blocks {
			for _, in := range b.Instrs {
				al, ok := in.(*ssa.Alloc)
				if !ok || !types.Identical(deref(al.Type()), ev) {
					continue
				}
				name := c.fnName(fn)
				setKind := func(in2 ssa.Instruction) bool {
					ci, ok := in2.(ssa.CallInstruction)
					if !ok {
						return false
					}
					f := calleeFunc(ci)
					if f == nil || len(ci.Common().Args) == 0 || ci.Common().Args[0] != ssa.Value(al) {
						return false
					}
					switch f.Name() {
					case "SetChildKind", "SetTimeoutKind", "SetUnlockKind":
						return recvNamed(f) == ev
					}
					return false
				}
				ok2, w := c.mustPassBeforeReturn(fn, al, setKind)
				if ok2 {
					r.Inst(1)
					r.Ob(true, name+"|rekinded", al.Pos(), "Event literal is marked child/timeout/unlock on all paths")
					continue
				}
				// the pool's own constructor: a function returning the fresh event, called only from pool types
				if ctor == nil && fn.Signature.Results().Len() == 1 && fn.Signature.Recv() == nil {
					callersOK := len(c.sitesOf(fn)) > 0
					poolish := func(pf *ssa.Function) bool {
						for f := pf; f != nil; f = f.Parent() {
							if rn := recvNamed(f); rn != nil && types.Implements(types.NewPointer(rn), pr.iface.Underlying().(*types.Interface)) {
								return true
							}
							if f.Signature.Recv() == nil && f.Signature.Results().Len() == 1 {
								if rn := namedOf(f.Signature.Results().At(0).Type()); rn != nil && types.Implements(types.NewPointer(rn), pr.iface.Underlying().(*types.Interface)) {
									return true
								}
							}
						}
						return false
					}
					for _, cs := range c.sitesOf(fn) {
						pf := cs.Parent()
						okc := poolish(pf)
						if !okc && len(c.sitesOf(pf)) == 0 {
							// a named function that only wraps the constructor and is used as a value (sync.Pool.New)
							// inside pool code
							uses := c.funcValueUses(pf)
							okc = len(uses) > 0
							for _, u := range uses {
								if !poolish(u.Parent()) {
									okc = false
								}
							}
						}
						if !okc {
							callersOK = false
						}
					}
					if callersOK {
						ctor = fn
						r.Inst(1)
						r.Ob(true, name+"|pool-constructor", al.Pos(), "regular events are created only by the pools (all callers are pool constructors)")
						continue
					}
				}
				r.Ob(false, name+"|foreign-event", al.Pos(), "an Event literal outside the pool reaches a return at "+c.pos(w.Pos())+" without being marked child/timeout/unlock: the finalizer would return it to the pool (count drops below zero / foreign object enters the pool)")
			}
		}
	}
}

// ruleRecycledEventIsRegular: events are recycled through the pools; an object that was a split
// parent (or any other special kind) in its previous life must be a regular event again when it is
// handed out — the batcher never sends parents, the commit path treats kinds differently. Per pool
// implementation: every path through back(), or every path through get(), resets Event.kind to the
// regular constant (directly or through a helper that does so on all its paths).
func ruleRecycledEventIsRegular(c *Ctx, r *Rule) {
	pr := c.pool()
	if pr == nil {
		r.Unresolved("pipeline.pool")
		return
	}
	// the regular kind: the constant stored by the function that also clears Event.next / Event.stream (the reset)
	isKindReset := func(in ssa.Instruction) bool {
		st, ok := in.(*ssa.Store)
		if !ok {
			return false
		}
		o, f, _, okf := fieldOf(st.Addr)
		if !okf || !isField(o, f, pipelinePkg, "Event", "kind") {
			return false
		}
		k, isK := constInt(st.Val)
		return isK && k == 0
	}
	memo := map[*ssa.Function]int{}
	var resetsOnAllPaths func(fn *ssa.Function, d int) bool
	resetsOnAllPaths = func(fn *ssa.Function, d int) bool {
		if fn == nil || fn.Blocks == nil || d > 3 {
			return false
		}
		switch memo[fn] {
		case 1:
			return true
		case 2, 3:
			return false
		}
		memo[fn] = 3
		pass := func(in ssa.Instruction) bool {
			if isKindReset(in) {
				return true
			}
			if ci, ok := in.(ssa.CallInstruction); ok {
				if _, isGo := ci.(*ssa.Go); isGo {
					return false
				}
				if _, isDefer := ci.(*ssa.Defer); isDefer {
					return false
				}
				if g := ci.Common().StaticCallee(); g != nil && c.inModule(g) && c.pkgOf(g) == "pipeline" {
					return resetsOnAllPaths(g, d+1)
				}
			}
			return false
		}
		miss, _ := c.pathExists(fn, nil, isReturn, pass)
		if miss {
			memo[fn] = 2
			return false
		}
		memo[fn] = 1
		return true
	}
	n := 0
	for _, t := range c.Implementers(pr.iface) {
		get, back := c.MethodOf(t, "get"), c.MethodOf(t, "back")
		if get == nil || back == nil {
			continue
		}
		n++
		r.Inst(1)
		typ := namedOf(t).Obj().Name()
		ok := resetsOnAllPaths(back, 0) || resetsOnAllPaths(get, 0)
		r.Ob(ok, typ+"|recycled-event-is-regular", back.Pos(), "every event that goes through "+typ+" has its kind reset to regular on all paths of back() or of get() (a recycled split parent that keeps its kind is skipped by the batcher's send and still committed)")
	}
	r.Ob(n >= 2, "pool|implementations", token.NoPos, fmt.Sprintf("%d pool implementations examined", n))
}

// ruleNoUseAfterPublish: back() gives the event object away — it puts it into the pool's slot table or
// into a sync.Pool — and from that instruction on another reader may own it. Nothing in back() touches
// the event after that point ("no event object is ever owned by two holders at once").
func ruleNoUseAfterPublish(c *Ctx, r *Rule) {
	pr := c.pool()
	if pr == nil {
		r.Unresolved("pipeline.pool")
		return
	}
	n := 0
	for _, t := range c.Implementers(pr.iface) {
		back := c.MethodOf(t, "back")
		if back == nil || len(back.Params) < 2 {
			continue
		}
		typ := namedOf(t).Obj().Name()
		ev := ssa.Value(back.Params[1])
		isEv := func(v ssa.Value) bool { return v != nil && stripConv(v) == ev }
		var publish []ssa.Instruction
		for _, b := range back.Blocks {
			for _, in := range b.Instrs {
				switch x := in.(type) {
				case *ssa.Store:
					if isEv(x.Val) {
						publish = append(publish, in)
					}
				case ssa.CallInstruction:
					if f := calleeFunc(x); f != nil && qualName(f) == "(*sync.Pool).Put" {
						for _, a := range x.Common().Args {
							if isEv(a) {
								publish = append(publish, in)
							}
						}
					}
				}
			}
		}
		n++
		r.Inst(1)
		r.Ob(len(publish) >= 1, typ+"|publishes", back.Pos(), "back() hands the event object to the pool's storage")
		for i, p := range publish {
			uses := func(in ssa.Instruction) bool {
				if in == p {
					return false
				}
				for _, op := range in.Operands(nil) {
					if *op != nil && isEv(*op) {
						return true
					}
				}
				return false
			}
			used, at := c.pathExists(back, p, uses, nil)
			msg := "after the event object is handed to the pool's storage, back() does not touch it any more"
			if used {
				msg = "back() still uses the event at " + c.pos(at.Pos()) + " after it was handed to the pool's storage: a reader that takes it in between owns an object somebody else is modifying"
			}
			r.Ob(!used, fmt.Sprintf("%s|no-use-after-publish#%d", typ, i), p.Pos(), msg)
		}
	}
	r.Ob(n >= 2, "pool|back-implementations", token.NoPos, fmt.Sprintf("%d pool implementations examined", n))
}
