package main

// Normal form. The rules were written against the functions that exist in the tree they were
// validated on (baseline_funcs.json lists them). A later "extract method" refactoring moves part of an
// anchored function into a new helper, which intra-procedural rules would misread as a missing
// step. Before the analysis, every call to a module function that the baseline does not know is
// therefore inlined into its caller (same package only), with the inliner of golang.org/x/tools
// (vendored copy under xt/), and helpers that became unused are deleted. Inlining preserves
// behaviour, so a verdict on the normal form is a verdict on the tree; whatever cannot be inlined is
// left as it is (and analysed as it is).

import (
	"encoding/json"
	"fmt"
	"go/ast"
	"go/token"
	"go/types"
	"os"
	"path/filepath"
	"runtime"
	"sort"
	"strings"

	"fdverif/checker/xt/inline"

	"golang.org/x/tools/go/packages"
)

func baselinePath() string { return filepath.Join(verifDir(), "baseline_funcs.json") }

func loadBaseline() map[string]bool {
	b, err := os.ReadFile(baselinePath())
	if err != nil {
		return nil
	}
	var l []string
	if json.Unmarshal(b, &l) != nil {
		return nil
	}
	m := map[string]bool{}
	for _, s := range l {
		m[s] = true
	}
	return m
}

func moduleFuncNames(pkgs []*packages.Package) []string {
	var out []string
	packages.Visit(pkgs, nil, func(p *packages.Package) {
		if p.PkgPath != modulePath && !strings.HasPrefix(p.PkgPath, modulePath+"/") {
			return
		}
		for _, f := range p.Syntax {
			for _, d := range f.Decls {
				if fd, ok := d.(*ast.FuncDecl); ok {
					if fn, ok := p.TypesInfo.Defs[fd.Name].(*types.Func); ok {
						out = append(out, fn.FullName())
					}
				}
			}
		}
	})
	sort.Strings(out)
	return out
}

func writeBaseline(repo, tags string) error {
	pkgs, err := loadPkgs(repo, nil, tags)
	if err != nil {
		return err
	}
	names := moduleFuncNames(pkgs)
	b, _ := json.MarshalIndent(names, "", " ")
	return os.WriteFile(baselinePath(), b, 0o644)
}

func loadPkgs(repo string, overlay map[string][]byte, tags string) ([]*packages.Package, error) {
	return loadPkgsMode(repo, overlay, tags, packages.LoadAllSyntax)
}

// loadPkgsMode: LoadSyntax (module packages from source, dependencies from export data) is enough for
// the inlining steps and much cheaper than the full load the analysis needs.
func loadPkgsMode(repo string, overlay map[string][]byte, tags string, mode packages.LoadMode) ([]*packages.Package, error) {
	cfg := &packages.Config{Mode: mode, Dir: repo, Tests: false, Overlay: overlay}
	cfg.Env = append(os.Environ(), "GOWORK=off")
	if tags != "" {
		cfg.BuildFlags = []string{"-tags=" + tags}
	}
	pkgs, err := packages.Load(cfg, "./...")
	if err != nil {
		return nil, fmt.Errorf("packages.Load: %w", err)
	}
	var errs []string
	packages.Visit(pkgs, nil, func(p *packages.Package) {
		for _, e := range p.Errors {
			errs = append(errs, fmt.Sprintf("%s: %v", p.PkgPath, e))
		}
	})
	if len(errs) > 0 {
		sort.Strings(errs)
		if len(errs) > 10 {
			errs = errs[:10]
		}
		return nil, fmt.Errorf("type-check / load errors (the tree does not build):\n  %s", strings.Join(errs, "\n  "))
	}
	return pkgs, nil
}

// normalize returns the packages to analyse: pkgs itself when the tree has no function unknown to the
// baseline, otherwise the packages reloaded with an overlay in which calls to the unknown functions
// are inlined. notes describe what was done.
func normalize(repo string, overlay map[string][]byte, tags string, pkgs []*packages.Package) (map[string][]byte, []string, bool) {
	base := loadBaseline()
	if base == nil || os.Getenv("FDCHECK_NO_NORMALIZE") != "" {
		return overlay, nil, false
	}
	var notes []string
	ov := map[string][]byte{}
	for k, v := range overlay {
		ov[k] = v
	}
	failed := map[string]bool{}
	prevOv := copyOverlay(ov)
	didAny := false
	for iter := 0; iter < 10; iter++ {
		isNew := func(fn *types.Func) bool {
			if fn == nil || fn.Pkg() == nil {
				return false
			}
			pp := fn.Pkg().Path()
			if pp != modulePath && !strings.HasPrefix(pp, modulePath+"/") {
				return false
			}
			return !base[fn.Origin().FullName()]
		}
		// declarations of the new functions
		decl := map[*types.Func]*ast.FuncDecl{}
		declPkg := map[*types.Func]*packages.Package{}
		declFile := map[*types.Func]*ast.File{}
		var modPkgs []*packages.Package
		packages.Visit(pkgs, nil, func(p *packages.Package) {
			if p.PkgPath != modulePath && !strings.HasPrefix(p.PkgPath, modulePath+"/") {
				return
			}
			modPkgs = append(modPkgs, p)
			for _, f := range p.Syntax {
				for _, d := range f.Decls {
					if fd, ok := d.(*ast.FuncDecl); ok && fd.Body != nil {
						if fn, ok := p.TypesInfo.Defs[fd.Name].(*types.Func); ok && isNew(fn) {
							decl[fn], declPkg[fn], declFile[fn] = fd, p, f
						}
					}
				}
			}
		})
		if len(decl) == 0 {
			break
		}
		sort.Slice(modPkgs, func(i, j int) bool { return modPkgs[i].PkgPath < modPkgs[j].PkgPath })
		// one inlining per file per iteration
		changed := false
		uses := map[*types.Func]int{}
		for _, p := range modPkgs {
			for _, obj := range p.TypesInfo.Uses {
				if fn, ok := obj.(*types.Func); ok && decl[fn.Origin()] != nil {
					uses[fn.Origin()]++
				}
			}
		}
		for _, p := range modPkgs {
			for _, f := range p.Syntax {
				fname := p.Fset.Position(f.Pos()).Filename
				done := false
				ast.Inspect(f, func(n ast.Node) bool {
					call, ok := n.(*ast.CallExpr)
					if !ok {
						return true
					}
					var id *ast.Ident
					switch fun := ast.Unparen(call.Fun).(type) {
					case *ast.Ident:
						id = fun
					case *ast.SelectorExpr:
						id = fun.Sel
					}
					if id == nil {
						return true
					}
					fn, _ := p.TypesInfo.Uses[id].(*types.Func)
					if fn == nil || decl[fn.Origin()] == nil {
						return true
					}
					fn = fn.Origin()
					key := fmt.Sprintf("%s@%s", fn.FullName(), p.Fset.Position(call.Pos()))
					if done || failed[key] || declPkg[fn] != p {
						return true
					}
					// not inside the callee itself (recursion)
					if call.Pos() >= decl[fn].Pos() && call.End() <= decl[fn].End() {
						return true
					}
					content := ov[fname]
					if content == nil {
						b, err := os.ReadFile(fname)
						if err != nil {
							failed[key] = true
							return true
						}
						content = b
					}
					cfile := p.Fset.Position(declFile[fn].Pos()).Filename
					ccontent := ov[cfile]
					if ccontent == nil {
						ccontent, _ = os.ReadFile(cfile)
					}
					callee, err := inline.AnalyzeCallee(func(string, ...any) {}, p.Fset, p.Types, p.TypesInfo, decl[fn], ccontent)
					if err != nil {
						failed[key] = true
						notes = append(notes, fmt.Sprintf("normal form: cannot analyse new helper %s: %v", fn.FullName(), err))
						return true
					}
					res, err := inline.Inline(&inline.Caller{Fset: p.Fset, Types: p.Types, Info: p.TypesInfo, File: f, Call: call, Content: content}, callee, &inline.Options{})
					if err != nil {
						failed[key] = true
						notes = append(notes, fmt.Sprintf("normal form: call of new helper %s at %s left as it is: %v", fn.FullName(), relPos(repo, p.Fset.Position(call.Pos())), err))
						return true
					}
					ov[fname] = res.Content
					done, changed = true, true
					notes = append(notes, fmt.Sprintf("normal form: inlined the call of %s (not in the baseline) at %s", fn.FullName(), relPos(repo, p.Fset.Position(call.Pos()))))
					return false
				})
			}
		}
		if !changed {
			// delete new, unexported helpers that are no longer used anywhere
			removed := false
			type span struct{ from, to int }
			byFile := map[string][]span{}
			for fn, fd := range decl {
				if uses[fn] != 0 || fn.Exported() {
					continue
				}
				p := declPkg[fn]
				start := fd.Pos()
				if fd.Doc != nil {
					start = fd.Doc.Pos()
				}
				fname := p.Fset.Position(start).Filename
				byFile[fname] = append(byFile[fname], span{p.Fset.Position(start).Offset, p.Fset.Position(fd.End()).Offset})
				notes = append(notes, "normal form: removed the now unused helper "+fn.FullName())
			}
			for fname, spans := range byFile {
				content := ov[fname]
				if content == nil {
					content, _ = os.ReadFile(fname)
				}
				sort.Slice(spans, func(i, j int) bool { return spans[i].from > spans[j].from })
				for _, s := range spans {
					if s.from >= 0 && s.to <= len(content) && s.from < s.to {
						content = append(append([]byte(nil), content[:s.from]...), content[s.to:]...)
						removed = true
					}
				}
				ov[fname] = content
			}
			if !removed {
				break
			}
		}
		pkgs = nil // let the previous package set go before the next load
		runtime.GC()
		np, err := loadPkgsMode(repo, ov, tags, packages.LoadSyntax)
		if err != nil {
			if !changed {
				// removing the helpers broke the build (an unexported method can still satisfy an interface):
				// keep them
				notes = append(notes, "normal form: unused helpers kept (removal does not type-check)")
				ov = prevOv
				break
			}
			// the normal form does not build: analyse the tree as it is
			notes = append(notes, "normal form abandoned (does not type-check after inlining): "+firstLine(err.Error()))
			return overlay, notes, false
		}
		didAny = true
		pkgs = nil
		runtime.GC()
		pkgs = np
		prevOv = copyOverlay(ov)
		if !changed {
			break
		}
	}
	return ov, notes, didAny
}

func relPos(repo string, p token.Position) string {
	f := p.Filename
	if rel, err := filepath.Rel(repo, f); err == nil && !strings.HasPrefix(rel, "..") {
		f = rel
	}
	return fmt.Sprintf("%s:%d", f, p.Line)
}

func copyOverlay(m map[string][]byte) map[string][]byte {
	out := map[string][]byte{}
	for k, v := range m {
		out[k] = v
	}
	return out
}
