package main

import (
	"fmt"
	"go/token"
	"strings"

	"golang.org/x/tools/go/ssa"
)

func init() {
	explain("C15", "Static necessary conditions of multi-line reassembly, decided exhaustively over the source: hold<->propagate typestate of every action that returns ActionHold (held event stored before the return, handed to Propagate by every path of the clearing function, co-written with its flag, never overwritten without a flush); the multi-line actions keep their state in the receiver only (no package-level variable is written on the event path), and plugin instances are per processor; while an action is busy the processor's only source of the next event is blockGet on the stream captured from the current event before the actions ran, and a busy action receives every event of that stream without being match-filtered; Propagate clears the holder's busy mark before re-entry; the k8s multi-line accumulators (buffer, size, cut-off flag) are reset together. "+
		"NOT decided: that the joined field is the in-order concatenation of the run, size-limit arithmetic.",
		"go/types, go/ssa and x/tools call resolution are correct")
	reg("C15", "C15.R1", "E2", "hold<->propagate typestate (same rule as C02.R5)", 1, ruleHoldPropagate)
	reg("C15", "C15.R2", "E1", "multi-line actions write no package-level state on the event path", 3, ruleReceiverLocalState)
	reg("C15", "C15.R3", "E2", "busy processor fetches the next event only from the current event's own stream (blockGet)", 1, ruleSameStreamFetch)
	reg("C15", "C15.R4", "E2", "a busy action is not match-filtered: it receives every event of its stream", 1, ruleBusyNotFiltered)
	reg("C15", "C15.R5", "E2", "k8s multi-line accumulators are reset together", 1, ruleAccumulatorsResetTogether)
	reg("C15", "C15.R6", "E2", "Propagate clears the holder's busy mark before re-entry (same rule as C02.R8)", 1, rulePropagateResetsBusy)
	reg("C15", "C15.R7", "E2", "an action stays busy (Hold/Collapse) only while its joining flag is true", 1, ruleBusyOnlyWhileJoining)
	reg("C15", "C15.R8", "E6", "the joined value left in the event does not alias the reusable join buffer (same rule as C13.A)", 1, ruleActionBufferViews)
	reg("C15", "C15.R9", "E2+E3", "a line put into the stream cannot be overwritten by the time-out event (same rule as C02.R7)", 1, ruleStreamPutFIFO)
	reg("C15", "C15.R10", "E2+E6", "an event continues an open run only by the verdict of the continue check on its own value (no constant verdict)", 1, ruleContinuationDecidedByCheck)
	reg("C15", "C15.R11", "E2+E6", "a stream waiting in the middle of a run stays visible to the time-out heartbeat: blocked-list positions stay exact (same rule as C04.R11)", 2, ruleBlockedIndex)
	reg("C15", "C15.R12", "E6", "the size limit of a joined event cuts a PREFIX of the run: whether a line is appended depends on the accumulated size only, not on that line's length", 1, ruleJoinLimitIsPrefix)
}

func ruleReceiverLocalState(c *Ctx, r *Rule) {
	ro := c.roles()
	if ro.ActionPlugin == nil {
		r.Unresolved("ActionPlugin")
		return
	}
	pkgs := map[string]bool{"plugin/action/join": true, "plugin/action/join_template": true, "plugin/input/k8s": true}
	for _, t := range c.Implementers(ro.ActionPlugin) {
		do := c.MethodOf(t, "Do")
		if do == nil || !pkgs[c.pkgOf(do)] {
			continue
		}
		r.Inst(1)
		name := c.fnName(do)
		bad := ""
		seen := map[*ssa.Function]bool{}
		var scan func(fn *ssa.Function, d int)
		scan = func(fn *ssa.Function, d int) {
			if fn == nil || seen[fn] || fn.Blocks == nil || d > 4 || !c.inModule(fn) {
				return
			}
			p := c.pkgOf(fn)
			if !pkgs[p] && !strings.HasPrefix(p, "plugin/action/join_template") {
				return
			}
			seen[fn] = true
			for _, b := range fn.Blocks {
				for _, in := range b.Instrs {
					switch x := in.(type) {
					case *ssa.Store:
						if g, ok := refOf(x.Addr).root.(*ssa.Global); ok {
							bad = c.fnName(fn) + " writes package-level " + g.Name()
						}
					case *ssa.MapUpdate:
						if g, ok := refOf(x.Map).root.(*ssa.Global); ok {
							bad = c.fnName(fn) + " updates package-level map " + g.Name()
						}
					case ssa.CallInstruction:
						scan(calleeFunc(x), d+1)
					}
				}
			}
		}
		scan(do, 0)
		msg := "the action keeps its run state in its own receiver (one instance per processor, one stream at a time): streams and sources cannot be mixed through shared state"
		if bad != "" {
			msg = "multi-line state is shared between processors: " + bad
		}
		r.Ob(bad == "", name+"|receiver-local", do.Pos(), msg)
	}
}

func ruleSameStreamFetch(c *Ctx, r *Rule) {
	bg := c.Method("pipeline", "stream", "blockGet")
	if bg == nil {
		r.Unresolved("stream.blockGet")
		return
	}
	ro := c.roles()
	sites := c.sitesOf(bg)
	r.Inst(len(sites))
	r.Ob(len(sites) == 1, "blockGet|single-site", bg.Pos(), fmt.Sprintf("%d call sites of stream.blockGet (expected 1: the processor's busy loop)", len(sites)))
	for _, cs := range sites {
		fn := cs.Parent()
		name := c.fnName(fn)
		recv := cs.Common().Args[0]
		// receiver = event.stream loaded from the event currently being processed ...
		o, f, base, ok := loadedField(recv)
		okStream := ok && isField(o, f, pipelinePkg, "Event", "stream")
		r.Ob(okStream, name+"|stream-of-current-event", cs.Pos(), "the stream waited on is the stream field of the event being processed: "+c.path(recv))
		if !okStream {
			continue
		}
		// ... and loaded before the actions ran on that event (they may finalize it and recycle it)
		var acts []ssa.CallInstruction
		for _, ci := range callsIn(fn) {
			if f := calleeFunc(ci); f != nil && ro.actDo != nil && c.reachesInvoke(f, ro.actDo, 2) {
				acts = append(acts, ci)
			}
		}
		r.Ob(len(acts) >= 1, name+"|runs-actions", fn.Pos(), "the loop runs the action chain")
		for _, a := range acts {
			ld, isIn := recv.(ssa.Instruction)
			okOrder := isIn && instrDominates(ld, a)
			// the event whose stream is read is the one handed to the actions
			okSame := len(a.Common().Args) >= 2 && a.Common().Args[1] == base
			r.Ob(okOrder && okSame, name+"|stream-captured-before-actions", a.Pos(), "event.stream is read before the actions run on that same event (afterwards the event may be back in the pool)")
		}
		// guarded by busyActionsTotal != 0
		g := false
		for _, l := range c.unitGuards(cs) {
			if op, x, y, ok := cmpLit(l); ok && op == token.NEQ && isLoadOfField(x, pipelinePkg, "processor", "busyActionsTotal") {
				if k, isK := constInt(y); isK && k == 0 {
					g = true
				}
			}
		}
		r.Ob(g, name+"|only-while-busy", cs.Pos(), "the processor waits on the same stream only while an action is busy")
		// the loop variable is fed only by the parameter and by blockGet
		for _, b := range fn.Blocks {
			for _, in := range b.Instrs {
				phi, ok := in.(*ssa.Phi)
				if !ok || !typeIs(phi.Type(), pipelinePkg, "Event") {
					continue
				}
				okSrc := true
				for _, e := range phi.Edges {
					if _, isP := e.(*ssa.Parameter); isP {
						continue
					}
					if e == cs.Value() || isNilConst(e) {
						continue
					}
					if _, isPhi := e.(*ssa.Phi); isPhi {
						continue
					}
					okSrc = false
				}
				r.Ob(okSrc, name+"|event-sources", phi.Pos(), "inside the busy loop the next event comes only from blockGet of that stream")
			}
		}
	}
	// instantGet (any stream) is used only by the non-busy path
	ig := c.Method("pipeline", "stream", "instantGet")
	if ig != nil {
		for _, cs := range c.sitesOf(ig) {
			r.Ob(cs.Parent() != sites[0].Parent(), c.fnName(cs.Parent())+"|instantGet-outside-busy-loop", cs.Pos(), "instantGet is not used inside the busy loop")
		}
	}
}

func ruleBusyNotFiltered(c *Ctx, r *Rule) {
	ro := c.roles()
	if ro.actDo == nil {
		r.Unresolved("ActionPlugin.Do")
		return
	}
	var do ssa.CallInstruction
	c.eachCall(func(fn *ssa.Function, ci ssa.CallInstruction) {
		if c.pkgOf(fn) == "pipeline" && invokesMethod(ci, ro.actDo) {
			do = ci
		}
	})
	if do == nil {
		r.Unresolved("action dispatch site")
		return
	}
	r.Inst(1)
	fn := do.Parent()
	name := c.fnName(fn)
	// every call that can make the loop skip the action (a match test) is under !busy ∧ !timeout
	n := 0
	for _, ci := range callsIn(fn) {
		f := calleeFunc(ci)
		if f == nil || f.Name() != "isMatch" {
			continue
		}
		n++
		var notBusy, notTimeout bool
		for _, l := range c.unitGuards(ci) {
			if !l.pol {
				if u, ok := l.v.(*ssa.UnOp); ok && u.Op == token.MUL {
					if ia, ok := u.X.(*ssa.IndexAddr); ok && isLoadOfField(ia.X, pipelinePkg, "processor", "busyActions") {
						notBusy = true
					}
				}
				if call, ok := l.v.(*ssa.Call); ok && call.Call.StaticCallee() != nil && call.Call.StaticCallee().Name() == "IsTimeoutKind" {
					notTimeout = true
				}
			}
		}
		r.Ob(notBusy && notTimeout, fmt.Sprintf("%s|match-only-when-idle#%d", name, n), ci.Pos(),
			"the selector is evaluated only for an action that is not busy (and not for time-out events): a busy multi-line action must see every event of its stream, matching or not, or the run is torn apart; guards: "+c.clausesString(c.guards(fn)[ci.Block()]))
	}
	r.Ob(n >= 1, name+"|has-match", fn.Pos(), "the dispatcher evaluates the action's selector")
	// Do is reached on every path that does not skip on a failed match
	skip, _ := c.pathExistsE(fn, nil, isReturn, func(in ssa.Instruction) bool { return in == ssa.Instruction(do) }, func(b *ssa.BasicBlock, i int) bool {
		// forbid the edge "match failed" and the loop-exit edge
		iff, ok := b.Instrs[len(b.Instrs)-1].(*ssa.If)
		if !ok {
			return true
		}
		v, pol := peelNot(iff.Cond, i == 0)
		if call, ok := v.(*ssa.Call); ok && call.Call.StaticCallee() != nil && call.Call.StaticCallee().Name() == "isMatch" && !pol {
			return false
		}
		if bo, ok := v.(*ssa.BinOp); ok && bo.Op == token.LSS && !pol {
			return false // index < len(actions) false: chain finished
		}
		return true
	})
	r.Ob(!skip, name+"|do-unless-unmatched", do.Pos(), "an action is skipped only when its selector does not match (or the chain is finished)")
}

func ruleAccumulatorsResetTogether(c *Ctx, r *Rule) {
	k8sPkg := modulePath + "/plugin/input/k8s"
	n := 0
	for _, a := range c.fieldAccesses(k8sPkg, "MultilineAction", "eventBuf") {
		if !a.write {
			continue
		}
		sl, ok := a.val.(*ssa.Slice)
		if !ok {
			continue
		}
		n++
		fn := a.fn
		name := c.fnName(fn)
		_ = sl
		isZeroStore := func(field string, want func(ssa.Value) bool) func(ssa.Instruction) bool {
			return func(in ssa.Instruction) bool {
				st, ok := in.(*ssa.Store)
				if !ok {
					return false
				}
				o, f, _, ok := fieldOf(st.Addr)
				return ok && isField(o, f, k8sPkg, "MultilineAction", field) && want(st.Val)
			}
		}
		isZero := func(v ssa.Value) bool { k, ok := constInt(v); return ok && k == 0 }
		isFalse := func(v ssa.Value) bool { k, ok := constBool(v); return ok && !k }
		okSize, _ := c.mustPassBeforeReturn(fn, a.in, isZeroStore("eventSize", isZero))
		okCut, _ := c.mustPassBeforeReturn(fn, a.in, isZeroStore("cutOffEvent", isFalse))
		r.Ob(okSize && okCut, fmt.Sprintf("%s|reset-together#%d", name, n), a.in.Pos(),
			"whenever the join buffer is emptied (re-sliced) the running size and the cut-off flag are reset on the same path: otherwise the split look-ahead of the NEXT line starts from a stale size and tears that line apart")
	}
	r.Inst(n)
}
