package main

import (
	"fmt"
	"go/token"
	"sort"

	"golang.org/x/tools/go/ssa"
)

const maskPkg = modulePath + "/plugin/action/mask"

func init() {
	explain("C17", "Thin static necessary conditions of 'mask hides every matched secret and touches nothing else', decided over the source of the mask action by def-use analysis (linear integer forms, φ webs) and CFG path rules: "+
		"(1) the rewritten value is tiled from the input: every byte appended to the output is either a slice of the input running from the end of the previous masked group to the start of the next one (and finally from the last group's end to the end of the input), or comes from the section masker; the section that is skipped is exactly the group (start = index[2g], end = index[2g+1] of the same match), it is handed to the section masker right after its gap, and all matches are searched (n = -1); "+
		"(2) the section masker lets no byte of the input through: the input is only measured (rune count), and what it appends is the substitution constant (at most rune-count, and at most max_count when set, times), the configured replace word, or nothing; "+
		"(3) the applied marks are exact: inside the per-value mask loop the mask-level applied field, the per-mask counter, the value update flag and the returned flag are set only on ways on which this iteration's rewrite reported a match (or the mask has no regexp part); the rewrite reports true only when there was a match; the node is rewritten only under the update flag; the flags returned up the traversal and the event-level mark/metric derive only from those results; "+
		"(4) the traversal reaches every string/number leaf: each element of an array or object is recursed into on every iteration, a field recurses into its value, and the leaf case calls the per-value function. "+
		"The gap slice's order (previous end <= next start) is NOT established by the code for descending or nested group lists: that is the known finding K5 (recorded under C13, reported here as well). "+
		"NOT decided: equality of the result with the reference rewrite for all regexps, process/ignore field-list semantics, match rules, metrics label values.",
		"go/types, go/ssa and x/tools call resolution are correct",
		"regexp.FindAllSubmatchIndex returns, per match, index pairs [2g, 2g+1] = start/end of group g or -1")
	reg("C17", "C17.R1", "E6", "the rewritten value is tiled from input gaps and masked sections of exactly the matched groups", 5, ruleMaskTiling)
	reg("C17", "C17.R2", "E6", "the section masker lets no input byte through", 3, ruleMaskSectionOpaque)
	reg("C17", "C17.R3", "E2", "applied marks, counters and the value update only after a reported match; flags derive only from those results", 6, ruleMaskMarksExact)
	reg("C17", "C17.R5", "E7", "match-rule gate: a value is rejected by length only when shorter than the shortest configured value", 2, ruleMatchRuleLengthGate)
	reg("C17", "C17.R6", "E2", "match rules gating a mask: event data is lower-cased whenever the rule is case-insensitive", 2, ruleMatchRuleCaseFold)
	reg("C17", "C17.R4", "E2", "the traversal recurses into every element and reaches every string/number leaf", 4, ruleMaskTraversalCovers)
	reg("C17", "C17.R7", "E2+E6", "process/ignore field lists: the list node handed to a child is chosen for that child, never left over from a sibling", 3, ruleMaskFieldListPerChild)
	reg("C17", "C17.R8", "E1", "the process/ignore field tree only grows while it is built: no entry of one list is removed for another", 1, ruleFieldTreeOnlyGrows)
}

type maskShape struct {
	maskValue   *ssa.Function
	find        *ssa.Call
	value       *ssa.Parameter
	section     *ssa.Function
	sectionCall []*ssa.Call
	process     *ssa.Function // calls maskValue
	processCall *ssa.Call
	traverse    *ssa.Function // calls process
	do          *ssa.Function
	problem     string
}

func (c *Ctx) maskShape() *maskShape {
	if c.maskSh != nil {
		return c.maskSh
	}
	s := &maskShape{}
	c.maskSh = s
	for _, fn := range c.ModFuncs {
		if c.pkgOf(fn) != "plugin/action/mask" {
			continue
		}
		for _, ci := range callsIn(fn) {
			call, ok := ci.(*ssa.Call)
			if !ok {
				continue
			}
			if f := call.Call.StaticCallee(); f != nil && qualName(f) == "(*regexp.Regexp).FindAllSubmatchIndex" {
				if s.find != nil {
					s.problem = "more than one FindAllSubmatchIndex site in package mask"
				}
				s.find, s.maskValue = call, fn
			}
		}
	}
	if s.find == nil {
		s.problem = "no FindAllSubmatchIndex call in package mask"
		return s
	}
	p, ok := s.find.Call.Args[1].(*ssa.Parameter)
	if !ok {
		s.problem = "the searched value is not a parameter of the rewriting function"
		return s
	}
	s.value = p
	for _, ci := range callsIn(s.maskValue) {
		call, ok := ci.(*ssa.Call)
		if !ok || call == s.find {
			continue
		}
		for _, a := range call.Call.Args {
			if a == ssa.Value(s.value) {
				if f := call.Call.StaticCallee(); f != nil && c.inModule(f) {
					if s.section != nil && s.section != f {
						s.problem = "the input is handed to more than one helper"
					}
					s.section = f
					s.sectionCall = append(s.sectionCall, call)
				} else {
					s.problem = "the input is handed to an unresolved callee"
				}
			}
		}
	}
	sites := c.sitesOf(s.maskValue)
	if len(sites) != 1 {
		s.problem = fmt.Sprintf("%d call sites of the rewriting function (expected 1)", len(sites))
		return s
	}
	s.processCall, _ = sites[0].(*ssa.Call)
	s.process = sites[0].Parent()
	ps := c.sitesOf(s.process)
	if len(ps) != 1 {
		s.problem = fmt.Sprintf("%d call sites of the per-value function (expected 1)", len(ps))
		return s
	}
	s.traverse = ps[0].Parent()
	ro := c.roles()
	for _, t := range c.Implementers(ro.ActionPlugin) {
		if do := c.MethodOf(t, "Do"); do != nil && c.pkgOf(do) == "plugin/action/mask" {
			s.do = do
		}
	}
	if s.do == nil || s.processCall == nil || s.section == nil {
		s.problem = "mask Do / per-value call / section masker"
	}
	return s
}

// groupIndexLoad: v == row[idx] loaded from a row of the FindAllSubmatchIndex result.
func (s *maskShape) groupIndexLoad(v ssa.Value) (row ssa.Value, idx linForm, ok bool) {
	u, isU := v.(*ssa.UnOp)
	if !isU || u.Op != token.MUL {
		return nil, linForm{}, false
	}
	ia, isIA := u.X.(*ssa.IndexAddr)
	if !isIA {
		return nil, linForm{}, false
	}
	// the row: element of the find result
	ru, isRU := ia.X.(*ssa.UnOp)
	if !isRU || ru.Op != token.MUL {
		return nil, linForm{}, false
	}
	ria, isRIA := ru.X.(*ssa.IndexAddr)
	if !isRIA || ria.X != ssa.Value(s.find) {
		return nil, linForm{}, false
	}
	return ia.X, linMul(ia.Index), true
}

// linMul: lin with multiplication by a constant.
func linMul(v ssa.Value) linForm {
	if b, ok := v.(*ssa.BinOp); ok {
		switch b.Op {
		case token.MUL:
			if k, isK := constInt(b.Y); isK {
				return scale(linMul(b.X), k)
			}
			if k, isK := constInt(b.X); isK {
				return scale(linMul(b.Y), k)
			}
		case token.SHL:
			if k, isK := constInt(b.Y); isK && k >= 0 && k < 32 {
				return scale(linMul(b.X), 1<<uint(k))
			}
		case token.ADD:
			return linMul(b.X).add(linMul(b.Y), 1)
		case token.SUB:
			return linMul(b.X).add(linMul(b.Y), -1)
		}
	}
	return lin(v)
}

func scale(f linForm, k int64) linForm {
	out := linForm{k: f.k * k, t: map[linKey]int64{}}
	for key, n := range f.t {
		out.t[key] = n * k
	}
	return out
}

// isStartOf: idx forms 2g and 2g+1 of the same g.
func pairForms(start, finish linForm) bool {
	d := finish.add(start, -1)
	if d.k != 1 || len(d.t) != 0 {
		return false
	}
	if start.k != 0 || len(start.t) != 1 {
		return false
	}
	for _, n := range start.t {
		if n != 2 {
			return false
		}
	}
	return true
}

func ruleMaskTiling(c *Ctx, r *Rule) {
	s := c.maskShape()
	if s.problem != "" {
		r.Unresolved(s.problem)
		return
	}
	fn := s.maskValue
	name := c.fnName(fn)
	r.Inst(1)
	k, isK := constInt(s.find.Call.Args[2])
	r.Ob(isK && k < 0, name+"|all-occurrences", s.find.Pos(), "every occurrence is searched (FindAllSubmatchIndex with n < 0)")
	// every append in the rewriting function
	var prev *phiWebT
	type gapT struct {
		app  *ssa.Call
		sl   *ssa.Slice
		row  ssa.Value
		form linForm
	}
	var gaps []gapT
	nApp := 0
	tails := 0
	for _, ci := range callsIn(fn) {
		app, ok := isBuiltinCall(ci, "append")
		if !ok || len(app.Call.Args) != 2 {
			continue
		}
		nApp++
		r.Inst(1)
		key := fmt.Sprintf("%s|append#%d", name, nApp)
		sl, isSl := app.Call.Args[1].(*ssa.Slice)
		if !isSl || sl.X != ssa.Value(s.value) {
			r.Ob(false, key+"|source", app.Pos(), "bytes appended to the rewritten value come from the input's gaps (or from the section masker): found "+c.path(app.Call.Args[1]))
			continue
		}
		okLow := sl.Low != nil
		if okLow {
			w := phiWeb(sl.Low)
			if len(w.phis) == 0 {
				okLow = false
			} else if prev == nil {
				prev = w
			} else if !prev.has(sl.Low) {
				okLow = false
			}
		}
		r.Ob(okLow, key+"|starts-at-previous-end", sl.Pos(), "the copied stretch starts where the previous masked group ended")
		if sl.High == nil {
			tails++
			// the tail: returned with true
			ret := false
			if refs := app.Referrers(); refs != nil {
				for _, rf := range *refs {
					if rr, isR := rf.(*ssa.Return); isR {
						if b, isB := constBool(retResults(rr)[1]); isB && b {
							ret = true
						}
					}
				}
			}
			r.Ob(ret, key+"|tail-returned", app.Pos(), "the stretch after the last group runs to the end of the input and is what the function returns")
			continue
		}
		row, form, isG := s.groupIndexLoad(sl.High)
		r.Ob(isG, key+"|ends-at-group-start", sl.Pos(), "the copied stretch ends at a group's start index: "+c.path(sl.High))
		if isG {
			gaps = append(gaps, gapT{app, sl, row, form})
			// order of the gap: previous end <= this start (bounds prover; K5 when not provable)
			proved := false
			for _, o := range c.bounds(fn).obligations() {
				if o.in == ssa.Instruction(sl) && o.why == "low<=high" {
					proved = o.ok
				}
			}
			r.Ob(proved, name+"|gap-ordered", sl.Pos(), "previous group end <= next group start is established before slicing the gap (fails for descending or nested group lists)")
		}
	}
	r.Ob(tails == 1, name+"|one-tail", fn.Pos(), fmt.Sprintf("%d appends of the input's remainder (expected exactly 1)", tails))
	r.Ob(len(gaps) >= 1 && prev != nil, name+"|has-gap", fn.Pos(), "the stretches between groups are copied")
	if prev == nil {
		return
	}
	// the previous-end variable: 0, then a group's end index, set together with the gap copy and the section call
	for i, in := range prev.inputs {
		r.Inst(1)
		key := fmt.Sprintf("%s|previous-end#%d", name, i)
		if k, isK := constInt(in); isK {
			r.Ob(k == 0, key+"|init", fn.Pos(), "the first stretch starts at 0")
			continue
		}
		row, form, isG := s.groupIndexLoad(in)
		if !isG {
			r.Ob(false, key+"|is-group-end", in.Pos(), "the previous end is a group's end index: "+c.path(in))
			continue
		}
		// the edges carrying it
		okAll := true
		why := ""
		nEdges := 0
		for p := range prev.phis {
			for ei, e := range p.Edges {
				if e != in {
					continue
				}
				nEdges++
				pred := p.Block().Preds[ei]
				var g *gapT
				for gi := range gaps {
					if gaps[gi].app.Block() == pred && gaps[gi].row == row && pairForms(gaps[gi].form, form) {
						g = &gaps[gi]
					}
				}
				if g == nil {
					okAll, why = false, "no gap copy ending at the same group's start on that way"
					continue
				}
				// the section call: (gap result, value, start, end), after the gap, result carried on
				var sc *ssa.Call
				for _, call := range s.sectionCall {
					if call.Block() == pred {
						sc = call
					}
				}
				if sc == nil {
					okAll, why = false, "the group is skipped without being handed to the section masker"
					continue
				}
				args := argsNoRecv(sc)
				okArgs := false
				if len(args) == 4 {
					okArgs = args[0] == ssa.Value(g.app) && args[1] == ssa.Value(s.value) && sameValue(args[2], g.sl.High) && sameValue(args[3], in)
				}
				if !okArgs {
					okAll, why = false, "the section masker is not called with (output after the gap, input, this group's start, this group's end)"
				}
				// the output variable continues with the section's result on that edge
				carried := false
				for _, in2 := range p.Block().Instrs {
					q, isPhi := in2.(*ssa.Phi)
					if !isPhi {
						break
					}
					if q.Edges[ei] == ssa.Value(sc) {
						carried = true
					}
				}
				if !carried {
					okAll, why = false, "the section masker's result is not what the output continues with"
				}
			}
		}
		r.Ob(okAll && nEdges > 0, key+"|skips-exactly-the-masked-group", in.Pos(), "the previous end advances to a group's end only together with copying the gap before that group and handing exactly [start,end) of the same group to the section masker"+ifs(why != "", ": "+why))
	}
}

func ruleMaskSectionOpaque(c *Ctx, r *Rule) {
	s := c.maskShape()
	if s.problem != "" {
		r.Unresolved(s.problem)
		return
	}
	fn := s.section
	name := c.fnName(fn)
	// which parameter receives the input
	var srcs []*ssa.Parameter
	for _, call := range s.sectionCall {
		for i, a := range call.Call.Args {
			if a == ssa.Value(s.value) && i < len(fn.Params) {
				srcs = append(srcs, fn.Params[i])
			}
		}
	}
	if len(srcs) == 0 {
		r.Unresolved("input parameter of the section masker")
		return
	}
	src := srcs[0]
	r.Inst(1)
	// taint: the input may only be sliced and measured
	bad := ""
	seen := map[ssa.Value]bool{}
	var walk func(v ssa.Value)
	walk = func(v ssa.Value) {
		if seen[v] {
			return
		}
		seen[v] = true
		refs := v.Referrers()
		if refs == nil {
			return
		}
		for _, rf := range *refs {
			switch x := rf.(type) {
			case *ssa.Slice:
				if x.X == v {
					walk(x)
				}
			case *ssa.Call:
				if b, isB := x.Call.Value.(*ssa.Builtin); isB && b.Name() == "len" {
					continue
				}
				if f := x.Call.StaticCallee(); f != nil {
					switch qualName(f) {
					case "unicode/utf8.RuneCount", "unicode/utf8.RuneCountInString":
						continue
					}
				}
				bad = "input passed to " + c.path(x)
			case *ssa.DebugRef:
			default:
				bad = fmt.Sprintf("input used by %T at %s", rf, c.pos(rf.Pos()))
			}
		}
	}
	walk(src)
	r.Ob(bad == "", name+"|input-only-measured", fn.Pos(), "the section masker only measures the input (length / rune count); no byte of it can reach the output"+ifs(bad != "", ": "+bad))
	// what is appended
	n := 0
	for _, ci := range callsIn(fn) {
		app, ok := isBuiltinCall(ci, "append")
		if !ok || len(app.Call.Args) != 2 {
			continue
		}
		n++
		r.Inst(1)
		srcArg := app.Call.Args[1]
		okSrc := false
		desc := c.path(srcArg)
		if isLoadOfField(srcArg, maskPkg, "Mask", "ReplaceWord") {
			okSrc = true
		}
		if sl, isSl := srcArg.(*ssa.Slice); isSl {
			if al, isAl := sl.X.(*ssa.Alloc); isAl {
				// varargs array of constants
				okSrc = true
				if refs := al.Referrers(); refs != nil {
					for _, rf := range *refs {
						if ia, isIA := rf.(*ssa.IndexAddr); isIA {
							if r2 := ia.Referrers(); r2 != nil {
								for _, st := range *r2 {
									if store, isSt := st.(*ssa.Store); isSt {
										if _, isC := store.Val.(*ssa.Const); !isC {
											okSrc = false
										}
									}
								}
							}
						}
					}
				}
			}
		}
		r.Ob(okSrc, fmt.Sprintf("%s|append#%d|constant-or-replace-word", name, n), app.Pos(), "what the section masker appends is the substitution constant or the configured replace word: "+desc)
	}
	// the number of substitution bytes: rune count, capped by max_count when set
	for _, b := range fn.Blocks {
		for _, in := range b.Instrs {
			bo, ok := in.(*ssa.BinOp)
			if !ok || bo.Op != token.LSS {
				continue
			}
			iphi, isPhi := bo.X.(*ssa.Phi)
			if !isPhi || !ascendingCounter(iphi) {
				continue
			}
			r.Inst(1)
			okN := true
			for _, leaf := range phiLeaves(bo.Y) {
				call, isCall := leaf.(*ssa.Call)
				if !isCall {
					okN = false
					continue
				}
				if f := call.Call.StaticCallee(); f != nil && qualName(f) == "unicode/utf8.RuneCount" {
					continue
				}
				if bi, isB := call.Call.Value.(*ssa.Builtin); isB && bi.Name() == "min" {
					hasCount, hasMax := false, false
					for _, a := range call.Call.Args {
						if ac, isAC := a.(*ssa.Call); isAC && ac.Call.StaticCallee() != nil && qualName(ac.Call.StaticCallee()) == "unicode/utf8.RuneCount" {
							hasCount = true
						}
						if isLoadOfField(a, maskPkg, "Mask", "MaxCount") {
							hasMax = true
						}
					}
					// only under MaxCount > 0
					g := false
					for _, l := range c.unitGuards(call) {
						if op, x, y, ok := cmpLit(l); ok && op == token.GTR && isLoadOfField(x, maskPkg, "Mask", "MaxCount") {
							if k, isK := constInt(y); isK && k == 0 {
								g = true
							}
						}
					}
					if hasCount && hasMax && g {
						continue
					}
				}
				okN = false
			}
			r.Ob(okN, name+"|substitution-count", bo.Pos(), "one substitution byte per character of the group, capped by max_count only when it is set")
		}
	}
}

// ascendingCounter: φ(0, φ+1)
func ascendingCounter(p *ssa.Phi) bool {
	zero, inc := false, false
	for _, e := range p.Edges {
		if k, ok := constInt(e); ok && k == 0 {
			zero = true
			continue
		}
		if b, ok := e.(*ssa.BinOp); ok && b.Op == token.ADD && b.X == ssa.Value(p) {
			if k, isK := constInt(b.Y); isK && k == 1 {
				inc = true
				continue
			}
		}
		return false
	}
	return zero && inc
}

// loopHeadOf: the innermost loop header dominating in (a block with a back-edge predecessor).
func loopHeadOf(in ssa.Instruction) *ssa.BasicBlock {
	for b := in.Block(); b != nil; b = b.Idom() {
		for _, p := range b.Preds {
			if isBackEdge(p, b) && pathWithin(b, in.Block()) {
				return b
			}
		}
	}
	return nil
}

// pathWithin: head dominates blk and blk can reach head (blk is inside head's loop).
func pathWithin(head, blk *ssa.BasicBlock) bool {
	if !head.Dominates(blk) {
		return false
	}
	seen := map[*ssa.BasicBlock]bool{}
	var dfs func(b *ssa.BasicBlock) bool
	dfs = func(b *ssa.BasicBlock) bool {
		if b == head {
			return true
		}
		if seen[b] {
			return false
		}
		seen[b] = true
		for _, s := range b.Succs {
			if head.Dominates(s) && dfs(s) {
				return true
			}
		}
		return false
	}
	for _, s := range blk.Succs {
		if s == head || (head.Dominates(s) && dfs(s)) {
			return true
		}
	}
	return false
}

func ruleMaskMarksExact(c *Ctx, r *Rule) {
	s := c.maskShape()
	if s.problem != "" {
		r.Unresolved(s.problem)
		return
	}
	// (a) the rewrite reports true only when there was a match
	mv := s.maskValue
	for i, ret := range returnsOf(mv) {
		res := retResults(ret)
		if len(res) != 2 {
			continue
		}
		r.Inst(1)
		b, isB := constBool(res[1])
		if !isB {
			r.Ob(false, fmt.Sprintf("%s|return#%d|constant-verdict", c.fnName(mv), i), ret.Pos(), "the rewrite's verdict is a constant per return")
			continue
		}
		matched := false
		for _, l := range c.unitGuards(ret) {
			if op, x, y, ok := cmpLit(l); ok && (op == token.NEQ || op == token.GTR) {
				if k, isK := constInt(y); isK && k == 0 && lin(x).equal(linForm{t: map[linKey]int64{{s.find, true}: 1}}) {
					matched = true
				}
			}
		}
		if b {
			r.Ob(matched, fmt.Sprintf("%s|return#%d|true-only-on-match", c.fnName(mv), i), ret.Pos(), "the rewrite reports 'masked' only when the search found something")
		} else {
			r.Ob(!matched && res[0] == ssa.Value(mv.Params[len(mv.Params)-1]), fmt.Sprintf("%s|return#%d|false-leaves-buffer", c.fnName(mv), i), ret.Pos(), "without a match the rewrite reports false and hands back the caller's buffer untouched")
		}
	}
	// (b) mark sites of the per-value loop
	fn := s.process
	name := c.fnName(fn)
	call := s.processCall
	head := loopHeadOf(call)
	if head == nil {
		r.Unresolved("mask loop of the per-value function")
		return
	}
	var verdict ssa.Value
	if refs := call.Referrers(); refs != nil {
		for _, rf := range *refs {
			if ex, ok := rf.(*ssa.Extract); ok && ex.Index == 1 {
				verdict = ex
			}
		}
	}
	if verdict == nil {
		r.Unresolved("the rewrite's verdict is not used")
		return
	}
	type site struct {
		in   ssa.Instruction
		what string
	}
	var sites []site
	// returned flag web: const true edges
	var retWeb *phiWebT
	for _, ret := range returnsOf(fn) {
		if w := phiWeb(retResults(ret)[0]); len(w.phis) > 0 {
			retWeb = w
		}
	}
	addTrueEdges := func(w *phiWebT, what string) {
		var phis []*ssa.Phi
		for p := range w.phis {
			phis = append(phis, p)
		}
		sort.Slice(phis, func(i, j int) bool { return phis[i].Block().Index < phis[j].Block().Index })
		for _, p := range phis {
			for i, e := range p.Edges {
				if b, isB := constBool(e); isB && b {
					pred := p.Block().Preds[i]
					sites = append(sites, site{pred.Instrs[len(pred.Instrs)-1], what})
				}
			}
		}
	}
	if retWeb != nil {
		addTrueEdges(retWeb, "returned-flag")
	}
	// the value update flag: the φ web guarding the MutateToString of the node parameter
	var updWeb *phiWebT
	for _, ci := range callsIn(fn) {
		f := calleeFunc(ci)
		if f == nil || f.Name() != "MutateToString" {
			continue
		}
		if _, isParam := ci.Common().Args[0].(*ssa.Parameter); !isParam {
			continue
		}
		r.Inst(1)
		g := false
		for _, l := range c.unitGuards(ci) {
			if p, isPhi := l.v.(*ssa.Phi); isPhi && l.pol {
				updWeb = phiWeb(p)
				g = true
			}
		}
		r.Ob(g, name+"|node-rewritten-only-under-update-flag", ci.Pos(), "the node's value is replaced only under the update flag")
	}
	if updWeb != nil {
		addTrueEdges(updWeb, "update-flag")
	}
	for _, ci := range callsIn(fn) {
		if f := calleeFunc(ci); f != nil && f.Name() == "AddFieldNoAlloc" && pathWithin(head, ci.Block()) {
			sites = append(sites, site{ci, "applied-field"})
		}
	}
	for _, b := range fn.Blocks {
		for _, in := range b.Instrs {
			if st, ok := in.(*ssa.Store); ok && pathWithin(head, b) {
				if ia, isIA := st.Addr.(*ssa.IndexAddr); isIA && isLoadOfField(ia.X, maskPkg, "Plugin", "maskApplyCount") {
					sites = append(sites, site{st, "per-mask-counter"})
				}
			}
		}
	}
	// C's own guards that the site does not share
	extra := func(x ssa.Instruction) []lit {
		have := map[string]bool{}
		for _, l := range c.unitGuards(x) {
			have[fmt.Sprintf("%p:%v", l.v, l.pol)] = true
		}
		var out []lit
		for _, l := range c.unitGuards(call) {
			if in, isIn := l.v.(ssa.Instruction); isIn && pathWithin(head, in.Block()) && !have[fmt.Sprintf("%p:%v", l.v, l.pol)] {
				out = append(out, l)
			}
		}
		return out
	}
	headFirst := head.Instrs[0]
	isHead := func(in ssa.Instruction) bool { return in == headFirst }
	cnt := map[string]int{}
	for _, st := range sites {
		cnt[st.what]++
		r.Inst(1)
		key := fmt.Sprintf("%s|%s#%d", name, st.what, cnt[st.what])
		target := func(in ssa.Instruction) bool { return in == st.in }
		// Q1: from the rewrite to the site without its verdict having been true
		bad1, _ := c.pathExistsE(fn, call, target, isHead, func(b *ssa.BasicBlock, i int) bool {
			iff, ok := b.Instrs[len(b.Instrs)-1].(*ssa.If)
			if !ok {
				return true
			}
			v, pol := peelNot(iff.Cond, i == 0)
			return !(v == verdict && pol)
		})
		// Q2: from the loop head to the site around the rewrite, without contradicting one of the rewrite's own guards
		ex := extra(st.in)
		bad2, _ := c.pathExistsE(fn, headFirst, target, func(in ssa.Instruction) bool { return in == ssa.Instruction(call) || (in == headFirst && false) }, func(b *ssa.BasicBlock, i int) bool {
			if b.Succs[i] == head {
				return false // next iteration: another mask
			}
			iff, ok := b.Instrs[len(b.Instrs)-1].(*ssa.If)
			if !ok {
				return true
			}
			v, pol := peelNot(iff.Cond, i == 0)
			for _, l := range ex {
				if l.v == v && l.pol != pol {
					return false
				}
			}
			return true
		})
		r.Ob(!bad1 && !bad2, key+"|only-after-reported-match", st.in.Pos(),
			"this mark is reached only when this iteration's rewrite reported a match, or around the rewrite only by failing one of the rewrite's own conditions (a mask without regexp part)"+ifs(bad1, "; reachable from the rewrite without a true verdict")+ifs(bad2, "; reachable around the rewrite with its conditions holding"))
	}
	r.Ob(cnt["returned-flag"] >= 1 && cnt["update-flag"] >= 1, name+"|has-flags", fn.Pos(), "the per-value function has a returned flag and an update flag that are set inside the mask loop")
	// (c) flags up the traversal and in Do derive only from those results
	applied := map[*ssa.Function]bool{s.process: true, s.traverse: true}
	fromApplied := func(v ssa.Value) (bool, string) {
		seen := map[ssa.Value]bool{}
		var chk func(v ssa.Value, at, to *ssa.BasicBlock) (bool, string)
		chk = func(v ssa.Value, at, to *ssa.BasicBlock) (bool, string) {
			if seen[v] {
				return true, ""
			}
			seen[v] = true
			if b, isB := constBool(v); isB {
				if !b {
					return true, ""
				}
				// constant true: only where an applied-function's result (or a flag that itself derives
				// from such results, as in `flag || f()`) is known true
				if at != nil {
					facts := c.guards(at.Parent())[at]
					if to != nil {
						facts = c.edgeFacts(c.info(at.Parent()), at, to)
					}
					for _, cl := range facts {
						if len(cl) == 1 && cl[0].pol {
							if cc, isCall := cl[0].v.(*ssa.Call); isCall && applied[cc.Call.StaticCallee()] {
								return true, ""
							}
							if p, isPhi := cl[0].v.(*ssa.Phi); isPhi {
								if ok, _ := chk(p, nil, nil); ok {
									return true, ""
								}
							}
						}
					}
				}
				return false, "constant true not under a true result of the per-value/traversal function"
			}
			if cc, isCall := v.(*ssa.Call); isCall && applied[cc.Call.StaticCallee()] {
				return true, ""
			}
			if p, isPhi := v.(*ssa.Phi); isPhi {
				for i, e := range p.Edges {
					if ok, why := chk(e, p.Block().Preds[i], p.Block()); !ok {
						return false, why
					}
				}
				return true, ""
			}
			return false, "derived from " + c.path(v)
		}
		return chk(v, nil, nil)
	}
	for i, ret := range returnsOf(s.traverse) {
		r.Inst(1)
		ok, why := fromApplied(retResults(ret)[0])
		if b, isB := constBool(retResults(ret)[0]); isB && b {
			ok, why = false, "returns constant true"
		}
		r.Ob(ok, fmt.Sprintf("%s|return#%d|flag-from-results", c.fnName(s.traverse), i), ret.Pos(), "the traversal's 'applied' result derives only from the per-value results"+ifs(why != "", ": "+why))
	}
	// Do: event-level mark and metric under the accumulated flag
	do := s.do
	n := 0
	for _, ci := range callsIn(do) {
		f := calleeFunc(ci)
		if f == nil {
			continue
		}
		isMark := f.Name() == "AddFieldNoAlloc" || (f.Name() == "Inc" && recvNamed(f) != nil)
		if !isMark {
			continue
		}
		n++
		r.Inst(1)
		var flag ssa.Value
		for _, l := range c.unitGuards(ci) {
			if l.pol {
				if _, isPhi := l.v.(*ssa.Phi); isPhi {
					flag = l.v
				}
				if cc, isCall := l.v.(*ssa.Call); isCall && applied[cc.Call.StaticCallee()] {
					flag = l.v
				}
			}
		}
		if flag == nil {
			r.Ob(false, fmt.Sprintf("%s|event-mark#%d", c.fnName(do), n), ci.Pos(), "the event-level mark / metric is set only under the accumulated 'applied' flag")
			continue
		}
		ok, why := fromApplied(flag)
		r.Ob(ok, fmt.Sprintf("%s|event-mark#%d", c.fnName(do), n), ci.Pos(), "the event-level mark / metric is set only under a flag that derives from the traversal's results"+ifs(why != "", ": "+why))
	}
	r.Ob(n >= 1, c.fnName(do)+"|has-event-mark", do.Pos(), "Do sets the event-level mark")
}

func ruleMaskTraversalCovers(c *Ctx, r *Rule) {
	s := c.maskShape()
	if s.problem != "" {
		r.Unresolved(s.problem)
		return
	}
	fn := s.traverse
	name := c.fnName(fn)
	isRec := func(in ssa.Instruction) bool {
		ci, ok := in.(ssa.CallInstruction)
		return ok && calleeFunc(ci) == fn
	}
	// every range over AsArray()/AsFields(): each element is recursed into
	n := 0
	for _, ci := range callsIn(fn) {
		f := calleeFunc(ci)
		if f == nil || (f.Name() != "AsArray" && f.Name() != "AsFields") {
			continue
		}
		call, ok := ci.(*ssa.Call)
		if !ok {
			continue
		}
		n++
		r.Inst(1)
		key := fmt.Sprintf("%s|%s#%d", name, f.Name(), n)
		// element loads
		var elems []ssa.Instruction
		if refs := call.Referrers(); refs != nil {
			for _, rf := range *refs {
				if ia, isIA := rf.(*ssa.IndexAddr); isIA {
					if r2 := ia.Referrers(); r2 != nil {
						for _, ld := range *r2 {
							if u, isU := ld.(*ssa.UnOp); isU && u.Op == token.MUL {
								elems = append(elems, u)
							}
						}
					}
				}
			}
		}
		if len(elems) == 0 {
			r.Ob(false, key+"|iterated", call.Pos(), "the children are iterated")
			continue
		}
		for _, el := range elems {
			head := loopHeadOf(el)
			if head == nil {
				r.Ob(false, key+"|iterated", el.Pos(), "the children are iterated in a loop")
				continue
			}
			first := head.Instrs[0]
			// a way from the element to the next iteration (or out) without recursing into it
			skip, _ := c.pathExists(fn, el, func(in ssa.Instruction) bool { return in == first || isReturn(in) }, func(in ssa.Instruction) bool {
				if !isRec(in) {
					return false
				}
				for _, a := range in.(ssa.CallInstruction).Common().Args {
					if a == ssa.Value(el.(*ssa.UnOp)) {
						return true
					}
				}
				return false
			})
			// the loop is left only from its header (exhaustion), never from the body
			early := false
			for _, b := range fn.Blocks {
				if b == head || !pathWithin(head, b) {
					continue
				}
				for _, sc := range b.Succs {
					if sc != head && !pathWithin(head, sc) {
						if _, dead := c.info(fn).dead[sc]; !dead {
							early = true
						}
					}
				}
			}
			r.Ob(!skip && !early, key+"|every-element-visited", el.Pos(), "every child is recursed into on every iteration (no element is skipped and the loop is not left early)"+ifs(early, "; the loop body has an exit other than exhaustion"))
		}
	}
	r.Ob(n >= 2, name+"|covers-arrays-and-objects", fn.Pos(), "arrays and objects are both descended into")
	// the leaf: the per-value function is called on the current node under kind tests only
	for _, ci := range c.sitesOf(s.process) {
		r.Inst(1)
		okG := true
		why := ""
		for _, cl := range c.guards(fn)[ci.Block()] {
			if len(cl) != 1 {
				continue // disjunctions come from merges; a gating branch is a unit fact
			}
			for _, l := range cl {
				switch x := l.v.(type) {
				case *ssa.Call:
					if f := x.Call.StaticCallee(); f != nil && recvNamed(f) != nil && recvNamed(f).Obj().Name() == "Node" && len(f.Name()) > 2 && f.Name()[:2] == "Is" {
						continue
					}
				case *ssa.BinOp:
					if isNilConst(x.Y) || isNilConst(x.X) {
						continue
					}
				case *ssa.Phi:
					// the value form of IsString() || IsNumber()
					kinds := true
					for _, e := range x.Edges {
						if _, isC := constBool(e); isC {
							continue
						}
						cc, isCall := e.(*ssa.Call)
						if !isCall || cc.Call.StaticCallee() == nil || recvNamed(cc.Call.StaticCallee()) == nil || recvNamed(cc.Call.StaticCallee()).Obj().Name() != "Node" {
							kinds = false
						}
					}
					if kinds {
						continue
					}
				}
				okG, why = false, c.litString(l)
			}
		}
		r.Ob(okG, name+"|leaf-reaches-per-value-function", ci.Pos(), "string and number leaves reach the per-value function under node-kind tests only"+ifs(why != "", "; extra condition "+why))
	}
	// Do: every configured process field that exists is traversed (no short-circuit over the list)
	if do := s.do; do != nil {
		nD := 0
		for _, ci := range callsIn(do) {
			if jsonMethod(ci) != "Dig" {
				continue
			}
			dig, ok := ci.(*ssa.Call)
			if !ok || loopHeadOf(dig) == nil {
				continue
			}
			// only digs of an element of the configured path list
			el, isEl := dig.Call.Args[len(dig.Call.Args)-1].(*ssa.UnOp)
			if !isEl {
				continue
			}
			if ia, isIA := el.X.(*ssa.IndexAddr); !isIA || !isLoadOfField(ia.X, maskPkg, "Plugin", "fieldPaths") {
				continue
			}
			nD++
			r.Inst(1)
			head := loopHeadOf(dig)
			first := head.Instrs[0]
			skip, _ := c.pathExistsE(do, dig, func(in ssa.Instruction) bool { return in == first || isReturn(in) }, func(in ssa.Instruction) bool {
				cj, isCall := in.(ssa.CallInstruction)
				if !isCall || calleeFunc(cj) != fn {
					return false
				}
				for _, a := range cj.Common().Args {
					if a == ssa.Value(dig) {
						return true
					}
				}
				return false
			}, func(b *ssa.BasicBlock, i int) bool {
				iff, ok := b.Instrs[len(b.Instrs)-1].(*ssa.If)
				if !ok {
					return true
				}
				v, pol := peelNot(iff.Cond, i == 0)
				if bo, isBo := v.(*ssa.BinOp); isBo && (bo.X == ssa.Value(dig) && isNilConst(bo.Y) || bo.Y == ssa.Value(dig) && isNilConst(bo.X)) {
					// the missing-field edge is the one allowed way round
					if (bo.Op == token.EQL && pol) || (bo.Op == token.NEQ && !pol) {
						return false
					}
				}
				return true
			})
			r.Ob(!skip && !c.loopBodyExits(do, head), fmt.Sprintf("%s|process-field#%d|always-traversed", c.fnName(do), nD), dig.Pos(), "every configured process field that exists in the event is traversed, whatever the earlier ones reported")
		}
	}
	// a field recurses into its value
	fv := false
	for _, ci := range callsIn(fn) {
		if f := calleeFunc(ci); f != nil && f.Name() == "AsFieldValue" {
			if v := ci.Value(); v != nil {
				if refs := v.Referrers(); refs != nil {
					for _, rf := range *refs {
						if isRec(rf) {
							fv = true
						}
					}
				}
			}
		}
	}
	r.Inst(1)
	r.Ob(fv, name+"|field-recurses-into-value", fn.Pos(), "a field node recurses into its value")
}

// ruleMatchRuleLengthGate: the match rules that gate a mask (and the antispam exceptions) reject
// a value by its length only when it is shorter than the SHORTEST configured value.
func ruleMatchRuleLengthGate(c *Ctx, r *Rule) {
	const mrPkg = modulePath + "/cfg/matchrule"
	prep := c.Method("cfg/matchrule", "Rule", "Prepare")
	match := c.Method("cfg/matchrule", "Rule", "match")
	if prep == nil || match == nil {
		r.Unresolved("matchrule Rule.Prepare / Rule.match")
		return
	}
	// classify the length fields written by Prepare: running minimum / running maximum
	c.guards(prep)
	kind := map[string]string{}
	for _, b := range prep.Blocks {
		for _, in := range b.Instrs {
			st, ok := in.(*ssa.Store)
			if !ok {
				continue
			}
			o, f, _, ok := fieldOf(st.Addr)
			if !ok || o == nil || o.Obj().Name() != "Rule" || !isIntegerType(st.Val.Type()) {
				continue
			}
			w := phiWeb(st.Val)
			if len(w.phis) == 0 {
				continue
			}
			k := ""
			okAll := true
			for _, e := range w.inputs {
				call, isLen := e.(*ssa.Call)
				if !isLen {
					okAll = false
					continue
				}
				if bi, isB := call.Call.Value.(*ssa.Builtin); !isB || bi.Name() != "len" {
					okAll = false
					continue
				}
				// the update is guarded by a comparison of that length with the running value
				g := ""
				for p := range w.phis {
					for i, pe := range p.Edges {
						if pe != e {
							continue
						}
						for _, l := range unitLits(c.edgeFacts(c.info(prep), p.Block().Preds[i], p.Block())) {
							if op, x, y, isCmp := cmpLit(l); isCmp && w.has(y) && (sameValue(x, e) || c.path(x) == c.path(e)) {
								switch op {
								case token.LSS, token.LEQ:
									g = "min"
								case token.GTR, token.GEQ:
									g = "max"
								}
							}
						}
					}
				}
				if g == "" {
					continue // the initial value (first element) is not guarded
				}
				if k != "" && k != g {
					okAll = false
				}
				k = g
			}
			if okAll && k != "" {
				kind[f] = k
			}
		}
	}
	r.Inst(len(kind))
	r.Ob(len(kind) >= 1, "matchrule.Rule.Prepare|length-bounds", prep.Pos(), fmt.Sprintf("Prepare computes the running minimum / maximum of the configured values' lengths: %v", kind))
	n := 0
	for _, ret := range returnsOf(match) {
		b, isB := constBool(retResults(ret)[0])
		if !isB || b {
			continue
		}
		for _, l := range c.unitGuards(ret) {
			op, x, y, ok := cmpLit(l)
			if !ok || op != token.LSS {
				continue
			}
			f := lin(x)
			isLenOfParam := false
			for key := range f.t {
				if _, isP := key.v.(*ssa.Parameter); isP && key.isLen {
					isLenOfParam = true
				}
			}
			if !isLenOfParam {
				continue
			}
			n++
			r.Inst(1)
			_, fld, _, isFld := loadedField(y)
			r.Ob(isFld && kind[fld] == "min", fmt.Sprintf("matchrule.Rule.match|length-gate#%d", n), ret.Pos(),
				"a value is rejected by its length only when it is shorter than the shortest configured value (compared with "+c.path(y)+", which Prepare computes as "+kind[fld]+")")
		}
	}
	r.Ob(n >= 1, "matchrule.Rule.match|has-length-gate", match.Pos(), "the match has a length short-cut")
	_ = mrPkg
}

// ruleMatchRuleCaseFold: Prepare lower-cases the configured values of a case-insensitive rule, so
// every comparison of event data with those values must see lower-cased data whenever the rule is
// case-insensitive. Decided per comparison call in the matchrule package's Rule methods (and the
// helpers / literals they use): the data operand is the result of bytes.ToLower, or it reaches the
// comparison only on paths where CaseInsensitive is known to be false.
func ruleMatchRuleCaseFold(c *Ctx, r *Rule) {
	const mrPkg = modulePath + "/cfg/matchrule"
	prep := c.Method("cfg/matchrule", "Rule", "Prepare")
	if prep == nil {
		r.Unresolved("matchrule Rule.Prepare")
		return
	}
	// does Prepare fold the values at all?
	folds := false
	for _, ci := range callsIn(prep) {
		if f := calleeFunc(ci); f != nil && (qualName(f) == "strings.ToLower" || qualName(f) == "bytes.ToLower") {
			for _, l := range c.unitGuards(ci) {
				if l.pol && isLoadOfField(l.v, mrPkg, "Rule", "CaseInsensitive") {
					folds = true
				}
			}
		}
	}
	r.Inst(1)
	r.Ob(folds, c.fnName(prep)+"|folds-values", prep.Pos(), "Prepare lower-cases the configured values of a case-insensitive rule")
	notCI := func(lits []lit) bool {
		for _, l := range lits {
			if !l.pol && isLoadOfField(l.v, mrPkg, "Rule", "CaseInsensitive") {
				return true
			}
		}
		return false
	}
	seenPhi := map[*ssa.Phi]bool{}
	var lowered func(v ssa.Value, lits []lit, d int) (bool, string)
	lowered = func(v ssa.Value, lits []lit, d int) (bool, string) {
		if d > 8 {
			return false, "too deep"
		}
		v = stripConv(v)
		if isNilConst(v) {
			return true, ""
		}
		switch x := v.(type) {
		case *ssa.Call:
			if f := x.Call.StaticCallee(); f != nil && qualName(f) == "bytes.ToLower" {
				return true, ""
			}
		case *ssa.Slice:
			return lowered(x.X, lits, d+1)
		case *ssa.Phi:
			if seenPhi[x] {
				return true, "" // a cycle through loop variables adds no new source
			}
			seenPhi[x] = true
			fn := x.Parent()
			fi := c.info(fn)
			c.guards(fn)
			for i, e := range x.Edges {
				if e == ssa.Value(x) {
					continue
				}
				el := append(unitLits(c.edgeFacts(fi, x.Block().Preds[i], x.Block())), lits...)
				if ok, why := lowered(e, el, d+1); !ok {
					return false, why
				}
			}
			return true, ""
		case *ssa.UnOp:
			if x.Op == token.MUL {
				if cv := cellValue(x.X); cv != nil {
					return lowered(cv, lits, d+1)
				}
			}
		case *ssa.Parameter:
			// a helper's parameter: every call site
			fn := x.Parent()
			if pi := paramIndex(fn, x); pi >= 0 && !notCI(lits) {
				sites := c.sitesOf(fn)
				if len(sites) > 0 && fn.Name() != "match" && fn.Name() != "Match" {
					for _, cs := range sites {
						if ok, why := lowered(cs.Common().Args[pi], c.unitGuardsCtx(cs), d+1); !ok {
							return false, why
						}
					}
					return true, ""
				}
			}
		}
		if notCI(lits) {
			return true, ""
		}
		return false, c.path(v) + " reaches the comparison as it is while CaseInsensitive may be true"
	}
	n := 0
	for _, fn := range c.ModFuncs {
		if c.pkgOf(fn) != "cfg/matchrule" {
			continue
		}
		top := fn
		for top.Parent() != nil {
			top = top.Parent()
		}
		if rn := recvNamed(top); rn == nil || rn.Obj().Name() != "Rule" {
			continue
		}
		for _, ci := range callsIn(fn) {
			f := calleeFunc(ci)
			if f == nil {
				continue
			}
			switch qualName(f) {
			case "bytes.Contains", "bytes.Equal", "bytes.HasPrefix", "bytes.HasSuffix", "bytes.Index", "bytes.EqualFold":
			default:
				continue
			}
			if qualName(f) == "bytes.EqualFold" {
				continue
			}
			n++
			r.Inst(1)
			seenPhi = map[*ssa.Phi]bool{}
			ok, why := lowered(ci.Common().Args[0], c.unitGuardsCtx(ci), 0)
			r.Ob(ok, fmt.Sprintf("%s|%s#%d|data-folded", c.fnName(fn), f.Name(), n), ci.Pos(), "event data compared with the configured values is lower-cased whenever the rule is case-insensitive (the values are; otherwise upper-case data never matches)"+ifs(!ok, ": "+why))
		}
	}
	r.Ob(n >= 2, "matchrule|comparisons", token.NoPos, fmt.Sprintf("%d comparisons of event data with configured values in Rule's methods", n))
}

// ruleMaskFieldListPerChild: the process/ignore field lists are matched against the event as a tree
// (fieldMasksNode); when the walk descends into a child it must choose the child's list node for
// THAT child: the node found under the child's own name / index, the empty node when the child is
// not listed, or the parent's node when the parent has no listed children. A value that survives
// from a previous sibling (a variable assigned in an earlier iteration of the element loop) applies
// one element's ignore / process list to the following elements.
func ruleMaskFieldListPerChild(c *Ctx, r *Rule) {
	fn := c.Method("plugin/action/mask", "Plugin", "traverseTree")
	if fn == nil {
		r.Unresolved("mask Plugin.traverseTree")
		return
	}
	// the tree parameter and its position
	pi := -1
	for i, p := range fn.Params {
		if typeIs(p.Type(), maskPkg, "fieldMasksNode") {
			pi = i
		}
	}
	if pi < 0 {
		r.Unresolved("fieldMasksNode parameter of traverseTree")
		return
	}
	fi := c.info(fn)
	c.guards(fn)
	// S: the boolean under which children are looked up ("this node has listed children")
	var sVals []ssa.Value
	var lookups []*ssa.Lookup
	for _, b := range fn.Blocks {
		for _, in := range b.Instrs {
			lk, ok := in.(*ssa.Lookup)
			if !ok || !lk.CommaOk {
				continue
			}
			if _, f, _, okf := loadedField(stripConv(lk.X)); !okf || f != "children" {
				continue
			}
			lookups = append(lookups, lk)
			for _, l := range unitLits(c.guards(fn)[b]) {
				if _, isPhi := l.v.(*ssa.Phi); isPhi && l.pol {
					sVals = append(sVals, l.v)
				}
			}
		}
	}
	r.Inst(1)
	r.Ob(len(lookups) >= 1 && len(sVals) >= 1, c.fnName(fn)+"|child-lookups", fn.Pos(), fmt.Sprintf("children of the list node are looked up by the child's name / index under a has-listed-children test (%d look-ups)", len(lookups)))
	if len(lookups) == 0 || len(sVals) == 0 {
		return
	}
	noChildren := func(lits []lit) bool {
		for _, l := range lits {
			if l.pol {
				continue
			}
			for _, s := range sVals {
				if l.v == s {
					return true
				}
			}
		}
		return false
	}
	n := 0
	for _, ci := range callsIn(fn) {
		if calleeFunc(ci) != fn || pi >= len(ci.Common().Args) {
			continue
		}
		n++
		r.Inst(1)
		bad := ""
		usesEmpty := false
		onStack := map[*ssa.Phi]bool{}
		var walk func(v ssa.Value, acc []lit, d int)
		walk = func(v ssa.Value, acc []lit, d int) {
			if bad != "" || d > 12 {
				return
			}
			switch x := v.(type) {
			case *ssa.Phi:
				if onStack[x] {
					// the value of an earlier iteration comes round again
					if !noChildren(acc) {
						bad = "the list node chosen for a previous child (" + c.path(x) + ") is still in use for the next one on a path where this node has listed children"
					}
					return
				}
				onStack[x] = true
				for i, e := range x.Edges {
					walk(e, append(append([]lit(nil), acc...), unitLits(c.edgeFacts(fi, x.Block().Preds[i], x.Block()))...), d+1)
				}
				delete(onStack, x)
				return
			case *ssa.Extract:
				if lk, ok := x.Tuple.(*ssa.Lookup); ok && x.Index == 0 {
					has := false
					for _, l := range acc {
						if e, isE := l.v.(*ssa.Extract); isE && e.Tuple == ssa.Value(lk) && e.Index == 1 && l.pol {
							has = true
						}
					}
					if !has {
						bad = "a looked-up list node is used without its found flag"
					}
					return
				}
			case *ssa.UnOp:
				if _, f, _, ok := loadedField(x); ok && f == "emptyFMNode" {
					usesEmpty = true
					return
				}
			case *ssa.Parameter:
				// an object hands its own list node to its fields: the field step does the look-up by name
				viaObject := false
				for _, l := range acc {
					if call, isCall := l.v.(*ssa.Call); isCall && l.pol && jsonMethod(call) == "IsObject" {
						viaObject = true
					}
				}
				if !noChildren(acc) && !viaObject {
					bad = "the parent's list node is passed down on a path where it has listed children"
				}
				return
			case *ssa.Const:
				if x.IsNil() {
					return // the declared-but-unassigned variable: only on the has-children paths, where it is overwritten
				}
			case *ssa.Call:
				// a node derived from the parent's own node (the repair of K8 would look like this:
				// the parent's marks without its children)
				for _, a := range x.Call.Args {
					if pp, isP := stripConv(a).(*ssa.Parameter); isP && typeIs(pp.Type(), maskPkg, "fieldMasksNode") {
						return
					}
				}
			}
			bad = "unexpected source " + c.path(v)
		}
		walk(ci.Common().Args[pi], c.unitGuards(ci), 0)
		r.Ob(bad == "", fmt.Sprintf("%s|descend#%d|own-list-node", c.fnName(fn), n), ci.Pos(), "the list node handed to a child is chosen for that child (its own entry, the empty node, or the parent's node when nothing is listed below it)"+ifs(bad != "", ": "+bad))
		// a listed field covers everything below it. When the node has listed children (another list
		// mentions a deeper path), an UNLISTED child gets the plugin's empty node, which carries none of
		// the marks of the listed ancestor: a mask that ignores `a.b` then runs on `a.b.d` as soon as any
		// list mentions `a.b.c`. (Passing the parent's own marks down would satisfy this.)
		if bad == "" {
			r.Ob(!usesEmpty, fmt.Sprintf("%s|descend#%d|ancestor-marks-kept", c.fnName(fn), n), ci.Pos(), "an unlisted child below a node with listed children keeps the marks of its listed ancestors (found: it is given the empty list node, so a mask that ignores or is restricted to the ancestor no longer is below it once any list names a deeper path)")
		}
	}
	r.Ob(n >= 2, c.fnName(fn)+"|descents", fn.Pos(), fmt.Sprintf("%d recursive descents examined", n))
}

// ruleFieldTreeOnlyGrows: all process / ignore lists of the mask action (every mask's and the plugin's)
// are inserted into ONE tree. Inserting a path must never remove what another list put below it: no
// clear / delete on a node's children, and the children map is assigned only when it is created.
func ruleFieldTreeOnlyGrows(c *Ctx, r *Rule) {
	n := 0
	for _, fn := range c.ModFuncs {
		if c.pkgOf(fn) != "plugin/action/mask" {
			continue
		}
		for _, b := range fn.Blocks {
			for _, in := range b.Instrs {
				switch x := in.(type) {
				case *ssa.Call:
					bi, ok := x.Call.Value.(*ssa.Builtin)
					if !ok || (bi.Name() != "clear" && bi.Name() != "delete") || len(x.Call.Args) == 0 {
						continue
					}
					if _, f, _, okf := loadedField(stripConv(x.Call.Args[0])); okf && f == "children" {
						n++
						r.Ob(false, c.fnName(fn)+"|"+bi.Name()+"-children", x.Pos(), "entries of the shared field tree are never removed ("+bi.Name()+" on a node's children drops the deeper paths that another list — another mask, or the plugin — inserted earlier)")
					}
				case *ssa.Store:
					o, f, _, okf := fieldOf(x.Addr)
					if !okf || o == nil || o.Obj().Name() != "fieldMasksNode" || f != "children" {
						continue
					}
					n++
					r.Inst(1)
					_, isMake := stripConv(x.Val).(*ssa.MakeMap)
					r.Ob(isMake, fmt.Sprintf("%s|children-assigned#%d", c.fnName(fn), n), x.Pos(), "a node's children map is assigned only when it is created")
				}
			}
		}
	}
	r.Inst(1)
	r.Ob(n >= 1, "mask|field-tree-writers", token.NoPos, fmt.Sprintf("%d writers of fieldMasksNode.children examined", n))
}
