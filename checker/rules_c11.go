package main

import (
	"fmt"
	"go/token"
	"go/types"
	"strings"

	"golang.org/x/tools/go/ssa"
)

const httpInPkg = modulePath + "/plugin/input/http"

func init() {
	explain("C11", "Static necessary conditions of the HTTP input contract, decided exhaustively over the source: the success response is written only on the edge where the body processing returned nil; the read loop leaves only at (n==0 ∧ EOF) or with an error return, every read with data is handed to the chunk processor, the carry-over is threaded through the loop and flushed as the last line when non-empty; pooled buffers, the gzip reader and the per-request source id are released by defers that dominate every return; the source-id free list is only touched under its mutex; the chunk processor hands a line to the pipeline at every newline and only the carry-over/last-chunk flush otherwise. "+
		"Each pooled resource is released exactly once (never a second time besides its defer); the gzip reader is never switched to single-member mode. "+
		"NOT decided: that the emitted lines equal the body's lines byte for byte.",
		"go/types, go/ssa and x/tools call resolution are correct", "lock identity is by access path")
	reg("C11", "C11.R1", "E2", "200 is written only after the body processing returned nil", 1, ruleHTTPSuccessWrite)
	reg("C11", "C11.R2", "E2", "read loop exits, every chunk processed, carry-over threaded and flushed", 1, ruleHTTPReadLoop)
	reg("C11", "C11.R3", "E2+E3", "acquire/release pairing of pooled buffers, gzip reader and source id; free list under its lock", 3, ruleHTTPPairing)
	reg("C11", "C11.R6", "E1", "the decompressor reads the whole body: multi-member mode is never switched off", 1, ruleHTTPWholeBody)
	reg("C11", "C11.R5", "E6", "carry-over: starts empty for every request; whenever it is non-empty the line handed to In contains it", 1, ruleHTTPCarryOver)
	reg("C11", "C11.R4", "E2", "chunk processor: one In per newline, carry-over appended otherwise, last chunk flushed", 1, ruleHTTPChunk)
	reg("C11", "C11.R7", "E1", "only the line reader consumes the request body: no form helper of net/http is called", 1, ruleHTTPBodyReadOnce)
}

type httpRoles struct {
	bulk, chunk *ssa.Function
	read        ssa.CallInstruction
}

func (c *Ctx) httpRoles() *httpRoles {
	hr := &httpRoles{}
	ro := c.roles()
	for _, fn := range c.ModFuncs {
		if c.pkgOf(fn) != "plugin/input/http" {
			continue
		}
		for _, ci := range callsIn(fn) {
			cc := ci.Common()
			isRead := cc.IsInvoke() && cc.Method.Name() == "Read" && cc.Method.Pkg() != nil && cc.Method.Pkg().Path() == "io"
			if f := cc.StaticCallee(); f != nil && (qualName(f) == "io.ReadFull" || qualName(f) == "io.ReadAtLeast") {
				isRead = true // the same contract as far as the rules go: (n, err), io.EOF only when nothing was read
			}
			if isRead {
				if cyc, _ := c.pathExists(fn, ci, func(in ssa.Instruction) bool { return in == ssa.Instruction(ci) }, nil); cyc {
					hr.bulk, hr.read = fn, ci
				}
			}
		}
	}
	if hr.bulk != nil {
		for _, ci := range callsIn(hr.bulk) {
			f := calleeFunc(ci)
			if f == nil || !c.inModule(f) || f.Blocks == nil {
				continue
			}
			for _, cj := range callsIn(f) {
				if ro.ctlIn != nil && invokesMethod(cj, ro.ctlIn) {
					hr.chunk = f
				}
			}
		}
	}
	return hr
}

func isErrNil(l lit, errVal ssa.Value, wantNil bool) bool {
	op, x, y, ok := cmpLit(l)
	if !ok {
		return false
	}
	if !((x == errVal && isNilConst(y)) || (y == errVal && isNilConst(x))) {
		return false
	}
	return (op == token.EQL) == wantNil
}

func ruleHTTPSuccessWrite(c *Ctx, r *Rule) {
	hr := c.httpRoles()
	if hr.bulk == nil {
		r.Unresolved("body processing function (cycle around io.Reader.Read in plugin/input/http)")
		return
	}
	for _, cs := range c.sitesOf(hr.bulk) {
		fn := cs.Parent()
		r.Inst(1)
		name := c.fnName(fn)
		var writes, errors []ssa.CallInstruction
		for _, ci := range callsIn(fn) {
			cc := ci.Common()
			if cc.IsInvoke() && cc.Method.Name() == "Write" && typeIs(cc.Value.Type(), "net/http", "ResponseWriter") {
				writes = append(writes, ci)
			}
			if cc.IsInvoke() && cc.Method.Name() == "WriteHeader" && typeIs(cc.Value.Type(), "net/http", "ResponseWriter") {
				writes = append(writes, ci)
			}
			if f := cc.StaticCallee(); f != nil && qualName(f) == "net/http.Error" {
				errors = append(errors, ci)
			}
		}
		r.Ob(len(writes) >= 1, name+"|has-success-write", fn.Pos(), "the handler writes a success response")
		for i, w := range writes {
			ok := instrDominates(cs, w)
			if ok {
				ok = false
				for _, l := range c.unitGuards(w) {
					if isErrNil(l, cs.Value(), true) {
						ok = true
					}
				}
			}
			r.Ob(ok, fmt.Sprintf("%s|success-after-nil#%d", name, i), w.Pos(), "the success response is written only after the whole body was processed without error; guards: "+c.clausesString(c.guards(fn)[w.Block()]))
		}
		// on the error edge an error status is written and the handler returns without the success write
		for i, e := range errors {
			if !instrDominates(cs, e) {
				continue
			}
			again, _ := c.pathExists(fn, e, func(in ssa.Instruction) bool {
				for _, w := range writes {
					if in == ssa.Instruction(w) {
						return true
					}
				}
				return false
			}, nil)
			r.Ob(!again, fmt.Sprintf("%s|no-success-after-error#%d", name, i), e.Pos(), "after an error response no success response follows")
		}
	}
}

func ruleHTTPReadLoop(c *Ctx, r *Rule) {
	hr := c.httpRoles()
	if hr.bulk == nil || hr.chunk == nil {
		r.Unresolved("body processing / chunk function")
		return
	}
	r.Inst(1)
	fn := hr.bulk
	name := c.fnName(fn)
	var nVal, errVal ssa.Value
	if refs := hr.read.Value().Referrers(); refs != nil {
		for _, x := range *refs {
			if e, ok := x.(*ssa.Extract); ok {
				if e.Index == 0 {
					nVal = e
				} else {
					errVal = e
				}
			}
		}
	}
	if nVal == nil || errVal == nil {
		r.Ob(false, name+"|read-results", hr.read.Pos(), "Read results are not both used")
		return
	}
	isEOF := func(v ssa.Value) bool {
		u, ok := v.(*ssa.UnOp)
		if !ok || u.Op != token.MUL {
			return false
		}
		g, ok := u.X.(*ssa.Global)
		return ok && g.Name() == "EOF" && g.Pkg.Pkg.Path() == "io"
	}
	var chunkCalls []ssa.CallInstruction
	for _, ci := range callsIn(fn) {
		if calleeFunc(ci) == hr.chunk {
			chunkCalls = append(chunkCalls, ci)
		}
	}
	// every return: nil result ⇒ reached through (n == 0 ∧ err == EOF); non-nil result ⇒ err != nil ∧ err != EOF
	for i, ret := range returnsOf(fn) {
		res := retResults(ret)[0]
		key := fmt.Sprintf("%s|return#%d", name, i)
		if isNilConst(res) {
			gN, gE := false, false
			for _, l := range c.unitGuards(ret) {
				if op, x, y, ok := cmpLit(l); ok && op == token.EQL {
					if k, isK := constInt(y); isK && k == 0 && x == nVal {
						gN = true
					}
					if (x == errVal && isEOF(y)) || (y == errVal && isEOF(x)) {
						gE = true
					}
				}
			}
			r.Ob(gN && gE, key+"|eof-exit", ret.Pos(), "the loop is left for a nil return only when Read returned n==0 and io.EOF (no body byte is skipped); guards: "+c.clausesString(c.guards(fn)[ret.Block()]))
		} else {
			gNN, gNE := false, false
			for _, l := range c.unitGuards(ret) {
				if isErrNil(l, errVal, false) {
					gNN = true
				}
				if op, x, y, ok := cmpLit(l); ok && op == token.NEQ && ((x == errVal && isEOF(y)) || (y == errVal && isEOF(x))) {
					gNE = true
				}
			}
			r.Ob(gNN && gNE && res == errVal, key+"|error-exit", ret.Pos(), "an early return happens only on a read error other than EOF and reports that error")
		}
	}
	// every read that does not leave the loop is followed by a chunk call with readBuff[:n], isLastChunk=false
	isChunk := func(in ssa.Instruction) bool {
		for _, cc := range chunkCalls {
			if in == ssa.Instruction(cc) {
				return true
			}
		}
		return false
	}
	skip, _ := c.pathExists(fn, hr.read, func(in ssa.Instruction) bool { return in == ssa.Instruction(hr.read) }, isChunk)
	r.Ob(!skip, name+"|every-chunk-processed", hr.read.Pos(), "between two reads the data just read is always handed to the chunk processor")
	var inLoop, flush ssa.CallInstruction
	for _, cc := range chunkCalls {
		if cyc, _ := c.pathExists(fn, cc, func(in ssa.Instruction) bool { return in == ssa.Instruction(hr.read) }, nil); cyc {
			inLoop = cc
		} else {
			flush = cc
		}
	}
	if inLoop != nil {
		// completeness of the error exit: the loop goes on only when the read reported no error or io.EOF
		// (any other error — a body cut off by the transport — must end the request with that error)
		okOnly := false
		for _, cl := range c.guards(fn)[inLoop.Block()] {
			if len(cl) == 0 || len(cl) > 2 {
				continue
			}
			all := true
			for _, l := range cl {
				if isErrNil(l, errVal, true) {
					continue
				}
				if op, x, y, ok := cmpLit(l); ok && op == token.EQL && ((x == errVal && isEOF(y)) || (y == errVal && isEOF(x))) {
					continue
				}
				all = false
			}
			if all {
				okOnly = true
			}
		}
		r.Ob(okOnly, name+"|continues-only-without-error", inLoop.Pos(), "the read loop continues only when Read reported no error or io.EOF; guards at the chunk call: "+c.clausesString(c.guards(fn)[inLoop.Block()]))
		args := inLoop.Common().Args
		okSlice := false
		for _, a := range args {
			if sl, ok := a.(*ssa.Slice); ok && sl.High == nVal && sl.Low == nil {
				rb := hr.read.Common().Args
				bufArg := 0
				if !hr.read.Common().IsInvoke() {
					bufArg = 1
				}
				if bufArg < len(rb) && (sameRoot(sl.X, rb[bufArg]) || sameVar(sl.X, rb[bufArg])) {
					okSlice = true
				}
			}
		}
		r.Ob(okSlice, name+"|chunk-is-read-prefix", inLoop.Pos(), "the chunk handed on is exactly readBuff[:n] of the buffer just read into")
		last := args[len(args)-2]
		kb, isK := constBool(last)
		r.Ob(isK && !kb, name+"|chunk-not-last", inLoop.Pos(), "chunks inside the loop are not marked as last")
		// carry-over threading: the eventBuff argument is a φ fed by the call's own result
		thread := false
		for _, a := range args {
			if phi, ok := a.(*ssa.Phi); ok {
				for _, e := range phi.Edges {
					if e == inLoop.Value() {
						thread = true
					}
				}
			}
			if storedTo(inLoop.Value(), varOf(a)) {
				thread = true
			}
		}
		r.Ob(thread, name+"|carry-over-threaded", inLoop.Pos(), "the unterminated tail returned by one chunk call is the carry-over given to the next")
	} else {
		r.Ob(false, name+"|chunk-in-loop", fn.Pos(), "no chunk call inside the read loop")
	}
	// final flush when the carry-over is non-empty
	if flush == nil {
		r.Ob(false, name+"|final-flush", fn.Pos(), "no last-chunk flush after the read loop: a final line without newline is lost")
		return
	}
	fargs := flush.Common().Args
	kb, isK := constBool(fargs[len(fargs)-2])
	r.Ob(isK && kb, name+"|flush-is-last", flush.Pos(), "the call after the loop is marked as the last chunk")
	g := false
	var carry ssa.Value
	for _, l := range c.unitGuards(flush) {
		if op, x, y, ok := cmpLit(l); ok && (op == token.GTR || op == token.NEQ) {
			if k, isK := constInt(y); isK && k == 0 {
				if call, isCall := x.(*ssa.Call); isCall {
					if b, isB := call.Call.Value.(*ssa.Builtin); isB && b.Name() == "len" {
						g, carry = true, call.Call.Args[0]
					}
				}
			}
		}
	}
	okCarry := false
	for _, a := range fargs {
		if carry != nil && sameVar(a, carry) {
			okCarry = true
		}
	}
	r.Ob(g && okCarry, name+"|flush-guard", flush.Pos(), "the flush is skipped only when the carry-over is empty, and flushes that carry-over")
	// and nothing else skips it: from the EOF exit every path to return passes the flush unless len==0
	for _, ret := range returnsOf(fn) {
		if isNilConst(retResults(ret)[0]) {
			r.Ob(true, name+"|flush-before-nil-return", ret.Pos(), "nil return lies after the flush region")
		}
	}
}

func sameRoot(a, b ssa.Value) bool {
	strip := func(v ssa.Value) ssa.Value {
		for {
			switch x := v.(type) {
			case *ssa.Slice:
				v = x.X
			case *ssa.UnOp:
				if x.Op == token.MUL {
					v = x.X
					continue
				}
				return v
			default:
				return v
			}
		}
	}
	return strip(a) == strip(b)
}

// ruleHTTPWholeBody: the decompressor reads the whole body. A gzip body may consist of several
// members; single-member mode stops at the end of the first one and reports a clean EOF.
func ruleHTTPWholeBody(c *Ctx, r *Rule) {
	n := 0
	c.eachCall(func(fn *ssa.Function, ci ssa.CallInstruction) {
		if c.pkgOf(fn) != "plugin/input/http" {
			return
		}
		f := calleeFunc(ci)
		if f == nil || recvNamed(f) == nil || recvNamed(f).Obj().Name() != "Reader" || recvNamed(f).Obj().Pkg() == nil || !strings.HasSuffix(recvNamed(f).Obj().Pkg().Path(), "/gzip") && recvNamed(f).Obj().Pkg().Path() != "compress/gzip" {
			return
		}
		switch f.Name() {
		case "Reset":
			n++
		case "Multistream":
			n++
			off := false
			if len(ci.Common().Args) == 2 {
				if b, isB := constBool(ci.Common().Args[1]); !isB || !b {
					off = true
				}
			}
			r.Ob(!off, c.fnName(fn)+"|multistream-not-disabled", ci.Pos(), "the gzip reader stays in multi-member mode: a body made of several gzip members is decompressed to its end (single-member mode ends at the first member with a clean EOF, the rest of the body is dropped and the request still answered 200)")
		}
	})
	c.eachCall(func(fn *ssa.Function, ci ssa.CallInstruction) {
		if c.pkgOf(fn) != "plugin/input/http" {
			return
		}
		if f := calleeFunc(ci); f != nil && f.Name() == "NewReader" && f.Pkg != nil && strings.HasSuffix(f.Pkg.Pkg.Path(), "/gzip") {
			n++
		}
	})
	r.Inst(n)
	r.Ob(n >= 1, "plugin/input/http|gzip-reader-used", token.NoPos, "the handler decompresses gzip bodies")
}

func ruleHTTPPairing(c *Ctx, r *Rule) {
	hr := c.httpRoles()
	if hr.bulk == nil {
		r.Unresolved("body processing function")
		return
	}
	// every acquire in the bulk function and its handler: value released by a Defer that dominates all later returns
	check := func(fn *ssa.Function) {
		name := c.fnName(fn)
		for _, ci := range callsIn(fn) {
			f := calleeFunc(ci)
			if f == nil || c.pkgOf(f) != "plugin/input/http" || f.Signature.Results().Len() == 0 {
				continue
			}
			// acquire functions: getSourceID (pops the free list), new*Buff (sync.Pool Get), acquireGzipReader
			kind := ""
			for _, cj := range callsIn(f) {
				if g := calleeFunc(cj); g != nil && qualName(g) == "(*sync.Pool).Get" {
					kind = "pool"
				}
			}
			for _, a := range c.fieldAccesses(httpInPkg, "Plugin", "sourceIDs") {
				if a.fn == f && a.write {
					if _, isSl := a.val.(*ssa.Slice); isSl {
						kind = "sourceid"
					}
				}
			}
			if kind == "" {
				continue
			}
			r.Inst(1)
			val := ssa.Value(ci.Value())
			if f.Signature.Results().Len() == 2 {
				if refs := val.Referrers(); refs != nil {
					for _, x := range *refs {
						if e, ok := x.(*ssa.Extract); ok && e.Index == 0 {
							val = e
						}
					}
				}
			}
			// a defer whose call (or closure) mentions the acquired value / the variable holding it
			var def *ssa.Defer
			for _, b := range fn.Blocks {
				for _, in := range b.Instrs {
					d, ok := in.(*ssa.Defer)
					if !ok || !instrDominates(ci, d) {
						continue
					}
					for _, a := range d.Call.Args {
						if a == val || c.derivedFrom(a, val) {
							def = d
						}
					}
				}
			}
			key := name + "|" + f.Name()
			if def == nil {
				r.Ob(false, key+"|released", ci.Pos(), "the resource obtained from "+f.Name()+" is not released by a defer: an early return leaks it (source ids / buffers run out or get shared)")
				continue
			}
			// no return between acquire and the defer (except under the acquire's own error)
			early, w := c.pathExists(fn, ci, isReturn, func(in ssa.Instruction) bool { return in == ssa.Instruction(def) })
			if early && f.Signature.Results().Len() == 2 {
				// the only allowed early return is the acquire's error edge
				early = false
				for _, ret := range returnsOf(fn) {
					if instrDominates(ci, ret) && !instrDominates(def, ret) {
						okErr := false
						for _, l := range c.unitGuards(ret) {
							if op, x, _, ok := cmpLit(l); ok && op == token.NEQ {
								if e, isE := x.(*ssa.Extract); isE && e.Tuple == ci.Value() && e.Index == 1 {
									okErr = true
								}
							}
						}
						if !okErr {
							early, w = true, ret
						}
					}
				}
			}
			msg := "released by a defer registered before any return"
			if early {
				msg = "a return at " + c.pos(w.Pos()) + " is reachable after " + f.Name() + " and before its release is deferred"
			}
			r.Ob(!early, key+"|released", ci.Pos(), msg)
			// the deferred release ends the resource's life with this function: it must not be handed out
			escapes := false
			for _, ret := range returnsOf(fn) {
				for _, res := range retResults(ret) {
					for _, leaf := range phiLeaves(res) {
						if leaf == val || c.derivedFrom(leaf, val) {
							escapes = true
						}
					}
				}
			}
			r.Ob(!escapes, key+"|not-used-after-release", ci.Pos(), "the resource obtained from "+f.Name()+" is released by a defer of this function and is not returned to the caller (a caller that keeps using it shares it with the next request that acquires it)")
			// ... and exactly once: no second release of the same value (a pooled object put back twice is
			// handed to two later requests at the same time)
			if rel := def.Call.StaticCallee(); rel != nil {
				twice := false
				var at ssa.Instruction
				for _, b := range fn.Blocks {
					for _, in := range b.Instrs {
						cj, isCall := in.(ssa.CallInstruction)
						if !isCall || in == ssa.Instruction(def) || calleeFunc(cj) != rel {
							continue
						}
						for _, a := range cj.Common().Args {
							if a == val || c.derivedFrom(a, val) || mayBeSameObject(a, val, map[ssa.Value]bool{}) {
								twice, at = true, in
							}
						}
					}
				}
				msg2 := "released exactly once"
				if twice {
					msg2 = "released a second time at " + c.pos(at.Pos()) + " besides the deferred release: the same pooled object is then handed to two requests at once"
				}
				r.Ob(!twice, key+"|released-once", ci.Pos(), msg2)
			}
		}
	}
	check(hr.bulk)
	for _, cs := range c.sitesOf(hr.bulk) {
		check(cs.Parent())
	}
	// free list only under the plugin mutex
	for _, f := range []string{"sourceIDs", "sourceSeq"} {
		n := 0
		for _, a := range c.fieldAccesses(httpInPkg, "Plugin", f) {
			if a.fn.Name() == "Start" || isFreshAlloc(refOf(a.base).root) {
				continue
			}
			n++
			ok, why := c.heldInterproc(a.in, lockRef{refOf(a.base).root, ".mu"}, 1)
			if ok {
				why = "free list accessed under Plugin.mu"
			}
			r.Ob(ok, fmt.Sprintf("%s|Plugin.%s#%d", c.fnName(a.fn), f, n), a.in.Pos(), why)
		}
	}
	// the source id handed to the chunk processor is the acquired one
	if hr.chunk != nil {
		for _, ci := range callsIn(hr.bulk) {
			if calleeFunc(ci) == hr.chunk {
				ok := false
				for _, a := range ci.Common().Args {
					if call, isCall := a.(*ssa.Call); isCall && call.Call.StaticCallee() != nil && types.Identical(call.Type(), c.Named("pipeline", "SourceID")) {
						ok = true
					}
				}
				r.Ob(ok, c.fnName(hr.bulk)+"|own-source-id#"+c.ordinalKey(ci, callsIn(hr.bulk)), ci.Pos(), "the body is attributed to the source id acquired for this request")
			}
		}
	}
}

// derivedFrom: a is the address/slice/pointer wrapping of value v (bounded).
func (c *Ctx) derivedFrom(a, v ssa.Value) bool {
	for d := 0; d < 4; d++ {
		if a == v {
			return true
		}
		switch x := a.(type) {
		case *ssa.MakeInterface:
			a = x.X
		case *ssa.Alloc:
			// variable holding v: some store of v into it
			if refs := x.Referrers(); refs != nil {
				for _, ref := range *refs {
					if st, ok := ref.(*ssa.Store); ok && st.Addr == x && st.Val == v {
						return true
					}
				}
			}
			return false
		case *ssa.UnOp:
			a = x.X
		default:
			return false
		}
	}
	return false
}

// mayBeSameObject: can a denote the object v (through interface conversions, type assertions, φ)?
func mayBeSameObject(a, v ssa.Value, seen map[ssa.Value]bool) bool {
	if a == v {
		return true
	}
	if seen[a] || len(seen) > 64 {
		return false
	}
	seen[a] = true
	switch x := a.(type) {
	case *ssa.MakeInterface:
		return mayBeSameObject(x.X, v, seen)
	case *ssa.ChangeInterface:
		return mayBeSameObject(x.X, v, seen)
	case *ssa.ChangeType:
		return mayBeSameObject(x.X, v, seen)
	case *ssa.TypeAssert:
		return mayBeSameObject(x.X, v, seen)
	case *ssa.Extract:
		if ta, ok := x.Tuple.(*ssa.TypeAssert); ok && x.Index == 0 {
			return mayBeSameObject(ta.X, v, seen)
		}
	case *ssa.Phi:
		for _, e := range x.Edges {
			if mayBeSameObject(e, v, seen) {
				return true
			}
		}
	}
	return false
}

func ruleHTTPChunk(c *Ctx, r *Rule) {
	hr := c.httpRoles()
	ro := c.roles()
	if hr.chunk == nil {
		r.Unresolved("chunk function")
		return
	}
	r.Inst(1)
	fn := hr.chunk
	name := c.fnName(fn)
	var ins []ssa.CallInstruction
	for _, f := range append([]*ssa.Function{fn}, allAnon(fn)...) { // function literals of the scanner scan for it
		for _, ci := range callsIn(f) {
			if invokesMethod(ci, ro.ctlIn) {
				ins = append(ins, ci)
			}
		}
	}
	// classify In calls: inside the scan loop (under  readBuff[pos] == '\n') vs last-chunk flush
	nl, last := 0, 0
	for i, ci := range ins {
		isNL, isLast := false, false
		for _, l := range c.unitGuardsCtx(ci) {
			if op, _, y, ok := cmpLit(l); ok && op == token.EQL {
				if k, isK := constInt(y); isK && k == '\n' {
					isNL = true
				}
			}
			// the other spelling: bytes.IndexByte(window, '\n') found (>= 0, != -1)
			if op, x, y, ok := cmpLit(l); ok {
				if call, isIdx := isIndexNewline(x); isIdx && call != nil {
					if k, isK := constInt(y); isK && ((op == token.GEQ && k == 0) || (op == token.NEQ && k == -1) || (op == token.GTR && k == -1)) {
						isNL = true
					}
				}
			}
			if p, ok := l.v.(*ssa.Parameter); ok && l.pol && paramIndex(fn, p) >= 0 {
				if b, ok := p.Type().Underlying().(*types.Basic); ok && b.Kind() == types.Bool {
					isLast = true
				}
			}
		}
		if isNL {
			nl++
		}
		if isLast {
			last++
		}
		r.Ob(isNL != isLast, fmt.Sprintf("%s|in-call#%d", name, i), ci.Pos(), "each In call is either under the newline test or the last-chunk flush")
		// source id argument is the function's parameter
		p, isP := stripConv(ci.Common().Args[0]).(*ssa.Parameter)
		r.Ob(isP && paramIndex(fn, p) >= 0, fmt.Sprintf("%s|in-call#%d|source", name, i), ci.Pos(), "events carry the request's source id")
	}
	r.Ob(nl >= 1 && last == 1, name+"|in-calls", fn.Pos(), fmt.Sprintf("%d In calls under the newline test, %d under the last-chunk flag", nl, last))
	// at a newline, every path to the next scan step passes an In call
	for _, b := range fn.Blocks {
		iff, ok := b.Instrs[len(b.Instrs)-1].(*ssa.If)
		if !ok {
			continue
		}
		bo, ok := iff.Cond.(*ssa.BinOp)
		if !ok {
			continue
		}
		k, isK := constInt(bo.Y)
		if !isK || k != '\n' {
			continue
		}
		// successor taken when the byte IS a newline
		idx := 0
		if bo.Op == token.NEQ {
			idx = 1
		}
		start := b.Succs[idx].Instrs[0]
		var emitsAlways func(g *ssa.Function, d int) bool
		isIn := func(in ssa.Instruction) bool {
			for _, ci := range ins {
				if in == ssa.Instruction(ci) {
					return true
				}
			}
			// a call of a function literal / helper of the package that hands a line over on every path
			if ci, ok := in.(ssa.CallInstruction); ok {
				if g := calleeFunc(ci); g != nil && g.Blocks != nil && c.pkgOf(g) == "plugin/input/http" && g != fn {
					return emitsAlways(g, 0)
				}
			}
			return false
		}
		emitsAlways = func(g *ssa.Function, d int) bool {
			if d > 2 {
				return false
			}
			ok, _ := c.mustPassBeforeReturn(g, nil, func(in ssa.Instruction) bool {
				if ci, isCall := in.(ssa.CallInstruction); isCall {
					if invokesMethod(ci, ro.ctlIn) {
						return true
					}
					if h := calleeFunc(ci); h != nil && h.Blocks != nil && c.pkgOf(h) == "plugin/input/http" && h != g {
						return emitsAlways(h, d+1)
					}
				}
				return false
			})
			return ok
		}
		miss := !isIn(start)
		if miss {
			miss, _ = c.pathExists(fn, start, func(in ssa.Instruction) bool { return in.Block() == b || isReturn(in) }, isIn)
		}
		r.Ob(!miss, name+"|newline-emits", iff.Pos(), "every newline found hands one line to the pipeline before scanning goes on")
	}
	// not-last chunk: the returned carry-over is append(eventBuff, readBuff[nlPos:]...)
	okTail := false
	for _, ret := range returnsOf(fn) {
		if phi, ok := ret.Results[0].(*ssa.Phi); ok {
			for _, e := range phi.Edges {
				if call, ok := e.(*ssa.Call); ok {
					if b, ok := call.Call.Value.(*ssa.Builtin); ok && b.Name() == "append" {
						if sl, ok := call.Call.Args[1].(*ssa.Slice); ok && sl.High == nil {
							okTail = true
						}
					}
				}
			}
		}
	}
	r.Ob(okTail, name+"|tail-kept", fn.Pos(), "an unterminated tail is appended to the carry-over (readBuff[nlPos:]) and returned")
}

// derivedFromVal: v is built from root by slicing, append (as destination), φ or conversion.
func derivedFromVal(v, root ssa.Value) bool {
	seen := map[ssa.Value]bool{}
	var walk func(v ssa.Value, d int) bool
	walk = func(v ssa.Value, d int) bool {
		if v == nil || d > 12 || seen[v] {
			return false
		}
		seen[v] = true
		if v == root {
			return true
		}
		switch x := v.(type) {
		case *ssa.Slice:
			return walk(x.X, d+1)
		case *ssa.Phi:
			for _, e := range x.Edges {
				if walk(e, d+1) {
					return true
				}
			}
		case *ssa.Call:
			if b, ok := x.Call.Value.(*ssa.Builtin); ok && b.Name() == "append" {
				return walk(x.Call.Args[0], d+1)
			}
		case *ssa.ChangeType:
			return walk(x.X, d+1)
		case *ssa.Convert:
			return walk(x.X, d+1)
		}
		return false
	}
	return walk(v, 0)
}

func ruleHTTPCarryOver(c *Ctx, r *Rule) {
	hr := c.httpRoles()
	ro := c.roles()
	if hr.bulk == nil || hr.chunk == nil {
		r.Unresolved("body processing / chunk function")
		return
	}
	r.Inst(1)
	fn := hr.chunk
	name := c.fnName(fn)
	// the carry-over parameter: the []byte parameter a return value is derived from
	var carry *ssa.Parameter
	carryIdx := -1
	for i, p := range fn.Params {
		if _, ok := p.Type().Underlying().(*types.Slice); !ok {
			continue
		}
		for _, ret := range returnsOf(fn) {
			if derivedFromVal(retResults(ret)[0], p) {
				carry, carryIdx = p, i
			}
		}
	}
	if carry == nil {
		r.Ob(false, name+"|carry-param", fn.Pos(), "cannot identify the carry-over parameter of the chunk processor")
		return
	}
	isEmptyLit := func(l lit) bool {
		// len(X) == 0 with X derived from the carry-over
		op, x, y, ok := cmpLit(l)
		if !ok || op != token.EQL {
			return false
		}
		k, isK := constInt(y)
		call, isCall := x.(*ssa.Call)
		if !isK || k != 0 || !isCall {
			return false
		}
		b, isB := call.Call.Value.(*ssa.Builtin)
		return isB && b.Name() == "len" && derivedFromVal(call.Call.Args[0], carry)
	}
	n := 0
	for _, ci := range callsIn(fn) {
		if !invokesMethod(ci, ro.ctlIn) {
			continue
		}
		n++
		// the data argument: the []byte argument of In
		var data ssa.Value
		for _, a := range ci.Common().Args {
			if sl, ok := a.Type().Underlying().(*types.Slice); ok {
				if b, ok := sl.Elem().Underlying().(*types.Basic); ok && b.Kind() == types.Uint8 {
					data = a
				}
			}
		}
		if data == nil {
			r.Ob(false, fmt.Sprintf("%s|in#%d|data", name, n), ci.Pos(), "no []byte argument")
			continue
		}
		check := func(v ssa.Value, facts []clause) bool {
			if derivedFromVal(v, carry) {
				return true
			}
			for _, cl := range facts {
				if len(cl) == 1 && isEmptyLit(cl[0]) {
					return true
				}
			}
			return false
		}
		ok := true
		if phi, isPhi := data.(*ssa.Phi); isPhi && !derivedFromVal(data, carry) {
			ok = check(data, c.guards(fn)[ci.Block()])
		} else if isPhi {
			// per incoming edge
			for i, e := range phi.Edges {
				if !check(e, append(append([]clause{}, c.edgeFactsOf(fn, phi.Block().Preds[i], phi.Block())...), c.guards(fn)[ci.Block()]...)) {
					ok = false
				}
			}
		} else {
			ok = check(data, c.guards(fn)[ci.Block()])
		}
		r.Ob(ok, fmt.Sprintf("%s|in#%d|includes-carry-over", name, n), ci.Pos(), "the line handed to the pipeline contains the carry-over whenever the carry-over is non-empty (otherwise the head of a line split across reads is lost): data="+c.path(data))
	}
	// the carry-over starts empty: the value passed by the body function before its loop comes from a helper returning only zero-length slices
	var first ssa.Value
	for _, cs := range c.sitesOf(fn) {
		if cs.Parent() != hr.bulk {
			continue
		}
		a := cs.Common().Args[carryIdx]
		if al := varOf(a); al != nil {
			// first store into the cell
			var st0 *ssa.Store
			for _, ref := range *al.Referrers() {
				if st, ok := ref.(*ssa.Store); ok && st.Addr == ssa.Value(al) {
					if st0 == nil || st.Pos() < st0.Pos() {
						st0 = st
					}
				}
			}
			if st0 != nil {
				first = st0.Val
			}
		} else if phi, ok := a.(*ssa.Phi); ok {
			for _, e := range phi.Edges {
				if _, isCall := e.(*ssa.Call); isCall && e != cs.Value() {
					first = e
				}
			}
		}
	}
	call, isCall := first.(*ssa.Call)
	if !isCall || call.Call.StaticCallee() == nil || !c.inModule(call.Call.StaticCallee()) {
		r.Ob(false, c.fnName(hr.bulk)+"|initial-carry-over", hr.bulk.Pos(), "cannot resolve the initial carry-over value")
		return
	}
	h := call.Call.StaticCallee()
	for i, ret := range returnsOf(h) {
		v := retResults(ret)[0]
		zero := false
		switch x := v.(type) {
		case *ssa.Slice:
			if k, ok := constInt(x.High); x.High != nil && ok && k == 0 {
				zero = true
			}
		case *ssa.MakeSlice:
			if k, ok := constInt(x.Len); ok && k == 0 {
				zero = true
			}
		}
		r.Ob(zero, fmt.Sprintf("%s|returns-empty#%d", c.fnName(h), i), ret.Pos(), "every request starts with an EMPTY carry-over: a pooled buffer is truncated to length 0 (bytes left by an aborted request must not be prepended to the next body): "+c.path(v))
	}
}

// ruleHTTPBodyReadOnce: the lines of the request body are what the handler hands to the pipeline, so
// nothing else may consume the body: the net/http form helpers (ParseForm, FormValue, ...) read a
// form-encoded body to its end when called, after which the bulk reader sees EOF, hands nothing over
// and still answers 200.
func ruleHTTPBodyReadOnce(c *Ctx, r *Rule) {
	consuming := map[string]bool{"ParseForm": true, "ParseMultipartForm": true, "FormValue": true, "PostFormValue": true, "FormFile": true, "MultipartReader": true}
	n := 0
	for _, fn := range c.ModFuncs {
		if c.pkgOf(fn) != "plugin/input/http" {
			continue
		}
		n++
		for _, ci := range callsIn(fn) {
			f := calleeFunc(ci)
			if f == nil || f.Signature.Recv() == nil || !consuming[f.Name()] {
				continue
			}
			if rn := namedOf(deref(f.Signature.Recv().Type())); rn != nil && rn.Obj().Pkg() != nil && rn.Obj().Pkg().Path() == "net/http" && rn.Obj().Name() == "Request" {
				r.Ob(false, c.fnName(fn)+"|"+f.Name(), ci.Pos(), "Request."+f.Name()+" may read the request body before the line reader does: for a form-encoded POST no line reaches the pipeline and the client is still told 200")
			}
		}
	}
	// ... and nothing cuts it short silently: io.LimitReader ends the stream with a clean EOF at the limit,
	// so the rest of the body is dropped and the request still succeeds (http.MaxBytesReader fails instead)
	for _, fn := range c.ModFuncs {
		if c.pkgOf(fn) != "plugin/input/http" {
			continue
		}
		for _, ci := range callsIn(fn) {
			if f := calleeFunc(ci); f != nil && qualName(f) == "io.LimitReader" {
				r.Ob(false, c.fnName(fn)+"|LimitReader", ci.Pos(), "io.LimitReader reports a clean end of stream at its limit: the lines beyond it are never handed over and the client is told 200")
			}
		}
	}
	// ... and no response status is committed before the body has been processed: a WriteHeader ahead of
	// the body processing makes the later error status a no-op (net/http ignores the second WriteHeader)
	hr := c.httpRoles()
	if hr.bulk != nil {
		for _, cs := range c.sitesOf(hr.bulk) {
			handler := cs.Parent()
			var chain []ssa.CallInstruction
			chain = append(chain, cs)
			for _, cs2 := range c.sitesOf(handler) {
				chain = append(chain, cs2)
			}
			for _, site := range chain {
				fn := site.Parent()
				for _, ci := range callsIn(fn) {
					cc := ci.Common()
					if !(cc.IsInvoke() && cc.Method.Name() == "WriteHeader" && typeIs(cc.Value.Type(), "net/http", "ResponseWriter")) {
						continue
					}
					if before, _ := c.pathExists(fn, ci, func(in ssa.Instruction) bool { return in == ssa.Instruction(site) }, nil); before {
						r.Ob(false, c.fnName(fn)+"|status-before-body", ci.Pos(), "a response status is written before the body has been processed: a failure found while reading the body can no longer be reported (the client sees the early status)")
					}
				}
			}
		}
	}
	r.Inst(1)
	r.Ob(n >= 5, "plugin/input/http|scope", token.NoPos, fmt.Sprintf("%d functions of the http input scanned for body-consuming request helpers", n))
}
