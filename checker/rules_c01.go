package main

import (
	"fmt"
	"go/token"
	"go/types"
	"sort"
	"strings"

	"golang.org/x/tools/go/ssa"
)

const pipelinePkg = modulePath + "/pipeline"

func init() {
	explain("C01", "Static necessary conditions of commit-frontier safety, each decided exhaustively over /repo's type-checked source and go/ssa form: "+
		"who may notify the input and with which flag (all call sites), send-before-commit on every CFG path of the batch worker, commit only inside the lock-held sequenced region "+
		"(wait loop on commitSeq == batch.seq, +1 under the lock, broadcast before release), retry loop exits only on success or exhaustion, stream detach only when away == committed, "+
		"single commit sequencer per Router; the compare-and-advance of a stream's committed sequence is one critical section; an accepted event cannot vanish from its stream queue (FIFO link shape); the flag that lets a batch bypass the send accumulates over the whole batch; batches are filled in arrival order and committed front to back; an exhausted batch reaches the commit only through the error callback / dead-queue hand-over. NOT decided: that a concrete schedule respects the frontier (the behaviour itself).",
		"go/types, go/ssa and x/tools call resolution are correct", "lock identity is by access path (obj.mu style)", "sync.Once.Do and Batch.ForEach call their argument synchronously")
	reg("C01", "C01.R1", "E1+E2", "exactly one input-notification site, control-dependent on a bool parameter", 1, ruleNotifySite)
	reg("C01", "C01.R2", "E1", "every caller of the finalizer passes constant false for notifyInput, except the output acknowledgement", 4, ruleNotifyCallers)
	reg("C01", "C01.R3", "E1", "output acknowledgements come only from the batcher's sequenced commit or from batcher-less Out(event)", 3, ruleAckSites)
	reg("C01", "C01.R4", "E2", "batch worker: the commit is reachable only after OutFn (or the no-iterable-events edge)", 1, ruleSendBeforeCommit)
	reg("C01", "C01.R5", "E2+E3", "sequenced commit region: wait loop, +1 under lock, broadcast before release, seq assigned under the fill lock", 1, ruleSequencedRegion)
	reg("C01", "C01.R6", "E2", "retry loop returns only on success or on exhaustion after the error callback", 1, ruleRetryLoopExits)
	reg("C01", "C01.R7", "E2+E3", "stream detach only when awaySeq == commitSeq, under the stream lock", 1, ruleDetachGuard)
	reg("C01", "C01.R8", "E1", "single commit sequencer: OutputPlugin.Out is invoked on one Router field only", 1, ruleSingleSequencer)
	reg("C01", "C01.R9", "E2", "stream.commit ignores only older sequence ids and detaches only while detaching", 1, ruleStreamCommit)
	reg("C01", "C01.R10", "E2+E3", "an accepted event cannot vanish from its stream queue: FIFO link shape, no overwrite of a non-empty queue (same rule as C02.R7)", 1, ruleStreamPutFIFO)
	reg("C01", "C01.R11", "E2", "the flag that lets a batch bypass the send accumulates over the whole batch; ForEach visits every deliverable event (same rule as C19.R5)", 1, ruleForEachShape)
	reg("C01", "C01.R12", "E1+E2", "batches are filled in arrival order and committed front to back (same rule as C02.R3)", 1, ruleFIFOBatchFill)
	reg("C01", "C01.R13", "E2", "an exhausted batch reaches the commit only through the error callback / dead-queue hand-over (same rule as C09.R2)", 1, ruleExhaustionPath)
	reg("C01", "C01.R14", "E2", "Propagate clears the holder's busy mark before the flushed event re-enters the chain: the processor cannot take the next event of the stream while the flushed one is still on its way (same rule as C02.R8)", 1, rulePropagateResetsBusy)
	reg("C01", "C01.R15", "E2", "a recycled event is a regular event again: a former split parent is not skipped by the send and then committed (same rule as C05.R8)", 2, ruleRecycledEventIsRegular)
}

// notifyFn returns the function containing the single input-notification site and the
// index (in fn.Params) of the bool parameter guarding it.
func (c *Ctx) notifyFn() (*ssa.Function, int, ssa.CallInstruction) {
	r := c.roles()
	if len(r.notifySites) != 1 {
		return nil, -1, nil
	}
	site := r.notifySites[0]
	fn := site.Parent()
	for _, l := range c.unitGuards(site) {
		if p, ok := l.v.(*ssa.Parameter); ok && l.pol {
			if b, ok := p.Type().Underlying().(*types.Basic); ok && b.Kind() == types.Bool {
				return fn, paramIndex(fn, p), site
			}
		}
	}
	return fn, -1, site
}

func ruleNotifySite(c *Ctx, r *Rule) {
	ro := c.roles()
	if ro.inCommit == nil {
		r.Unresolved("pipeline.InputPlugin.Commit")
		return
	}
	r.Inst(len(ro.notifySites))
	for _, s := range ro.notifySites {
		r.Note("site %s in %s", c.pos(s.Pos()), c.fnName(s.Parent()))
	}
	if len(ro.notifySites) != 1 {
		for _, s := range ro.notifySites {
			r.Ob(false, "site|"+c.fnName(s.Parent()), s.Pos(), fmt.Sprintf("InputPlugin.Commit is invoked from %d sites (expected exactly one finalizer)", len(ro.notifySites)))
		}
		return
	}
	fn, idx, site := c.notifyFn()
	r.Ob(idx >= 0, "guard|"+c.fnName(fn), site.Pos(),
		"input notification must be control-dependent on a bool parameter being true; guards: "+c.clausesString(c.guards(fn)[site.Block()]))
	// the argument of the notification is the function's own event parameter
	args := site.Common().Args
	okArg := false
	if len(args) > 0 {
		if p, ok := args[len(args)-1].(*ssa.Parameter); ok && paramIndex(fn, p) >= 0 {
			okArg = true
		}
	}
	r.Ob(okArg, "arg|"+c.fnName(fn), site.Pos(), "the event handed to InputPlugin.Commit is the finalizer's own event parameter")
}

// finalizerCalls: all calls of the notify function: static, and dynamic through values of the
// named func types its method value flows into.
func (c *Ctx) finalizerCalls() (fn *ssa.Function, idx int, calls []ssa.CallInstruction, dyn map[ssa.CallInstruction]bool) {
	fn, idx, _ = c.notifyFn()
	dyn = map[ssa.CallInstruction]bool{}
	if fn == nil {
		return
	}
	calls = append(calls, c.sitesOf(fn)...)
	for _, ci := range c.dynamicCallsOf(fn) {
		calls = append(calls, ci)
		dyn[ci] = true
	}
	return
}

// dynamicCallsOf follows the function value of fn (method value, closure) through
// arguments, parameters and struct fields and returns the dynamic calls that may invoke it.
func (c *Ctx) dynamicCallsOf(fn *ssa.Function) []ssa.CallInstruction {
	type fkey struct {
		owner *types.Named
		field string
	}
	holders := map[ssa.Value]bool{}
	fields := map[fkey]bool{}
	var work []ssa.Value
	add := func(v ssa.Value) {
		if v != nil && !holders[v] {
			holders[v] = true
			work = append(work, v)
		}
	}
	// seeds: every value that is the function / a closure over it
	for _, f := range c.ModFuncs {
		for _, b := range f.Blocks {
			for _, in := range b.Instrs {
				for _, op := range in.Operands(nil) {
					if *op != nil && isFuncValueOf(*op, fn) {
						add(*op)
					}
				}
			}
		}
	}
	var out []ssa.CallInstruction
	seenCall := map[ssa.CallInstruction]bool{}
	for len(work) > 0 {
		v := work[len(work)-1]
		work = work[:len(work)-1]
		refs := v.Referrers()
		if refs == nil {
			continue
		}
		for _, in := range *refs {
			switch u := in.(type) {
			case ssa.CallInstruction:
				cc := u.Common()
				if cc.Value == v && !cc.IsInvoke() {
					if !seenCall[u] {
						seenCall[u] = true
						out = append(out, u)
					}
					continue
				}
				if callee := cc.StaticCallee(); callee != nil && callee.Blocks != nil && c.inModule(callee) {
					for i, a := range cc.Args {
						if a == v && i < len(callee.Params) {
							add(callee.Params[i])
						}
					}
				}
			case *ssa.Store:
				if u.Val == v {
					if o, f, _, ok := fieldOf(u.Addr); ok && o != nil {
						fields[fkey{o, f}] = true
					}
				}
			case *ssa.ChangeType:
				add(u)
			case *ssa.MakeInterface:
				add(u)
			case *ssa.Phi:
				add(u)
			case *ssa.MakeClosure:
				// captured: the free variable inside the closure holds it
				if cf, ok := u.Fn.(*ssa.Function); ok {
					for i, bnd := range u.Bindings {
						if bnd == v && i < len(cf.FreeVars) {
							add(cf.FreeVars[i])
						}
					}
				}
			}
		}
	}
	if len(fields) > 0 {
		c.eachCall(func(f *ssa.Function, ci ssa.CallInstruction) {
			if o, fl, _, ok := callThroughField(ci); ok && o != nil && fields[fkey{o, fl}] && !seenCall[ci] {
				seenCall[ci] = true
				out = append(out, ci)
			}
		})
	}
	return out
}

func isFuncValueOf(v ssa.Value, fn *ssa.Function) bool {
	v = stripConv(v)
	if mc, ok := v.(*ssa.MakeClosure); ok {
		v = mc.Fn
	}
	f, ok := v.(*ssa.Function)
	return ok && (f == fn || isBoundOrThunkOf(f, fn))
}

func ruleNotifyCallers(c *Ctx, r *Rule) {
	ro := c.roles()
	fn, idx, calls, dyn := c.finalizerCalls()
	if fn == nil || idx < 0 {
		r.Unresolved("finalizer (function containing the single InputPlugin.Commit site) or its bool parameter")
		return
	}
	r.Inst(len(calls))
	trueCallers := 0
	for _, ci := range calls {
		args := ci.Common().Args
		ai := idx
		if dyn[ci] && fn.Signature.Recv() != nil {
			ai = idx - 1
		}
		caller := ci.Parent()
		construct := c.fnName(caller) + "|" + c.ordinalKey(ci, calls)
		if ai < 0 || ai >= len(args) {
			r.Ob(false, construct, ci.Pos(), "cannot map the notifyInput argument")
			continue
		}
		if c.isImplOf(caller, ro.OutputCtl, ro.outCommit) {
			trueCallers++
			r.Ob(true, construct, ci.Pos(), "output acknowledgement may notify the input ("+c.path(args[ai])+")")
			continue
		}
		b, isConst := constBool(args[ai])
		r.Ob(isConst && !b, construct, ci.Pos(),
			fmt.Sprintf("%s calls the finalizer with notifyInput=%s: only the output acknowledgement (OutputPluginController.Commit) may move the input offset", c.fnName(caller), c.path(args[ai])))
	}
	r.Ob(trueCallers >= 1, "ack-caller", fn.Pos(), "the OutputPluginController.Commit implementation calls the finalizer")
}

// ordinalKey gives a stable per-caller ordinal ("#0", "#1") for call sites inside one function,
// ordered by position, so that keys carry no line numbers.
func (c *Ctx) ordinalKey(ci ssa.CallInstruction, all []ssa.CallInstruction) string {
	var same []ssa.CallInstruction
	for _, x := range all {
		if x.Parent() == ci.Parent() {
			same = append(same, x)
		}
	}
	sort.Slice(same, func(i, j int) bool { return same[i].Pos() < same[j].Pos() })
	for i, x := range same {
		if x == ci {
			return fmt.Sprintf("#%d", i)
		}
	}
	return "#?"
}

// ownsBatcher: the struct type has a field whose type is *Batcher / *RetriableBatcher.
func ownsBatcher(n *types.Named) bool {
	st, ok := n.Underlying().(*types.Struct)
	if !ok {
		return false
	}
	for i := 0; i < st.NumFields(); i++ {
		if typeIs(st.Field(i).Type(), pipelinePkg, "Batcher") || typeIs(st.Field(i).Type(), pipelinePkg, "RetriableBatcher") {
			return true
		}
	}
	return false
}

func ruleAckSites(c *Ctx, r *Rule) {
	ro := c.roles()
	if ro.outCommit == nil {
		r.Unresolved("pipeline.OutputPluginController.Commit")
		return
	}
	r.Inst(len(ro.ackSites))
	for _, s := range ro.ackSites {
		fn := s.Parent()
		rn := recvNamed(fn)
		construct := c.fnName(fn)
		switch {
		case rn != nil && inPkg(rn, pipelinePkg) && rn.Obj().Name() == "Batcher":
			r.Ob(true, construct, s.Pos(), "acknowledgement inside the batcher (sequencing checked by R5)")
		case c.isImplOf(fn, ro.OutputPlugin, ro.outOut) && rn != nil && !ownsBatcher(rn):
			args := s.Common().Args
			p, isParam := args[len(args)-1].(*ssa.Parameter)
			r.Ob(isParam && paramIndex(fn, p) >= 0, construct, s.Pos(), "batcher-less output acknowledges exactly the event it was given")
		default:
			r.Ob(false, construct, s.Pos(), "OutputPluginController.Commit called outside the batcher's sequenced commit and outside a batcher-less Out(event): an event could be acknowledged before / without its send")
		}
	}
}

// batcherFns resolves the worker (ranges over a chan *Batch field), the commit function
// (contains the ack site inside Batcher) and the sender (sends on a chan *Batch field).
type batcherRoles struct {
	worker, commit, sender *ssa.Function
	recv                   ssa.Instruction // the channel receive in the worker
	ack                    ssa.CallInstruction
	send                   *ssa.Send
	fullField, freeField   string
}

func isChanOfBatch(t types.Type) bool {
	ch, ok := t.Underlying().(*types.Chan)
	return ok && typeIs(ch.Elem(), pipelinePkg, "Batch")
}

func (c *Ctx) batcher() *batcherRoles {
	if c.br != nil {
		return c.br
	}
	br := &batcherRoles{}
	c.br = br
	ro := c.roles()
	for _, s := range ro.ackSites {
		if rn := recvNamed(s.Parent()); rn != nil && inPkg(rn, pipelinePkg) && rn.Obj().Name() == "Batcher" {
			br.commit, br.ack = s.Parent(), s
		}
	}
	for _, fn := range c.ModFuncs {
		rn := recvNamed(fn)
		if rn == nil || !inPkg(rn, pipelinePkg) || rn.Obj().Name() != "Batcher" {
			continue
		}
		for _, b := range fn.Blocks {
			for _, in := range b.Instrs {
				switch x := in.(type) {
				case *ssa.UnOp:
					if x.Op == token.ARROW && x.CommaOk && isChanOfBatch(x.X.Type()) {
						if _, f, _, ok := loadedField(x.X); ok {
							br.worker, br.recv, br.fullField = fn, x, f
						}
					}
				case *ssa.Send:
					if isChanOfBatch(x.Chan.Type()) {
						if _, f, _, ok := loadedField(x.Chan); ok {
							// the "full" channel is the one the worker ranges over; resolved after the loop
							if br.send == nil || f != br.freeField {
								_ = f
							}
						}
					}
				}
			}
		}
	}
	// sender = function sending on the worker's channel field
	for _, fn := range c.ModFuncs {
		for _, b := range fn.Blocks {
			for _, in := range b.Instrs {
				if x, ok := in.(*ssa.Send); ok && isChanOfBatch(x.Chan.Type()) {
					if o, f, _, ok := loadedField(x.Chan); ok && isField(o, f, pipelinePkg, "Batcher", br.fullField) {
						if fn.Name() != "NewBatcher" {
							br.sender, br.send = fn, x
						}
					}
				}
			}
		}
	}
	return br
}

func ruleSendBeforeCommit(c *Ctx, r *Rule) {
	br := c.batcher()
	if br.worker == nil || br.commit == nil {
		r.Unresolved("batch worker (function ranging over a chan *Batch field of Batcher) or sequenced commit")
		return
	}
	fn := br.worker
	// calls in the worker that reach the commit function
	var commitCalls []ssa.Instruction
	var outFnCalls []ssa.Instruction
	for _, ci := range callsIn(fn) {
		if f := calleeFunc(ci); f != nil && (f == br.commit || c.reachesWithin(f, br.commit, 3)) {
			commitCalls = append(commitCalls, ci)
		}
		if o, f, _, ok := callThroughField(ci); ok && isField(o, f, pipelinePkg, "BatcherOptions", "OutFn") {
			outFnCalls = append(outFnCalls, ci)
		}
		if invokesMethod(ci, c.roles().outCommit) {
			commitCalls = append(commitCalls, ci)
		}
	}
	r.Inst(len(commitCalls))
	if len(commitCalls) == 0 || len(outFnCalls) == 0 {
		r.Ob(false, c.fnName(fn)+"|shape", fn.Pos(), fmt.Sprintf("worker has %d commit calls and %d OutFn calls", len(commitCalls), len(outFnCalls)))
		return
	}
	isCommit := func(in ssa.Instruction) bool { return containsInstr(commitCalls, in) }
	isOut := func(in ssa.Instruction) bool { return containsInstr(outFnCalls, in) }
	// the only edge allowed to by-pass OutFn is the false edge of `batch.hasIterableEvents`
	bypass := 0
	edgeOK := func(b *ssa.BasicBlock, i int) bool {
		iff, ok := b.Instrs[len(b.Instrs)-1].(*ssa.If)
		if !ok {
			return true
		}
		v, pol := peelNot(iff.Cond, i == 0)
		if isLoadOfField(v, pipelinePkg, "Batch", "hasIterableEvents") && !pol {
			bypass++
			return false
		}
		return true
	}
	found, w := c.pathExistsE(fn, br.recv, isCommit, isOut, edgeOK)
	msg := "every path from taking a batch off the channel to its commit passes the OutFn call (except the batch-has-no-iterable-events edge)"
	if found {
		msg = "a path from the channel receive reaches the commit at " + c.pos(w.Pos()) + " without passing OutFn: events would be acknowledged before being sent"
	}
	r.Ob(!found, c.fnName(fn)+"|send-before-commit", br.recv.Pos(), msg)
	// the batch committed is the batch received and the batch sent
	recvVal := ssa.Value(nil)
	if u, ok := br.recv.(*ssa.UnOp); ok {
		if refs := u.Referrers(); refs != nil {
			for _, x := range *refs {
				if e, ok := x.(*ssa.Extract); ok && e.Index == 0 {
					recvVal = e
				}
			}
		}
	}
	same := recvVal != nil
	for _, in := range append(append([]ssa.Instruction{}, commitCalls...), outFnCalls...) {
		args := in.(ssa.CallInstruction).Common().Args
		if len(args) == 0 || args[len(args)-1] != recvVal {
			same = false
		}
	}
	r.Ob(same, c.fnName(fn)+"|same-batch", br.recv.Pos(), "OutFn and the commit are both applied to the batch value just received")
	// OutFn must be called at most once per received batch before the commit (no send after commit)
	found2, w2 := c.pathExists(fn, commitCalls[0], isOut, func(in ssa.Instruction) bool { return in == br.recv })
	msg2 := "no OutFn call after the commit within one iteration"
	if found2 {
		msg2 = "OutFn is reachable after the commit at " + c.pos(w2.Pos())
	}
	r.Ob(!found2, c.fnName(fn)+"|no-send-after-commit", commitCalls[0].Pos(), msg2)
}

func containsInstr(l []ssa.Instruction, in ssa.Instruction) bool {
	for _, x := range l {
		if x == in {
			return true
		}
	}
	return false
}

// reachesWithin: static call-chain reachability from -> to within depth calls.
func (c *Ctx) reachesWithin(from, to *ssa.Function, depth int) bool {
	if from == to {
		return true
	}
	if depth == 0 || from.Blocks == nil || !c.inModule(from) {
		return false
	}
	for _, ci := range callsIn(from) {
		if f := calleeFunc(ci); f != nil && c.reachesWithin(f, to, depth-1) {
			return true
		}
	}
	return false
}

// condLock resolves which lock a *sync.Cond field is tied to: returns the field path of the
// lock relative to the owning struct (".seqMu", ".mu") or ".<cond>.L" for a private lock.
func (c *Ctx) condLock(pkgPath, typ, condField string) (string, bool) {
	for _, a := range c.fieldAccesses(pkgPath, typ, condField) {
		if !a.write {
			continue
		}
		call, ok := a.val.(*ssa.Call)
		if !ok {
			continue
		}
		f := call.Call.StaticCallee()
		if f == nil || qualName(f) != "sync.NewCond" {
			continue
		}
		arg := stripConv(call.Call.Args[0])
		ref := refOf(arg)
		if ref.root == a.base || sameAllocRoot(ref.root, a.base) {
			return ref.path, true
		}
		// a local mutex also stored into a sibling field of the same struct value
		st := deref(a.base.Type()).Underlying().(*types.Struct)
		for i := 0; i < st.NumFields(); i++ {
			for _, b := range c.fieldAccesses(pkgPath, typ, st.Field(i).Name()) {
				if b.write && b.fn == a.fn && stripConv(b.val) == arg {
					return "." + st.Field(i).Name(), true
				}
			}
		}
		return "." + condField + ".L", true
	}
	return "", false
}

func sameAllocRoot(a, b ssa.Value) bool {
	return a == b
}

func ruleSequencedRegion(c *Ctx, r *Rule) {
	br := c.batcher()
	if br.commit == nil || br.ack == nil {
		r.Unresolved("sequenced commit function of the batcher")
		return
	}
	fn := br.commit
	r.Inst(1)
	name := c.fnName(fn)
	flow := c.flowMust(fn)
	held := flow.at(br.ack)
	// (a) ack under a lock of the receiver
	var M lockRef
	okA := false
	for _, l := range held {
		if paramIndex(fn, l.root) == 0 {
			M, okA = l, true
		}
	}
	r.Ob(okA, name+"|ack-under-lock", br.ack.Pos(), "the acknowledgement loop runs with a Batcher lock held; held="+c.locksetString(held))
	if !okA {
		return
	}
	// (b) guard: X == batch.seq at the ack, X a field of the receiver
	var seqField string
	okB := false
	for _, l := range c.unitGuards(br.ack) {
		op, x, y, ok := cmpLit(l)
		if !ok || op != token.EQL {
			continue
		}
		for _, pair := range [][2]ssa.Value{{x, y}, {y, x}} {
			o, f, _, ok1 := loadedField(pair[0])
			if ok1 && inPkg(o, pipelinePkg) && o.Obj().Name() == "Batcher" && isLoadOfField(pair[1], pipelinePkg, "Batch", "seq") {
				seqField, okB = f, true
			}
		}
	}
	r.Ob(okB, name+"|wait-guard", br.ack.Pos(), "the acknowledgement is control-dependent on <Batcher counter> == batch.seq; guards: "+c.clausesString(c.guards(fn)[br.ack.Block()]))
	if !okB {
		return
	}
	// Wait in a loop on the cond tied to M, guarded by counter != seq
	condPath := ""
	var waits, bcasts []ssa.CallInstruction
	for _, ci := range callsIn(fn) {
		if f := calleeFunc(ci); f != nil {
			switch qualName(f) {
			case "(*sync.Cond).Wait":
				waits = append(waits, ci)
			case "(*sync.Cond).Broadcast":
				bcasts = append(bcasts, ci)
			}
		}
	}
	okW := len(waits) > 0
	for _, w := range waits {
		ref := refOf(w.Common().Args[0])
		condPath = ref.path
		inLoop := false
		for _, l := range c.unitGuards(w) {
			if op, x, y, ok := cmpLit(l); ok && op == token.NEQ {
				if (isLoadOfField(x, pipelinePkg, "Batcher", seqField) && isLoadOfField(y, pipelinePkg, "Batch", "seq")) ||
					(isLoadOfField(y, pipelinePkg, "Batcher", seqField) && isLoadOfField(x, pipelinePkg, "Batch", "seq")) {
					inLoop = true
				}
			}
		}
		// the wait must be inside a cycle (re-check after wake-up)
		cyc, _ := c.pathExists(fn, w, func(in ssa.Instruction) bool { return in == ssa.Instruction(w) }, nil)
		if !inLoop || !cyc {
			okW = false
		}
		_, held := flow.at(w)[M.key()]
		if !held {
			okW = false
		}
	}
	r.Ob(okW, name+"|wait-loop", fn.Pos(), "Wait is called in a loop whose condition is counter != batch.seq, with the lock held")
	if len(condPath) > 0 {
		lp, ok := c.condLock(pipelinePkg, "Batcher", condPath[1:])
		r.Ob(ok && lp == M.path, name+"|cond-lock", fn.Pos(), fmt.Sprintf("the cond's lock (%s) is the lock held around the acknowledgement (%s)", lp, M.path))
	}
	// (c) stores to the counter: only here, under M, by +1
	acc := c.fieldAccesses(pipelinePkg, "Batcher", seqField)
	nStores := 0
	for _, a := range acc {
		if !a.write {
			continue
		}
		if a.fn.Name() == "NewBatcher" && isFreshAlloc(a.base) {
			continue
		}
		nStores++
		ok := a.fn == fn
		if ok {
			_, ok = flow.at(a.in)[M.key()]
		}
		if ok {
			b, isB := a.val.(*ssa.BinOp)
			one, isOne := int64(0), false
			if isB {
				one, isOne = constInt(b.Y)
			}
			ok = isB && b.Op == token.ADD && isOne && one == 1 && isLoadOfField(b.X, pipelinePkg, "Batcher", seqField)
		}
		r.Ob(ok, name+"|counter-store|"+c.fnName(a.fn), a.in.Pos(), "Batcher."+seqField+" is written only in the sequenced commit, under the lock, by +1")
		if a.fn == fn {
			// every sealed batch takes its turn: no way out of the commit function misses the increment
			// (a batch emptied for the dead queue still owns a sequence number; if it leaves without
			// advancing the counter every later batch waits for ever)
			inc := a.in
			skip, w0 := c.pathExists(fn, nil, isReturn, func(in ssa.Instruction) bool { return in == inc })
			msg0 := "the counter is advanced on every path through the commit function"
			if skip {
				msg0 = "a path reaches the return at " + c.pos(w0.Pos()) + " without advancing the counter: the batches sealed after this one wait for their turn for ever"
			}
			r.Ob(!skip, name+"|every-batch-takes-its-turn", a.in.Pos(), msg0)
			// (d) broadcast after the increment on every path to return
			isB := func(in ssa.Instruction) bool {
				for _, b := range bcasts {
					if ssa.Instruction(b) == in {
						return true
					}
				}
				return false
			}
			ok, w := c.mustPassBeforeReturn(fn, a.in, isB)
			msg := "Broadcast follows the increment on every path to return"
			if !ok {
				msg = "a path from the increment reaches the return at " + c.pos(w.Pos()) + " without Broadcast: later batches would wait for ever"
			}
			r.Ob(ok, name+"|broadcast-after-increment", a.in.Pos(), msg)
			// ack after increment? order: the ack happens while still holding M (checked) and after the wait
		}
	}
	r.Ob(nStores == 1, name+"|single-counter-writer", fn.Pos(), fmt.Sprintf("%d stores to Batcher.%s outside the constructor (expected 1)", nStores, seqField))
	// (e0) a Batch is never overwritten as a whole outside its constructor: `*b = Batch{...}` in reset()
	// also clears the sequence number of a batch that is on its way to the commit (the dead-queue path
	// resets an in-flight batch), which then waits for a turn that never comes
	for _, f2 := range c.ModFuncs {
		if c.pkgOf(f2) != "pipeline" {
			continue
		}
		for _, b2 := range f2.Blocks {
			for _, in2 := range b2.Instrs {
				st, ok := in2.(*ssa.Store)
				if !ok || !typeIs(st.Val.Type(), pipelinePkg, "Batch") {
					continue
				}
				if _, isPtr := st.Val.Type().Underlying().(*types.Pointer); isPtr {
					continue // a *Batch stored somewhere, not a Batch value written over another
				}
				if _, isAl := st.Addr.(*ssa.Alloc); isAl {
					continue // a local being built
				}
				fresh := false
				if al, isAl := stripConv(st.Addr).(*ssa.Alloc); isAl && al.Heap {
					fresh = true
				}
				r.Ob(fresh, c.fnName(f2)+"|whole-batch-store", st.Pos(), "a Batch object in use is not overwritten as a whole (its sequence number belongs to the sender and the commit turn)")
			}
		}
	}
	// (e) batch.seq stored only by the sender under the fill lock from a counter incremented there
	for _, a := range c.fieldAccesses(pipelinePkg, "Batch", "seq") {
		if !a.write {
			continue
		}
		o, f, base, ok := loadedField(a.val)
		good := ok && inPkg(o, pipelinePkg) && o.Obj().Name() == "Batcher"
		why := "Batch.seq is assigned from a Batcher counter"
		if good {
			// counter incremented in the same function, and both under the same receiver lock (possibly the caller's)
			inc := false
			for _, b := range c.fieldAccesses(pipelinePkg, "Batcher", f) {
				if b.write && b.fn == a.fn {
					if bo, ok := b.val.(*ssa.BinOp); ok && bo.Op == token.ADD {
						if k, ok := constInt(bo.Y); ok && k == 1 && isLoadOfField(bo.X, pipelinePkg, "Batcher", f) {
							inc = true
							okL, whyL := c.heldFillLock(b.in, base)
							if !okL {
								good, why = false, whyL
							}
						}
					}
				}
			}
			if !inc {
				good, why = false, "the counter Batch.seq is taken from is not incremented by 1 in the same function"
			}
			okL, whyL := c.heldFillLock(a.in, base)
			if !okL {
				good, why = false, whyL
			}
		}
		r.Ob(good, name+"|seq-assign|"+c.fnName(a.fn), a.in.Pos(), why)
	}
}

// heldFillLock: some lock of the Batcher `base` other than the commit lock is held at in (interprocedurally).
func (c *Ctx) heldFillLock(in ssa.Instruction, base ssa.Value) (bool, string) {
	root := refOf(base).root
	return c.heldInterproc(in, lockRef{root, ".mu"}, 3)
}

func ruleRetryLoopExits(c *Ctx, r *Rule) {
	fn := c.retryFn()
	if fn == nil {
		r.Unresolved("retry loop (method value stored into BatcherOptions.OutFn in package pipeline)")
		return
	}
	r.Inst(1)
	name := c.fnName(fn)
	var sends, errCbs []ssa.CallInstruction
	for _, ci := range callsIn(fn) {
		if o, f, _, ok := callThroughField(ci); ok && inPkg(o, pipelinePkg) && o.Obj().Name() == "RetriableBatcher" {
			sig := ci.Common().Signature()
			if sig.Results().Len() == 1 && types.Identical(sig.Results().At(0).Type(), types.Universe.Lookup("error").Type()) {
				sends = append(sends, ci)
			} else {
				_ = f
				errCbs = append(errCbs, ci)
			}
		}
	}
	if len(sends) != 1 || len(errCbs) < 1 {
		r.Ob(false, name+"|shape", fn.Pos(), fmt.Sprintf("retry function has %d send calls and %d error callbacks through RetriableBatcher fields (expected 1 and at least 1)", len(sends), len(errCbs)))
		return
	}
	send := sends[0]
	// every batch starts its own back-off: the object whose NextBackOff is consulted is Reset in this
	// function before the first attempt (Reset also starts the elapsed-time budget; a back-off prepared
	// once and copied stops after MaxElapsedTime of process uptime: one attempt, no retries)
	{
		var next, reset []ssa.CallInstruction
		for _, ci := range callsIn(fn) {
			if f := calleeFunc(ci); f != nil && f.Signature.Recv() != nil {
				switch f.Name() {
				case "NextBackOff":
					next = append(next, ci)
				case "Reset":
					if rn := namedOf(deref(f.Signature.Recv().Type())); rn != nil && strings.Contains(rn.Obj().Name(), "BackOff") {
						reset = append(reset, ci)
					}
				}
			}
		}
		okReset := len(next) >= 1
		for _, nx := range next {
			found := false
			for _, rs := range reset {
				if instrDominates(rs, nx) && sameRoot(rs.Common().Args[0], nx.Common().Args[0]) {
					found = true
				}
			}
			// or the object is made in this function by the library's constructor, which resets it
			if call, isCall := stripConv(nx.Common().Args[0]).(*ssa.Call); isCall && !found {
				if f := call.Call.StaticCallee(); f != nil && strings.HasPrefix(f.Name(), "New") && f.Pkg != nil && strings.Contains(f.Pkg.Pkg.Path(), "backoff") && instrDominates(call, nx) {
					found = true
				}
			}
			if !found {
				okReset = false
			}
		}
		r.Ob(okReset, name+"|backoff-reset-per-batch", fn.Pos(), "the back-off consulted between attempts is Reset in the retry function itself, before the first attempt of every batch")
	}
	isCb := func(in ssa.Instruction) bool {
		for _, cb := range errCbs {
			if in == ssa.Instruction(cb) {
				return true
			}
		}
		return false
	}
	isSend := func(in ssa.Instruction) bool { return in == ssa.Instruction(send) }
	// at most one error callback per exhaustion: no way from one callback site to another (or back to
	// itself) without a new send
	for i, cb := range errCbs {
		again, _ := c.pathExists(fn, cb, isCb, isSend)
		if len(errCbs) > 1 || again {
			r.Ob(!again, fmt.Sprintf("%s|callback#%d|once", name, i), cb.Pos(), "after the error callback no second error callback is reached for the same failed batch")
		}
	}
	n := 0
	for _, b := range fn.Blocks {
		ret, ok := asReturn(b)
		if !ok {
			continue
		}
		n++
		success := false
		for _, l := range c.unitGuards(ret) {
			if op, x, y, ok := cmpLit(l); ok && op == token.EQL {
				if (x == send.Value() && isNilConst(y)) || (y == send.Value() && isNilConst(x)) {
					success = true
				}
			}
		}
		// otherwise: every way from the send to this return passes an error callback
		skip, _ := c.pathExists(fn, send, func(in ssa.Instruction) bool { return in == ssa.Instruction(ret) }, func(in ssa.Instruction) bool { return isCb(in) || isSend(in) })
		exhausted := !skip
		r.Ob(success || exhausted, fmt.Sprintf("%s|return#%d", name, n), ret.Pos(),
			"the retry loop returns only when the send returned nil or after the error callback on exhaustion; guards: "+c.clausesString(c.guards(fn)[b]))
	}
	for i, cb := range errCbs {
		sfx := ""
		if len(errCbs) > 1 {
			sfx = fmt.Sprintf("#%d", i)
		}
		// the error callback is reached only on failure of this iteration's send and under the exhaustion predicate
		failGuard := false
		for _, l := range c.unitGuards(cb) {
			if op, x, y, ok := cmpLit(l); ok && op == token.NEQ {
				if (x == send.Value() && isNilConst(y)) || (y == send.Value() && isNilConst(x)) {
					failGuard = true
				}
			}
		}
		r.Ob(failGuard, name+"|callback-on-failure"+sfx, cb.Pos(), "the error callback is control-dependent on err != nil of the send")
		exh := c.guardedBy(cb, func(l lit) bool { return c.isExhaustionLit(l) })
		r.Ob(exh, name+"|callback-on-exhaustion"+sfx, cb.Pos(), "the error callback is control-dependent on the exhaustion predicate (backoff stop or attempt counter vs AttemptNum); guards: "+c.clausesString(c.guards(fn)[cb.Block()]))
		args := cb.Common().Args
		r.Ob(len(args) >= 1 && args[0] == send.Value(), name+"|callback-error"+sfx, cb.Pos(), "the error callback receives the error of the failed send")
	}
	// the send is inside a cycle that contains a wait (timer receive / sleep) on the retry path
	cyc, _ := c.pathExists(fn, send, func(in ssa.Instruction) bool { return in == ssa.Instruction(send) }, nil)
	r.Ob(cyc, name+"|loop", send.Pos(), "the send is retried in a loop")
	sargs := send.Common().Args
	okBatch := len(sargs) >= 1
	if okBatch {
		p, isP := sargs[len(sargs)-1].(*ssa.Parameter)
		okBatch = isP && paramIndex(fn, p) >= 0
	}
	r.Ob(okBatch, name+"|send-batch", send.Pos(), "each attempt sends the batch the retry function was given")
	c.attemptLowerBound(r, fn, errCbs[0])
}

// isExhaustionLit: comparison involving the result of NextBackOff or the AttemptNum option.
func (c *Ctx) isExhaustionLit(l lit) bool {
	b, ok := l.v.(*ssa.BinOp)
	if !ok {
		return false
	}
	for _, v := range []ssa.Value{b.X, b.Y} {
		v = stripConv(v)
		if call, ok := v.(*ssa.Call); ok {
			if f := call.Call.StaticCallee(); f != nil && f.Name() == "NextBackOff" {
				return true
			}
			if call.Call.IsInvoke() && call.Call.Method.Name() == "NextBackOff" {
				return true
			}
		}
		if isLoadOfField(v, pipelinePkg, "BackoffOpts", "AttemptNum") {
			return true
		}
	}
	return false
}

// attemptLowerBound: the attempt counter compared with AttemptNum is φ(c0, +1 per failed
// attempt) and the comparison shape gives at least AttemptNum+1 attempts before exhaustion.
func (c *Ctx) attemptLowerBound(r *Rule, fn *ssa.Function, cb ssa.CallInstruction) {
	name := c.fnName(fn)
	for _, cl := range c.guards(fn)[cb.Block()] {
		for _, l := range cl {
			op, x, y, ok := cmpLit(l)
			if !ok {
				continue
			}
			var ctr ssa.Value
			switch {
			case isLoadOfField(y, pipelinePkg, "BackoffOpts", "AttemptNum") && (op == token.GTR || op == token.GEQ):
				ctr = x
			case isLoadOfField(x, pipelinePkg, "BackoffOpts", "AttemptNum") && (op == token.LSS || op == token.LEQ):
				ctr = y
				if op == token.LSS {
					op = token.GTR
				} else {
					op = token.GEQ
				}
			default:
				continue
			}
			if _, isC := ctr.(*ssa.Const); isC {
				continue // the `AttemptNum >= 0` clause
			}
			phi, ok := ctr.(*ssa.Phi)
			if !ok {
				r.Ob(false, name+"|attempt-bound", cb.Pos(), "attempt counter compared with AttemptNum is not a loop counter: cannot establish 'no fewer attempts than configured'")
				return
			}
			c0, step, okS := int64(0), int64(0), true
			for _, e := range phi.Edges {
				if k, ok := constInt(e); ok {
					c0 = k
				} else if b, ok := e.(*ssa.BinOp); ok && b.Op == token.ADD && b.X == phi {
					step, _ = constInt(b.Y)
				} else {
					okS = false
				}
			}
			// with `ctr > A` the callback fires when c0 + fails - 1 > A  => fails = A - c0 + 2 ; with >= : A - c0 + 1. Need fails >= A + 1.
			min := int64(1)
			if op == token.GEQ {
				min = 0
			}
			r.Ob(okS && step == 1 && c0 <= min, name+"|attempt-bound", cb.Pos(),
				fmt.Sprintf("attempt counter starts at %d, steps +%d, compared with %s AttemptNum: at least AttemptNum+1 attempts precede exhaustion", c0, step, op))
			return
		}
	}
	r.Ob(false, name+"|attempt-bound", cb.Pos(), "no comparison of an attempt counter with AttemptNum guards the error callback")
}

// retryFn: the method whose value is stored into BatcherOptions.OutFn inside package pipeline.
func (c *Ctx) retryFn() *ssa.Function {
	for _, a := range c.fieldAccesses(pipelinePkg, "BatcherOptions", "OutFn") {
		if !a.write || c.pkgOf(a.fn) != "pipeline" {
			continue
		}
		v := stripConv(a.val)
		if mc, ok := v.(*ssa.MakeClosure); ok {
			if f, ok := mc.Fn.(*ssa.Function); ok {
				if f.Synthetic != "" {
					for _, ci := range callsIn(f) {
						if g := calleeFunc(ci); g != nil && c.inModule(g) {
							return g
						}
					}
				}
				return f
			}
		}
		if f, ok := v.(*ssa.Function); ok {
			return f
		}
	}
	return nil
}

func ruleDetachGuard(c *Ctx, r *Rule) {
	n := 0
	for _, a := range c.fieldAccesses(pipelinePkg, "stream", "isAttached") {
		if !a.write || isFreshAlloc(a.base) {
			continue
		}
		b, isC := constBool(a.val)
		if !isC || b {
			continue
		}
		n++
		name := c.fnName(a.fn)
		ok := false
		for _, l := range c.unitGuards(a.in) {
			op, x, y, okc := cmpLit(l)
			if !okc || op != token.EQL {
				continue
			}
			if (isLoadOfField(x, pipelinePkg, "stream", "awaySeq") && isAtomicLoadOf(y, "stream", "commitSeq")) ||
				(isLoadOfField(y, pipelinePkg, "stream", "awaySeq") && isAtomicLoadOf(x, "stream", "commitSeq")) {
				ok = true
			}
		}
		r.Ob(ok, name+"|guard", a.in.Pos(), "isAttached=false only when awaySeq == commitSeq (the last taken event is committed); guards: "+c.clausesString(c.guards(a.fn)[a.in.Block()]))
		okL, why := c.heldInterproc(a.in, lockRef{refOf(a.base).root, ".mu"}, 3)
		if okL {
			why = "detach runs under stream.mu on every call chain"
		}
		r.Ob(okL, name+"|lock", a.in.Pos(), why)
	}
	r.Inst(n)
}

// isAtomicLoadOf: v == x.<field>.Load() for field of pipeline type typ.
func isAtomicLoadOf(v ssa.Value, typ, field string) bool {
	call, ok := stripConv(v).(*ssa.Call)
	if !ok {
		return false
	}
	f := call.Call.StaticCallee()
	if f == nil || f.Name() != "Load" || len(call.Call.Args) == 0 {
		return false
	}
	o, fl, _, ok := fieldOf(call.Call.Args[0])
	return ok && isField(o, fl, pipelinePkg, typ, field)
}

func ruleSingleSequencer(c *Ctx, r *Rule) {
	ro := c.roles()
	if ro.outOut == nil {
		r.Unresolved("pipeline.OutputPlugin.Out")
		return
	}
	fields := map[string][]ssa.CallInstruction{}
	c.eachCall(func(fn *ssa.Function, ci ssa.CallInstruction) {
		if c.pkgOf(fn) != "pipeline" || !invokesMethod(ci, ro.outOut) {
			return
		}
		o, f, _, ok := invokeOnField(ci)
		key := "?"
		if ok && o != nil {
			key = o.Obj().Name() + "." + f
		}
		fields[key] = append(fields[key], ci)
	})
	var names []string
	for k := range fields {
		names = append(names, k)
	}
	sort.Strings(names)
	r.Inst(len(names))
	// the primary output is the field the processors' Out goes through: Router.output
	for _, k := range names {
		for _, ci := range fields[k] {
			r.Ob(k == "Router.output", c.fnName(ci.Parent())+"|field="+k, ci.Pos(),
				"events are handed to an output through "+k+": a second output instance has its own batcher and commit sequence, so events of one source can be acknowledged through two independently sequenced paths")
		}
	}
}

func ruleStreamCommit(c *Ctx, r *Rule) {
	// stream.commit: the only early return is under SeqID < commitSeq; the store to commitSeq takes event.SeqID
	n := 0
	for _, fn := range c.ModFuncs {
		top := fn
		for top.Parent() != nil {
			top = top.Parent() // a function literal of a stream method counts as the method
		}
		rn := recvNamed(top)
		if rn == nil || !inPkg(rn, pipelinePkg) || rn.Obj().Name() != "stream" {
			continue
		}
		for _, ci := range callsIn(fn) {
			f := calleeFunc(ci)
			if f == nil || f.Name() != "Store" || len(ci.Common().Args) < 2 {
				continue
			}
			o, fl, sbase, ok := fieldOf(ci.Common().Args[0])
			if !ok || !isField(o, fl, pipelinePkg, "stream", "commitSeq") {
				continue
			}
			n++
			name := c.fnName(top)
			lockRoot := refOf(sbase).root
			r.Ob(isLoadOfField(ci.Common().Args[1], pipelinePkg, "Event", "SeqID"), name+"|value", ci.Pos(), "commitSeq is advanced to the committed event's own SeqID")
			okG := false
			var loads []ssa.Instruction
			for _, l := range c.unitGuards(ci) {
				if op, x, y, ok := cmpLit(l); ok {
					if op == token.GEQ && isLoadOfField(x, pipelinePkg, "Event", "SeqID") && isAtomicLoadOf(y, "stream", "commitSeq") {
						okG = true
						loads = append(loads, instrOf(stripConv(y)))
					}
					if op == token.LEQ && isLoadOfField(y, pipelinePkg, "Event", "SeqID") && isAtomicLoadOf(x, "stream", "commitSeq") {
						okG = true
						loads = append(loads, instrOf(stripConv(x)))
					}
				}
			}
			// the comparison and the store are one critical section: the value compared is read under
			// the same lock, which is not released before the store
			for _, ld := range loads {
				if ld == nil {
					continue
				}
				okR, whyR := c.heldInterproc(ld, lockRef{lockRoot, ".mu"}, 2)
				if okR {
					isUnlock := func(in2 ssa.Instruction) bool {
						cj, ok := in2.(ssa.CallInstruction)
						if !ok {
							return false
						}
						if _, isDefer := cj.(*ssa.Defer); isDefer {
							return false
						}
						for _, ev := range c.lockEvents(cj) {
							if ev.op == opUnlock && ev.ref.path == ".mu" {
								return true
							}
						}
						return false
					}
					for _, b := range fn.Blocks {
						for _, u := range b.Instrs {
							if !isUnlock(u) {
								continue
							}
							to, _ := c.pathExists(fn, ld, func(in2 ssa.Instruction) bool { return in2 == u }, func(in2 ssa.Instruction) bool { return in2 == ssa.Instruction(ci) })
							if !to {
								continue
							}
							if again, _ := c.pathExists(fn, u, func(in2 ssa.Instruction) bool { return in2 == ssa.Instruction(ci) }, nil); again {
								okR, whyR = false, "the lock is released between the comparison and the store"
							}
						}
					}
				}
				r.Ob(okR, name+"|check-and-store-one-region", ld.Pos(), "the sequence id is compared with a commitSeq read under stream.mu, and the lock is kept until the store: two committers cannot both pass the test and store out of order"+ifs(!okR, " ("+whyR+")"))
			}
			r.Ob(okG, name+"|monotone", ci.Pos(), "commitSeq never moves backwards: the store is control-dependent on event.SeqID >= commitSeq; guards: "+c.clausesString(c.guards(fn)[ci.Block()]))
			okL, why := c.heldInterproc(ci, lockRef{lockRoot, ".mu"}, 2)
			if okL {
				why = "commitSeq store under stream.mu"
			}
			r.Ob(okL, name+"|lock", ci.Pos(), why)
		}
	}
	r.Inst(n)
}
