package main

import (
	"fmt"
	"go/token"

	"golang.org/x/tools/go/ssa"
)

// C12.P — a recycled event's root is cleared before a decoder that only ADDS fields fills it.
//
// Event.reset() keeps Event.Root; Pipeline.In clears it with Root.DecodeString("{}") for every decoder
// except the two whose DecodeToJson REPLACES the root by parsing into it (json, protobuf). All the
// others (raw, cri, postgres, nginx_error, both syslogs, csv) add the fields present in the line: without
// the clearing a recycled event keeps every field of its previous line that the new line lacks.
// Structurally: every guard literal of the clearing call compares the decoder type with the constant of
// a root-replacing decoder (JSON, PROTOBUF) for inequality; no other condition may skip the clearing.
func init() {
	reg("C12", "C12.P", "E2", "Pipeline.In clears the pooled event's root for every decoder except the root-replacing ones (json, protobuf): a line yields exactly its own fields", 1, ruleRootCleared)
}

func ruleRootCleared(c *Ctx, r *Rule) {
	in := c.Method("pipeline", "Pipeline", "In")
	if in == nil {
		r.Unresolved("Pipeline.In")
		return
	}
	replacing := map[int64]string{}
	if p := c.ssaPkg("decoder"); p != nil {
		for _, n := range []string{"JSON", "PROTOBUF"} {
			if k, ok := p.Members[n].(*ssa.NamedConst); ok {
				if v, isK := constInt(k.Value); isK {
					replacing[v] = n
				}
			}
		}
	}
	if len(replacing) != 2 {
		r.Unresolved("decoder.JSON / decoder.PROTOBUF")
		return
	}
	name := c.fnName(in)
	n := 0
	for _, f := range append([]*ssa.Function{in}, allAnon(in)...) {
		for _, ci := range callsIn(f) {
			cf := calleeFunc(ci)
			if cf == nil || cf.Name() != "DecodeString" || len(ci.Common().Args) < 2 {
				continue
			}
			if s, ok := constString(ci.Common().Args[1]); !ok || s != "{}" {
				continue
			}
			n++
			r.Inst(1)
			// the event is taken from the pool first: only conditions evaluated AFTER that can skip the
			// clearing of a recycled event (the earlier ones are the admission tests of C20)
			site := c.siteIn(ci, in)
			var got ssa.Instruction
			if site != nil {
				for _, g := range callsIn(in) {
					if g.Common().IsInvoke() && g.Common().Method.Name() == "get" && instrDominates(g, site) {
						got = g
					}
				}
			}
			if got == nil {
				r.Ob(false, name+"|event-taken-before-clearing", ci.Pos(), "the event whose root is cleared was taken from the pool earlier in Pipeline.In")
				continue
			}
			// guards inside a literal / inlined helper called after the get all count; guards of In itself
			// count when evaluated after the get
			var cls []clause
			if f != in {
				cls = append(cls, c.guards(f)[ci.Block()]...)
			}
			for _, cl := range c.guards(in)[site.Block()] {
				var kept clause
				for _, l := range cl {
					if li, isI := l.v.(ssa.Instruction); isI && li.Parent() == in && instrDominates(got, li) {
						kept = append(kept, l)
					}
				}
				if len(kept) > 0 {
					cls = append(cls, kept)
				}
			}
			bad := ""
			for _, cl := range cls {
				for _, l := range cl {
					op, x, y, ok := cmpLit(l)
					good := false
					if ok && op == token.NEQ {
						if k, isK := constInt(y); isK && replacing[k] != "" {
							good = true
						}
						if k, isK := constInt(x); isK && replacing[k] != "" {
							good = true
						}
					}
					if !good && bad == "" {
						bad = c.litString(l)
					}
				}
			}
			msg := "the clearing of the pooled root is skipped only for a root-replacing decoder type (json, protobuf)"
			if bad != "" {
				msg += " (found: " + bad + ")"
			}
			r.Ob(bad == "", name+"|root-cleared-unless-replaced", ci.Pos(), msg+": a decoder that adds fields into a recycled, uncleared root emits the previous line's fields that the new line lacks")
		}
	}
	r.Ob(n >= 1, name+"|clears-root", in.Pos(), fmt.Sprintf("Pipeline.In clears the event root with DecodeString(\"{}\") (%d sites)", n))
}
