package main

import (
	"fmt"
	"go/constant"
	"go/token"
	"go/types"
	"sort"
	"strings"
	"syscall"

	"golang.org/x/tools/go/ssa"
)

func init() {
	explain("C07", "Static necessary conditions of 'the offsets file is always a loadable snapshot', decided exhaustively over the source: in every function that renames onto an offsets file (file input saver and the generic offset.Save) the rename is reachable only through the success edges of a write and an fsync of the same temporary file, in that order (interprocedural through helpers whose nil-error returns imply the sync); the path written is the temporary name, the rename goes temp -> live; only the saver writes the file; the snapshot reads Job state under each job's lock; the ordered tokens the writer emits equal the ordered prefixes, indent and separator length the reader expects; raw file/stream names reaching the line format are reported (the reader splits on newline and rejects an empty stream). "+
		"NOT decided: load(save(x)) = x as a value equation; 'never ahead of commits' beyond the snapshot lock.",
		"go/types, go/ssa and x/tools call resolution are correct", "(*os.File).Sync makes the data durable; os.Rename is atomic on the same file system")
	reg("C07", "C07.R1", "E2", "write -> fsync -> rename order with error gating, for every rename onto an offsets file", 2, ruleDurableRename)
	reg("C07", "C07.R2", "E6", "the file written is the temporary one; the rename goes temp -> live", 2, ruleTempNotLive)
	reg("C07", "C07.R3", "E1", "only the saver touches the offsets files (same rule as C03.R3)", 1, ruleOffsetsFileWriters)
	reg("C07", "C07.R4", "E3", "the snapshot reads Job fields under the job's lock", 1, ruleSnapshotUnderLock)
	reg("C07", "C07.R5", "E7", "writer tokens = reader tokens (prefixes, indent, separator length)", 1, ruleTokenAgreement)
	reg("C07", "C07.R6", "E6", "raw file/stream names spliced into the line format", 1, ruleRawNames)
	reg("C07", "C07.R7", "E3", "committed offsets are stored under the job's lock (same rule as C03.R2)", 15, ruleJobLockTable)
	reg("C07", "C07.R8", "E2", "every save formats into an emptied buffer: nothing of an earlier (failed) save is written again", 1, ruleSnapshotBufferFresh)
}

func isOSFileMethod(ci ssa.CallInstruction, names ...string) (ssa.Value, bool) {
	f := calleeFunc(ci)
	if f == nil || f.Signature.Recv() == nil || !typeIs(f.Signature.Recv().Type(), "os", "File") {
		return nil, false
	}
	for _, n := range names {
		if f.Name() == n {
			return ci.Common().Args[0], true
		}
	}
	return nil, false
}

// errOf returns the error result value of a call (last result), nil if none / unused.
func errOf(ci ssa.CallInstruction) ssa.Value {
	v := ci.Value()
	if v == nil {
		return nil
	}
	sig := ci.Common().Signature()
	n := sig.Results().Len()
	if n == 0 {
		return nil
	}
	errT := types.Universe.Lookup("error").Type()
	if !types.Identical(sig.Results().At(n-1).Type(), errT) {
		return nil
	}
	if n == 1 {
		return v
	}
	if refs := v.Referrers(); refs != nil {
		for _, x := range *refs {
			if e, ok := x.(*ssa.Extract); ok && e.Index == n-1 {
				return e
			}
		}
	}
	return nil
}

// succeededBefore: instruction `at` is reachable only through the err == nil edge of call ci.
func (c *Ctx) succeededBefore(ci ssa.CallInstruction, at ssa.Instruction) bool {
	if !instrDominates(ci, at) {
		return false
	}
	e := errOf(ci)
	if e == nil {
		return false
	}
	for _, l := range c.unitGuards(at) {
		if isErrNil(l, e, true) {
			return true
		}
	}
	return false
}

// durableHelper: module function h returning error such that every return with a possibly
// nil error lies behind the success edges of a write-ish call and a Sync on the same file.
func (c *Ctx) durableHelper(h *ssa.Function, depth int) (bool, string) {
	if h == nil || h.Blocks == nil || !c.inModule(h) || depth < 0 {
		return false, "not a module helper"
	}
	var syncs, writes []ssa.CallInstruction
	for _, ci := range callsIn(h) {
		if _, isDefer := ci.(*ssa.Defer); isDefer {
			continue
		}
		if _, ok := isOSFileMethod(ci, "Sync"); ok {
			syncs = append(syncs, ci)
		}
		if _, ok := isOSFileMethod(ci, "Write", "WriteString", "WriteAt"); ok {
			writes = append(writes, ci)
		}
		// a callback that is handed the *os.File as an io.Writer
		for _, a := range ci.Common().Args {
			if typeIs(stripConv(a).Type(), "os", "File") && errOf(ci) != nil {
				if _, isF := isOSFileMethod(ci, "Sync", "Close", "Write", "WriteString"); !isF {
					writes = append(writes, ci)
				}
			}
		}
	}
	// a deferred closure that assigns to a (named) result can turn a failure into success
	for _, b := range h.Blocks {
		for _, in := range b.Instrs {
			d, ok := in.(*ssa.Defer)
			if !ok {
				continue
			}
			mc, ok := d.Call.Value.(*ssa.MakeClosure)
			if !ok {
				continue
			}
			cl, ok := mc.Fn.(*ssa.Function)
			if !ok {
				continue
			}
			for i, fv := range cl.FreeVars {
				if i >= len(mc.Bindings) || fv.Referrers() == nil {
					continue
				}
				al, isAl := mc.Bindings[i].(*ssa.Alloc)
				if !isAl || !isResultCell(h, al) {
					continue
				}
				for _, r := range *fv.Referrers() {
					if st, ok := r.(*ssa.Store); ok && st.Addr == ssa.Value(fv) {
						return false, "a deferred function in " + c.fnName(h) + " overwrites the error result (" + c.pos(st.Pos()) + "): an earlier write/sync failure can be reported as success, and the caller then renames a partial file over the good one"
					}
				}
			}
		}
	}
	if len(syncs) == 0 {
		return false, "no (*os.File).Sync in " + c.fnName(h) + ": the temporary file is renamed over the live one without being made durable"
	}
	for _, ret := range returnsOf(h) {
		res := retResults(ret)
		ev := res[len(res)-1]
		if !isNilConst(ev) {
			// returns some error value: fine if that value is non-nil on this path, or it is the sync's own error
			okErr := false
			for _, l := range c.unitGuards(ret) {
				if isErrNil(l, ev, false) {
					okErr = true
				}
			}
			for _, s := range syncs {
				if errOf(s) == ev && instrDominates(s, ret) {
					// returning the sync's error directly: nil iff the sync succeeded; need a successful write before
					for _, w := range writes {
						if c.succeededBefore(w, s) || c.succeededBefore(w, ret) {
							okErr = true
						}
					}
				}
			}
			if !okErr {
				return false, "a return of " + c.fnName(h) + " at " + c.pos(ret.Pos()) + " may report success without a successful write+sync"
			}
			continue
		}
		okS, okW := false, false
		for _, s := range syncs {
			if c.succeededBefore(s, ret) {
				okS = true
				for _, w := range writes {
					if c.succeededBefore(w, s) {
						okW = true
					}
				}
			}
		}
		if !okS || !okW {
			return false, "the nil-error return of " + c.fnName(h) + " at " + c.pos(ret.Pos()) + " is not behind the success edges of write and sync"
		}
	}
	return true, ""
}

func ruleDurableRename(c *Ctx, r *Rule) {
	c.eachCall(func(fn *ssa.Function, rn ssa.CallInstruction) {
		f := calleeFunc(rn)
		if f == nil || qualName(f) != "os.Rename" {
			return
		}
		pk := c.pkgOf(fn)
		if pk != "plugin/input/file" && pk != "offset" {
			return
		}
		r.Inst(1)
		name := c.fnName(fn)
		// (a) local protocol
		var syncs, writes []ssa.CallInstruction
		for _, ci := range callsIn(fn) {
			if _, isDefer := ci.(*ssa.Defer); isDefer {
				continue
			}
			if _, ok := isOSFileMethod(ci, "Sync"); ok {
				syncs = append(syncs, ci)
			}
			if _, ok := isOSFileMethod(ci, "Write", "WriteString", "WriteAt"); ok {
				writes = append(writes, ci)
			}
		}
		if len(syncs) > 0 || len(writes) > 0 {
			okW, okS, okOrder, sameFile := false, false, false, false
			for _, w := range writes {
				if c.succeededBefore(w, rn) {
					okW = true
				}
			}
			for _, s := range syncs {
				if c.succeededBefore(s, rn) {
					okS = true
				}
				for _, w := range writes {
					if instrDominates(w, s) {
						okOrder = true
						if sameVar(w.Common().Args[0], s.Common().Args[0]) {
							sameFile = true
						}
					}
				}
			}
			r.Ob(len(writes) > 0 && okW, name+"|write-succeeded", rn.Pos(), "the rename onto the live offsets file is reachable only when the write of the temporary file succeeded (a failed write must never replace a good file)")
			r.Ob(len(syncs) > 0 && okS, name+"|sync-succeeded", rn.Pos(), "the rename is reachable only when the fsync of the temporary file succeeded (the new snapshot is durable before it replaces the old one)")
			r.Ob(okOrder && sameFile, name+"|write-before-sync", rn.Pos(), "the same file is written, then synced")
			return
		}
		// (b) through a helper: rename behind helper() == nil and the helper is durable
		okH := false
		why := "no write/sync of a temporary file precedes the rename in " + name
		for _, ci := range callsIn(fn) {
			h := calleeFunc(ci)
			if h == nil || !c.inModule(h) || !instrDominates(ci, rn) || errOf(ci) == nil {
				continue
			}
			if !c.succeededBefore(ci, rn) {
				why = "the rename is not behind the success edge of " + c.fnName(h)
				continue
			}
			ok, w := c.durableHelper(h, 2)
			if ok {
				okH = true
			} else {
				why = w
			}
		}
		// (c) through a helper (or a literal called in place) that reports success as a bool
		if !okH {
			for _, l := range c.unitGuards(rn) {
				call, isCall := l.v.(*ssa.Call)
				if !isCall || !l.pol || !instrDominates(call, rn) {
					continue
				}
				var h *ssa.Function
				if f := call.Call.StaticCallee(); f != nil && c.inModule(f) {
					h = f
				} else if mc, isMC := call.Call.Value.(*ssa.MakeClosure); isMC {
					h, _ = mc.Fn.(*ssa.Function)
				}
				if h == nil || h.Blocks == nil {
					continue
				}
				if ok, w := c.durableBoolHelper(h); ok {
					okH = true
				} else {
					why = w
				}
			}
		}
		r.Ob(okH, name+"|durable-before-rename", rn.Pos(), "rename only after a successful write+fsync of the temporary file: "+map[bool]string{true: "ok (helper)", false: why}[okH])
	})
}

func ruleTempNotLive(c *Ctx, r *Rule) {
	c.eachCall(func(fn *ssa.Function, rn ssa.CallInstruction) {
		f := calleeFunc(rn)
		if f == nil || qualName(f) != "os.Rename" {
			return
		}
		pk := c.pkgOf(fn)
		if pk != "plugin/input/file" && pk != "offset" {
			return
		}
		r.Inst(1)
		name := c.fnName(fn)
		src, dst := rn.Common().Args[0], rn.Common().Args[1]
		// destination: a plain load of a struct field (the live name)
		_, dstField, _, okDst := loadedField(dst)
		r.Ob(okDst, name+"|rename-dst-live", rn.Pos(), "the rename destination is the live file name field: "+c.path(dst))
		r.Ob(!sameExpr(src, dst), name+"|src-differs", rn.Pos(), "rename source and destination are different names")
		// the file opened for writing (here or in the helper) has the same name expression as the rename source, and never the live field
		check := func(g *ssa.Function) int {
			n := 0
			for _, ci := range callsIn(g) {
				cf := calleeFunc(ci)
				if cf == nil {
					continue
				}
				q := qualName(cf)
				if q != "os.OpenFile" && q != "os.Create" {
					continue
				}
				n++
				p := ci.Common().Args[0]
				_, pf, _, isField := loadedField(p)
				r.Ob(!(isField && okDst && pf == dstField), c.fnName(g)+"|opens-temp", ci.Pos(), "the file opened for writing is not the live offsets file: "+c.path(p))
				same := sameExpr(p, src)
				if pp, isParam := p.(*ssa.Parameter); !same && isParam && g != fn {
					// the helper receives the path: it is the rename source at every call in the saving function
					k := paramIndex(g, pp)
					nSites := 0
					same = true
					for _, cs := range c.sitesOf(g) {
						if cs.Parent() != fn {
							continue
						}
						nSites++
						if k < 0 || k >= len(cs.Common().Args) || !(cs.Common().Args[k] == src || sameExpr(cs.Common().Args[k], src)) {
							same = false
						}
					}
					same = same && nSites > 0
				}
				if !same && g != fn {
					// helper: same static callee applied to the helper's receiver, which the call site binds to the caller's
					pc, ok1 := stripConv(p).(*ssa.Call)
					sc, ok2 := stripConv(src).(*ssa.Call)
					if ok1 && ok2 && pc.Call.StaticCallee() != nil && pc.Call.StaticCallee() == sc.Call.StaticCallee() && len(pc.Call.Args) == len(sc.Call.Args) {
						same = true
						for i := range pc.Call.Args {
							pp, isP := pc.Call.Args[i].(*ssa.Parameter)
							if !isP {
								same = false
								continue
							}
							bound := false
							for _, cs := range c.sitesOf(g) {
								if cs.Parent() == fn {
									if k := paramIndex(g, pp); k >= 0 && k < len(cs.Common().Args) && sameExpr(cs.Common().Args[k], sc.Call.Args[i]) {
										bound = true
									}
								}
							}
							if !bound {
								same = false
							}
						}
					}
				}
				// the temporary file starts empty: os.Create, or OpenFile with O_TRUNC / O_EXCL
				// (a leftover of a killed save must not survive under a shorter new snapshot)
				empty := q == "os.Create"
				if q == "os.OpenFile" && len(ci.Common().Args) >= 2 {
					if fl, isK := constInt(ci.Common().Args[1]); isK {
						empty = fl&int64(syscall.O_TRUNC) != 0 || fl&int64(syscall.O_EXCL) != 0
					}
				}
				r.Ob(empty, c.fnName(g)+"|temp-starts-empty", ci.Pos(), "the temporary file is truncated (or exclusively created) when opened: what gets renamed is exactly what this save wrote")
				r.Ob(same, c.fnName(g)+"|opens-rename-source", ci.Pos(), "the file written is the one that is renamed: open("+c.path(p)+") vs rename("+c.path(src)+", …)")
			}
			return n
		}
		n := check(fn)
		if n == 0 {
			for _, ci := range callsIn(fn) {
				if h := calleeFunc(ci); h != nil && c.inModule(h) && instrDominates(ci, rn) {
					n += check(h)
				}
			}
		}
		r.Ob(n >= 1, name+"|opens-something", rn.Pos(), "a temporary file is opened for writing before the rename")
	})
}

// sameExpr: structural equality incl. conversions, calls of the same static callee on the same
// receiver, and loads of the same variable.
func sameExpr(a, b ssa.Value) bool {
	a, b = stripConv(a), stripConv(b)
	if sameValue(a, b) || sameVar(a, b) {
		return true
	}
	ca, ok1 := a.(*ssa.Call)
	cb, ok2 := b.(*ssa.Call)
	if ok1 && ok2 && ca.Call.StaticCallee() != nil && ca.Call.StaticCallee() == cb.Call.StaticCallee() && len(ca.Call.Args) == len(cb.Call.Args) {
		for i := range ca.Call.Args {
			if !sameExpr(ca.Call.Args[i], cb.Call.Args[i]) {
				return false
			}
		}
		return true
	}
	oa, fa, ba, ok3 := loadedField(a)
	ob, fb, bb, ok4 := loadedField(b)
	if ok3 && ok4 && oa == ob && fa == fb && (ba == bb || sameExpr(ba, bb)) {
		return true
	}
	// string(x) conversions of byte slices built from the same variable
	if cva, ok := a.(*ssa.Convert); ok {
		if cvb, ok := b.(*ssa.Convert); ok {
			return sameExpr(cva.X, cvb.X)
		}
	}
	return false
}

func (c *Ctx) fileSaver() *ssa.Function {
	var saver *ssa.Function
	c.eachCall(func(fn *ssa.Function, ci ssa.CallInstruction) {
		if f := calleeFunc(ci); f != nil && qualName(f) == "os.Rename" && c.pkgOf(fn) == "plugin/input/file" {
			saver = fn
		}
	})
	return saver
}

func ruleSnapshotUnderLock(c *Ctx, r *Rule) {
	saver := c.fileSaver()
	if saver == nil {
		r.Unresolved("saver")
		return
	}
	r.Inst(1)
	flow := c.flowMust(saver)
	n := 0
	for _, f := range []string{"offsets", "filename"} {
		for _, a := range c.fieldAccesses(fileInPkg, "Job", f) {
			if !nestedIn(a.fn, saver) {
				continue
			}
			n++
			root := refOf(a.base).root
			_, held := c.flowMust(a.fn).at(a.in)[lockRef{root, ".mu"}.key()]
			if !held && a.fn != saver {
				held, _ = c.heldInterproc(a.in, lockRef{root, ".mu"}, 2) // inside a function literal of the saver
			}
			r.Ob(held, fmt.Sprintf("%s|Job.%s#%d", c.fnName(saver), f, n), a.in.Pos(), "the snapshot reads Job."+f+" with that job's lock held (so it sees offsets that were committed, never a torn update)")
		}
	}
	r.Ob(n >= 2, c.fnName(saver)+"|reads-jobs", saver.Pos(), fmt.Sprintf("the saver reads job state (%d accesses)", n))
	// the saver itself is serialised (its buffer is shared)
	held := false
	for _, b := range saver.Blocks {
		for _, in := range b.Instrs {
			if ci, ok := in.(ssa.CallInstruction); ok {
				if f := calleeFunc(ci); f != nil && qualName(f) == "os.Rename" {
					held = flow.holdsAny(ci, func(l lockRef) bool { return paramIndex(saver, l.root) == 0 })
				}
			}
		}
	}
	r.Ob(held, c.fnName(saver)+"|serialised", saver.Pos(), "concurrent saves are serialised by the saver's own mutex up to and including the rename")
}

func constString(v ssa.Value) (string, bool) {
	v = stripConv(v)
	k, ok := v.(*ssa.Const)
	if !ok || k.Value == nil || k.Value.Kind() != constant.String {
		return "", false
	}
	return constant.StringVal(k.Value), true
}

func ruleTokenAgreement(c *Ctx, r *Rule) {
	saver := c.fileSaver()
	if saver == nil {
		r.Unresolved("saver")
		return
	}
	r.Inst(1)
	type tok struct {
		pos token.Pos
		s   string
	}
	var wt []tok
	for _, b := range saver.Blocks {
		for _, in := range b.Instrs {
			if call, ok := isBuiltinCall(in, "append"); ok && len(call.Call.Args) == 2 {
				if s, ok := constString(call.Call.Args[1]); ok {
					wt = append(wt, tok{call.Pos(), s})
				}
			}
		}
	}
	for _, lit := range allAnon(saver) { // function literals of the saver write for it
		for _, b := range lit.Blocks {
			for _, in := range b.Instrs {
				if call, ok := isBuiltinCall(in, "append"); ok && len(call.Call.Args) == 2 {
					if s, ok := constString(call.Call.Args[1]); ok {
						wt = append(wt, tok{call.Pos(), s})
					}
				}
			}
		}
	}
	sort.Slice(wt, func(i, j int) bool { return wt[i].pos < wt[j].pos })
	// reader tokens: const string args of calls inside the file package's parse functions
	var rt []tok
	var indent string
	var sepSkip, indentLen int64 = -1, -1
	var sepChar int64 = -1
	for _, fn := range c.ModFuncs {
		top := fn
		for top.Parent() != nil {
			top = top.Parent() // literals of the parse functions belong to them
		}
		if c.pkgOf(fn) != "plugin/input/file" || recvNamed(top) == nil || recvNamed(top).Obj().Name() != "offsetDB" || top == saver {
			continue
		}
		for _, b := range fn.Blocks {
			for _, in := range b.Instrs {
				switch x := in.(type) {
				case *ssa.Call:
					cf := x.Call.StaticCallee()
					if cf != nil && recvNamed(cf) != nil && recvNamed(cf).Obj().Name() == "offsetDB" && len(x.Call.Args) == 3 {
						if s, ok := constString(x.Call.Args[2]); ok {
							rt = append(rt, tok{x.Pos(), s})
						}
					}
					if cf != nil && qualName(cf) == "strings.LastIndexByte" {
						if k, ok := constInt(x.Call.Args[1]); ok {
							sepChar = k
						}
					}
					// the other spelling of the indent test: strings.HasPrefix / CutPrefix(line, "    ")
					if cf != nil && (qualName(cf) == "strings.HasPrefix" || qualName(cf) == "strings.CutPrefix") && len(x.Call.Args) == 2 {
						if s, ok := constString(x.Call.Args[1]); ok && strings.TrimSpace(s) == "" && len(s) > 0 {
							indent, indentLen = s, int64(len(s))
						}
					}
				case *ssa.BinOp:
					if x.Op == token.NEQ || x.Op == token.EQL {
						if s, ok := constString(x.Y); ok && strings.TrimSpace(s) == "" && len(s) > 0 {
							if sl, ok := x.X.(*ssa.Slice); ok && sl.High != nil {
								indent = s
								indentLen, _ = constInt(sl.High)
							}
						}
					}
					if x.Op == token.ADD {
						// pos + k used as the low bound of the offset substring
						if k, ok := constInt(x.Y); ok {
							if call, ok := x.X.(*ssa.Call); ok && call.Call.StaticCallee() != nil && qualName(call.Call.StaticCallee()) == "strings.LastIndexByte" {
								if refs := x.Referrers(); refs != nil {
									for _, ref := range *refs {
										if sl, ok := ref.(*ssa.Slice); ok && sl.Low == ssa.Value(x) {
											sepSkip = k
										}
									}
								}
							}
						}
					}
				}
			}
		}
	}
	sort.Slice(rt, func(i, j int) bool { return rt[i].pos < rt[j].pos })
	var ws, rs []string
	for _, t := range wt {
		ws = append(ws, t.s)
	}
	for _, t := range rt {
		rs = append(rs, t.s)
	}
	name := c.fnName(saver)
	r.Note("writer tokens %q; reader tokens %q; indent %q/%d; separator skip %d char %q", ws, rs, indent, indentLen, sepSkip, rune(sepChar))
	// line prefixes: every reader prefix occurs, in order, as a writer token (modulo a trailing newline on the writer side)
	wi := 0
	okOrder := true
	missing := ""
	for _, p := range rs {
		found := false
		for wi < len(ws) {
			w := strings.TrimSuffix(ws[wi], "\n")
			wi++
			if w == p {
				found = true
				break
			}
		}
		if !found {
			okOrder = false
			missing = p
			break
		}
	}
	r.Ob(len(rs) >= 4 && okOrder, name+"|prefixes", saver.Pos(), fmt.Sprintf("every line prefix the reader expects is emitted by the writer, in the same order (reader %q, writer %q, first missing %q)", rs, ws, missing))
	// and the writer emits no key line the reader does not know: writer tokens that look like "  key: " / "- key: "
	for _, w := range ws {
		t := strings.TrimSuffix(w, "\n")
		if strings.HasSuffix(strings.TrimSpace(t), ":") && strings.TrimSpace(t) != ":" {
			known := false
			for _, p := range rs {
				if p == t {
					known = true
				}
			}
			r.Ob(known, name+"|writer-key|"+strings.TrimSpace(t), saver.Pos(), "the key line "+fmt.Sprintf("%q", t)+" written is one the reader parses")
		}
	}
	// indent and separator
	hasIndent, sep := false, ""
	for _, w := range ws {
		if w == indent && indent != "" {
			hasIndent = true
		}
		if strings.HasPrefix(w, ":") && strings.TrimSpace(w) == ":" {
			sep = w
		}
	}
	r.Ob(hasIndent && int64(len(indent)) == indentLen, name+"|indent", saver.Pos(), fmt.Sprintf("stream lines are written with the indent the reader compares (%q, slice bound %d)", indent, indentLen))
	r.Ob(sep != "" && int64(len(sep)) == sepSkip && sepChar == int64(sep[0]), name+"|separator", saver.Pos(), fmt.Sprintf("the stream/offset separator %q has the length the reader skips (%d) and starts with the byte it searches (%q)", sep, sepSkip, rune(sepChar)))
}

func ruleRawNames(c *Ctx, r *Rule) {
	saver := c.fileSaver()
	if saver == nil {
		r.Unresolved("saver")
		return
	}
	r.Inst(1)
	name := c.fnName(saver)
	// appends whose source is Job.filename or a stream name, with no escaping call on the way
	for _, b := range saver.Blocks {
		for _, in := range b.Instrs {
			call, ok := isBuiltinCall(in, "append")
			if !ok || len(call.Call.Args) != 2 {
				continue
			}
			src := stripConv(call.Call.Args[1])
			what := ""
			if isLoadOfField(src, fileInPkg, "Job", "filename") {
				what = "Job.filename"
			}
			if o, f, _, okf := loadedField(src); okf && o != nil && f == "Stream" {
				what = "stream name"
			}
			if fl, okf := src.(*ssa.Field); okf {
				if _, f, _, ok2 := fieldOf(fl); ok2 && f == "Stream" {
					what = "stream name"
				}
			}
			if what == "" {
				continue
			}
			r.Ob(false, name+"|raw|"+what, call.Pos(), what+" is appended to the line-oriented offsets format without escaping, while the reader splits on '\\n' and rejects an empty stream: such a name makes the saved file unloadable")
		}
	}
}

// isResultCell: al is the local cell of a (named) result of fn, i.e. some return reloads it.
func isResultCell(fn *ssa.Function, al *ssa.Alloc) bool {
	for _, ret := range returnsOf(fn) {
		for _, r := range ret.Results {
			if u, ok := r.(*ssa.UnOp); ok && u.X == ssa.Value(al) {
				return true
			}
		}
	}
	if fn.Recover != nil {
		for _, in := range fn.Recover.Instrs {
			if u, ok := in.(*ssa.UnOp); ok && u.X == ssa.Value(al) {
				return true
			}
		}
	}
	return false
}

// allAnon: the function literals nested (at any depth) in fn.
func allAnon(fn *ssa.Function) []*ssa.Function {
	var out []*ssa.Function
	for _, a := range fn.AnonFuncs {
		out = append(out, a)
		out = append(out, allAnon(a)...)
	}
	return out
}

// nestedIn: f is fn or a function literal inside it.
func nestedIn(f, fn *ssa.Function) bool {
	for ; f != nil; f = f.Parent() {
		if f == fn {
			return true
		}
	}
	return false
}

// durableBoolHelper: h returns a bool, and every return that may be true lies behind the success edges
// of a write and of a Sync of the same file, the write first.
func (c *Ctx) durableBoolHelper(h *ssa.Function) (bool, string) {
	var syncs, writes []ssa.CallInstruction
	for _, ci := range callsIn(h) {
		if _, isDefer := ci.(*ssa.Defer); isDefer {
			continue
		}
		if _, ok := isOSFileMethod(ci, "Sync"); ok {
			syncs = append(syncs, ci)
		}
		if _, ok := isOSFileMethod(ci, "Write", "WriteString", "WriteAt"); ok {
			writes = append(writes, ci)
		}
	}
	if len(syncs) == 0 || len(writes) == 0 {
		return false, "no write + Sync of the temporary file in " + c.fnName(h)
	}
	for _, b := range h.Blocks {
		for _, in := range b.Instrs {
			if _, isDefer := in.(*ssa.Defer); isDefer {
				return false, c.fnName(h) + " defers work that may change its verdict"
			}
		}
	}
	for _, ret := range returnsOf(h) {
		res := retResults(ret)
		if len(res) != 1 {
			return false, c.fnName(h) + " does not return a single verdict"
		}
		if k, isK := constBool(res[0]); isK && !k {
			continue
		}
		okW, okS := false, false
		for _, w := range writes {
			if !c.succeededBefore(w, ret) {
				continue
			}
			for _, sy := range syncs {
				if c.succeededBefore(sy, ret) && instrDominates(w, sy) && sameVar(w.Common().Args[0], sy.Common().Args[0]) {
					okW, okS = true, true
				}
			}
		}
		if !okW || !okS {
			return false, "a return of " + c.fnName(h) + " at " + c.pos(ret.Pos()) + " may report success without a successful write and fsync of the same file before it"
		}
	}
	return true, ""
}

// ruleSnapshotBufferFresh: the saver formats the snapshot into a buffer it keeps between saves. Every
// save must start from an empty buffer: the reset (`buf = buf[:0]`) dominates every append of the
// formatting, so that whatever an earlier save — in particular a FAILED one that returned early — left
// in the buffer can never be written in front of the next snapshot.
func ruleSnapshotBufferFresh(c *Ctx, r *Rule) {
	saver := c.Method("plugin/input/file", "offsetDB", "save")
	if saver == nil {
		r.Unresolved("offsetDB.save")
		return
	}
	var resets, appends []ssa.Instruction
	for _, a := range c.fieldAccesses(fileInPkg, "offsetDB", "buf") {
		if !a.write || !nestedIn(a.fn, saver) {
			continue
		}
		switch v := stripConv(a.val).(type) {
		case *ssa.Slice:
			if k, isK := constInt(v.High); v.High != nil && isK && k == 0 && v.Low == nil {
				resets = append(resets, a.in)
				continue
			}
			appends = append(appends, a.in)
		default:
			appends = append(appends, a.in)
		}
	}
	r.Inst(1)
	name := c.fnName(saver)
	r.Ob(len(appends) >= 1, name+"|buffer-appends", saver.Pos(), fmt.Sprintf("the saver formats the snapshot into offsetDB.buf (%d stores)", len(appends)))
	bad := token.NoPos
	for _, ap := range appends {
		dom := false
		for _, rs := range resets {
			if rs.Parent() == ap.Parent() && instrDominates(rs, ap) {
				dom = true
			}
			if rs.Parent() != ap.Parent() {
				// one of the two sits in a literal of the saver: compare their sites in the saver
				if a, b := c.siteIn(rs, saver), c.siteIn(ap, saver); a != nil && b != nil && instrDominates(a, b) {
					dom = true
				}
			}
		}
		if !dom && bad == token.NoPos {
			bad = ap.Pos()
		}
	}
	pos := saver.Pos()
	if bad != token.NoPos {
		pos = bad
	}
	r.Ob(bad == token.NoPos && len(resets) >= 1, name+"|buffer-emptied-before-formatting", pos, "the snapshot buffer is emptied before the first byte of a snapshot is appended (a reset placed after the write leaves the text of a failed save in front of the next snapshot: every source appears twice and the file no longer loads)")
}
