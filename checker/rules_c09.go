package main

import (
	"fmt"
	"go/token"
	"go/types"
	"strings"

	"golang.org/x/tools/go/ssa"
)

func init() {
	explain("C09", "Static necessary conditions of 'a failed batch goes exactly one way', decided exhaustively over the source: the retry loop returns only on success or on exhaustion after the error callback, with at least AttemptNum+1 attempts (counter shape); on the exhaustion path the error callback gets this batch's events and error exactly once, and the batch is emptied and marked InDeadQueue iff the dead-queue flag is set (control dependence with polarity, both directions); the worker never reads the batch's events before the send, so an emptied batch commits nothing; all nine sibling onError closures call Router.Fail for every event unconditionally and wire IsDeadQueueAvailable from the Router, fatal level only without a dead queue; Router.Fail forwards to the dead queue under the availability test and does nothing else. "+
		"NOT decided: growth of the pauses, which issuer commits at run time.",
		"go/types, go/ssa and x/tools call resolution are correct")
	reg("C09", "C09.R1", "E2", "retry loop exits (same rule as C01.R6, incl. attempt lower bound)", 1, ruleRetryLoopExits)
	reg("C09", "C09.R2", "E2", "exhaustion path: batch reset + InDeadQueue iff dead queue available; callback gets batch.events", 1, ruleExhaustionPath)
	reg("C09", "C09.R3", "E1", "the commit reads batch.events after the send (worker holds only the batch pointer)", 1, ruleCommitReadsAfterSend)
	reg("C09", "C09.R4", "E7", "sibling onError closures: unconditional Fail loop over all events; IsDeadQueueAvailable wired from the Router; fatal only without dead queue", 9, ruleOnErrorSiblings)
	reg("C09", "C09.R5", "E2", "Router.Fail forwards the event to the dead queue under the availability test and does nothing else", 1, ruleRouterFail)
	reg("C09", "C09.R7", "E6", "the dead queue a pipeline is given is its own: per-pipeline plugin settings are never stored through the registry's shared entry", 2, ruleRegistryEntriesShared)
	reg("C09", "C09.R8", "E6", "an error is passed on with the status code of the call that failed (the retry / final decision reads that code)", 2, ruleStatusOfFailingCall)
	reg("C09", "C09.R9", "E2+E3", "a batch given up to the dead queue still takes its commit turn in order: sequenced commit region (same rule as C01.R5)", 1, ruleSequencedRegion)
	reg("C09", "C09.R6", "E2", "send-before-commit in the worker (same rule as C01.R4)", 1, ruleSendBeforeCommit)
}

func ruleExhaustionPath(c *Ctx, r *Rule) {
	fn := c.retryFn()
	if fn == nil {
		r.Unresolved("retry loop")
		return
	}
	r.Inst(1)
	name := c.fnName(fn)
	var cb ssa.CallInstruction
	for _, ci := range callsIn(fn) {
		if o, _, _, ok := callThroughField(ci); ok && inPkg(o, pipelinePkg) && o.Obj().Name() == "RetriableBatcher" {
			sig := ci.Common().Signature()
			if sig.Results().Len() == 0 {
				cb = ci
			}
		}
	}
	if cb == nil {
		r.Ob(false, name+"|callback", fn.Pos(), "no error callback call found")
		return
	}
	// reset function = Batch method re-slicing events to [:0]
	var resetFn *ssa.Function
	for _, a := range c.fieldAccesses(pipelinePkg, "Batch", "events") {
		if a.write {
			if _, ok := a.val.(*ssa.Slice); ok {
				resetFn = a.fn
			}
		}
	}
	var resets []ssa.CallInstruction
	for _, ci := range callsIn(fn) {
		if calleeFunc(ci) == resetFn && resetFn != nil {
			resets = append(resets, ci)
		}
	}
	r.Ob(len(resets) == 1, name+"|single-reset", fn.Pos(), fmt.Sprintf("%d batch.reset() calls in the retry function (expected 1)", len(resets)))
	isFlag := func(v ssa.Value) bool {
		return isLoadOfField(v, pipelinePkg, "RetriableBatcher", "isDeadQueueAvailable")
	}
	for _, rs := range resets {
		g := false
		for _, l := range c.unitGuards(rs) {
			if isFlag(l.v) && l.pol {
				g = true
			}
		}
		r.Ob(g, name+"|reset-only-with-dead-queue", rs.Pos(), "the batch is emptied only when a dead queue exists (otherwise the main output must commit the events); guards: "+c.clausesString(c.guards(fn)[rs.Block()]))
		r.Ob(instrDominates(cb, rs), name+"|reset-after-callback", rs.Pos(), "the batch is emptied only after the error callback has handed its events on")
		// status = InDeadQueue right after
		okSt := false
		for _, a := range c.fieldAccesses(pipelinePkg, "Batch", "status") {
			if a.write && a.fn == fn && instrDominates(rs, a.in) {
				if k, ok := constInt(a.val); ok && k == 3 {
					okSt = true
				}
			}
		}
		r.Ob(okSt, name+"|status-in-dead-queue", rs.Pos(), "the emptied batch is marked BatchStatusInDeadQueue (after reset, which clears the status)")
		// the batch reset is the function's own batch
		p, isP := rs.Common().Args[0].(*ssa.Parameter)
		r.Ob(isP && paramIndex(fn, p) >= 0, name+"|reset-own-batch", rs.Pos(), "the batch emptied is the batch that failed")
	}
	// with a dead queue, the exhaustion path always empties the batch
	if len(resets) == 1 {
		edgeOK := func(b *ssa.BasicBlock, i int) bool {
			iff, ok := b.Instrs[len(b.Instrs)-1].(*ssa.If)
			if !ok {
				return true
			}
			v, pol := peelNot(iff.Cond, i == 0)
			if isFlag(v) && !pol {
				return false
			}
			if bo, ok := v.(*ssa.BinOp); ok && (bo.Op == token.NEQ || bo.Op == token.EQL) {
				// batch == nil edge
				if p, isP := bo.X.(*ssa.Parameter); isP && isNilConst(bo.Y) && typeIs(p.Type(), pipelinePkg, "Batch") {
					isNil := (bo.Op == token.EQL) == pol
					if isNil {
						return false
					}
				}
			}
			return true
		}
		miss, w := c.pathExistsE(fn, cb, isReturn, func(in ssa.Instruction) bool { return in == ssa.Instruction(resets[0]) }, edgeOK)
		msg := "with a dead queue every exhaustion path empties the main batch (so the main output commits nothing and the dead queue alone commits)"
		if miss {
			msg = "with a dead queue a path from the error callback returns at " + c.pos(w.Pos()) + " without emptying the batch: the events are committed by the main output AND by the dead queue (double commit)"
		}
		r.Ob(!miss, name+"|reset-when-dead-queue", cb.Pos(), msg)
	}
	// the callback receives this batch's events
	args := cb.Common().Args
	okEv := false
	if len(args) == 2 {
		v := args[1]
		if phi, ok := v.(*ssa.Phi); ok {
			for _, e := range phi.Edges {
				if isLoadOfField(e, pipelinePkg, "Batch", "events") {
					okEv = true
				}
			}
		} else if isLoadOfField(v, pipelinePkg, "Batch", "events") {
			okEv = true
		}
	}
	r.Ob(okEv, name+"|callback-events", cb.Pos(), "the error callback receives the failed batch's own events")
	once, _ := c.pathExists(fn, cb, func(in ssa.Instruction) bool { return in == ssa.Instruction(cb) }, nil)
	r.Ob(!once, name+"|callback-once", cb.Pos(), "the error callback is called at most once per batch (not inside the retry cycle)")
	// the flag is set from BackoffOpts.IsDeadQueueAvailable in the constructor only
	for _, a := range c.fieldAccesses(pipelinePkg, "RetriableBatcher", "isDeadQueueAvailable") {
		if a.write {
			r.Ob(isFreshAlloc(refOf(a.base).root) && isLoadOfFieldOrField(a.val, "BackoffOpts", "IsDeadQueueAvailable"), c.fnName(a.fn)+"|flag-source", a.in.Pos(), "the dead-queue flag is initialised from BackoffOpts.IsDeadQueueAvailable in the constructor only")
		}
	}
}

func isLoadOfFieldOrField(v ssa.Value, typ, field string) bool {
	if isLoadOfField(v, pipelinePkg, typ, field) {
		return true
	}
	if f, ok := stripConv(v).(*ssa.Field); ok {
		o, fl, _, ok2 := fieldOf(f)
		return ok2 && isField(o, fl, pipelinePkg, typ, field)
	}
	return false
}

func ruleCommitReadsAfterSend(c *Ctx, r *Rule) {
	br := c.batcher()
	if br.worker == nil || br.commit == nil {
		r.Unresolved("worker/commit")
		return
	}
	r.Inst(1)
	n := 0
	for _, a := range c.fieldAccesses(pipelinePkg, "Batch", "events") {
		if a.fn == br.worker {
			n++
		}
	}
	r.Ob(n == 0, c.fnName(br.worker)+"|no-events-capture", br.worker.Pos(), fmt.Sprintf("the worker does not read batch.events itself (%d accesses): the commit loop loads them after the send returned, so a batch emptied by dead-queue routing commits nothing", n))
	// commit function loads events itself (checked with the loop shape in C02.R3); here: at least one load inside it
	m := 0
	for _, a := range c.fieldAccesses(pipelinePkg, "Batch", "events") {
		if a.fn == br.commit && !a.write {
			m++
		}
	}
	r.Ob(m >= 1, c.fnName(br.commit)+"|loads-events", br.commit.Pos(), "the sequenced commit loads batch.events itself")
}

func ruleOnErrorSiblings(c *Ctx, r *Rule) {
	ctor := c.Func("pipeline", "NewRetriableBatcher")
	fail := c.Method("pipeline", "Router", "Fail")
	avail := c.Method("pipeline", "Router", "IsDeadQueueAvailable")
	if ctor == nil || fail == nil || avail == nil {
		r.Unresolved("NewRetriableBatcher / Router.Fail / Router.IsDeadQueueAvailable")
		return
	}
	for _, cs := range c.sitesOf(ctor) {
		caller := cs.Parent()
		r.Inst(1)
		name := c.fnName(caller)
		args := cs.Common().Args
		if len(args) != 4 {
			r.Ob(false, name+"|args", cs.Pos(), "unexpected argument count")
			continue
		}
		// onError closure
		var cl *ssa.Function
		if mc, ok := stripConv(args[3]).(*ssa.MakeClosure); ok {
			cl, _ = mc.Fn.(*ssa.Function)
		} else if u, ok := args[3].(*ssa.UnOp); ok && u.Op == token.MUL {
			// local variable holding the closure
			if al, ok := u.X.(*ssa.Alloc); ok {
				for _, ref := range *al.Referrers() {
					if st, ok := ref.(*ssa.Store); ok && st.Addr == al {
						if mc, ok := stripConv(st.Val).(*ssa.MakeClosure); ok {
							cl, _ = mc.Fn.(*ssa.Function)
						}
					}
				}
			}
		}
		// a method value (p.onRetryError): the bound wrapper calls the method with the same arguments
		if cl != nil && cl.Synthetic != "" {
			for _, cj := range callsIn(cl) {
				if g := cj.Common().StaticCallee(); g != nil && g.Blocks != nil && g.Synthetic == "" && c.inModule(g) {
					cl = g
					break
				}
			}
		}
		if cl == nil {
			r.Ob(false, name+"|closure", cs.Pos(), "cannot resolve the onError closure")
			continue
		}
		events := cl.Params[len(cl.Params)-1]
		var failCalls []ssa.CallInstruction
		for _, ci := range callsIn(cl) {
			if calleeFunc(ci) == fail {
				failCalls = append(failCalls, ci)
			}
		}
		if len(failCalls) != 1 {
			r.Ob(false, name+"|fail-call", cl.Pos(), fmt.Sprintf("onError has %d Router.Fail calls (expected exactly 1, in a loop over all events)", len(failCalls)))
			continue
		}
		fc := failCalls[0]
		// argument = events[i], i ascending from 0
		okArg := false
		if u, ok := fc.Common().Args[1].(*ssa.UnOp); ok && u.Op == token.MUL {
			if ia, ok := u.X.(*ssa.IndexAddr); ok && ia.X == ssa.Value(events) && ascendingFromZero(ia.Index) {
				okArg = true
			}
		}
		r.Ob(okArg, name+"|fail-each-event", fc.Pos(), "Router.Fail is called with events[i] for i = 0,1,2,… of the callback's event slice ("+c.path(fc.Common().Args[1])+")")
		// guards of the Fail call: only the loop bound
		extra := ""
		var header *ssa.BasicBlock
		for _, cl2 := range c.guards(cl)[fc.Block()] {
			for _, l := range cl2 {
				isLoop := false
				if op, x, y, ok := cmpLit(l); ok && op == token.LSS {
					if call, isCall := y.(*ssa.Call); isCall {
						if b, isB := call.Call.Value.(*ssa.Builtin); isB && b.Name() == "len" && call.Call.Args[0] == ssa.Value(events) {
							isLoop = true
							if in, ok := l.v.(ssa.Instruction); ok {
								header = in.Block()
							}
						}
					}
					_ = x
				}
				if !isLoop {
					extra = c.litString(l)
				}
			}
		}
		r.Ob(extra == "" && header != nil, name+"|fail-unconditional", fc.Pos(), "the Fail call is guarded only by the loop bound (extra guard: "+extra+")")
		if header != nil {
			skip, w := c.pathExists(cl, nil, isReturn, func(in ssa.Instruction) bool { return in.Block() == header })
			msg := "every returning path of onError runs the Fail loop"
			if skip {
				msg = "onError can return at " + c.pos(w.Pos()) + " without running the Fail loop: with a dead queue the batch is emptied but its events were never handed to it (lost and never committed)"
			}
			r.Ob(!skip, name+"|fail-loop-on-all-paths", cl.Pos(), msg)
		}
		// fatal level only without dead queue
		for _, b := range cl.Blocks {
			for _, in := range b.Instrs {
				phi, ok := in.(*ssa.Phi)
				if !ok {
					continue
				}
				for i, e := range phi.Edges {
					if k, isK := constInt(e); isK && k == 5 && typeIs(e.Type(), "go.uber.org/zap/zapcore", "Level") {
						pred := b.Preds[i]
						g := false
						for _, cl3 := range c.edgeFactsOf(cl, pred, b) {
							if len(cl3) == 1 && !cl3[0].pol {
								if call, isCall := cl3[0].v.(*ssa.Call); isCall && call.Call.StaticCallee() == avail {
									g = true
								}
							}
						}
						r.Ob(g, name+"|fatal-only-without-dead-queue", phi.Pos(), "the fatal log level is chosen only when no dead queue is available (with one, the process must go on and route the events)")
					}
				}
			}
		}
		// BackoffOpts.IsDeadQueueAvailable wired from Router.IsDeadQueueAvailable()
		okW := false
		for _, a := range c.fieldAccesses(pipelinePkg, "BackoffOpts", "IsDeadQueueAvailable") {
			if a.write && a.fn == caller {
				if call, ok := a.val.(*ssa.Call); ok && call.Call.StaticCallee() == avail {
					okW = true
				}
			}
		}
		r.Ob(okW, name+"|flag-wired", cs.Pos(), "BackoffOpts.IsDeadQueueAvailable is the Router's IsDeadQueueAvailable() (hard-coding it makes the batcher empty or keep the batch the wrong way)")
	}
}

// edgeFactsOf exposes edge facts after guards() has been computed for fn.
func (c *Ctx) edgeFactsOf(fn *ssa.Function, p, b *ssa.BasicBlock) []clause {
	c.guards(fn)
	return c.edgeFacts(c.info(fn), p, b)
}

func ruleRouterFail(c *Ctx, r *Rule) {
	fail := c.Method("pipeline", "Router", "Fail")
	avail := c.Method("pipeline", "Router", "IsDeadQueueAvailable")
	ro := c.roles()
	if fail == nil || avail == nil || ro.outOut == nil {
		r.Unresolved("Router.Fail / IsDeadQueueAvailable")
		return
	}
	r.Inst(1)
	name := c.fnName(fail)
	var outs []ssa.CallInstruction
	other := 0
	for _, ci := range callsIn(fail) {
		switch {
		case invokesMethod(ci, ro.outOut):
			outs = append(outs, ci)
		case calleeFunc(ci) == avail:
		default:
			other++
		}
	}
	r.Ob(len(outs) == 1 && other == 0, name+"|shape", fail.Pos(), fmt.Sprintf("Router.Fail does exactly one thing: %d Out calls, %d other calls", len(outs), other))
	for _, o := range outs {
		_, f, _, _ := invokeOnField(o)
		r.Ob(f == "deadQueue", name+"|target", o.Pos(), "the failed event goes to the dead-queue output")
		p, isP := o.Common().Args[0].(*ssa.Parameter)
		r.Ob(isP && paramIndex(fail, p) == 1, name+"|same-event", o.Pos(), "the event forwarded is the event given")
		g := false
		for _, l := range c.unitGuards(o) {
			if call, ok := l.v.(*ssa.Call); ok && l.pol && call.Call.StaticCallee() == avail {
				g = true
			}
		}
		r.Ob(g, name+"|guard", o.Pos(), "forwarding is control-dependent on IsDeadQueueAvailable()")
		cyc, _ := c.pathExists(fail, o, func(in ssa.Instruction) bool { return in == ssa.Instruction(o) }, nil)
		r.Ob(!cyc, name+"|once", o.Pos(), "each failed event is forwarded once")
	}
	// IsDeadQueueAvailable == (deadQueue != nil)
	okA := false
	for _, ret := range returnsOf(avail) {
		if len(ret.Results) == 1 {
			if bo, ok := ret.Results[0].(*ssa.BinOp); ok && bo.Op == token.NEQ && isLoadOfField(bo.X, pipelinePkg, "Router", "deadQueue") {
				if k, ok := bo.Y.(*ssa.Const); ok && k.Value == nil {
					okA = true
				}
			}
		}
	}
	r.Ob(okA, c.fnName(avail)+"|definition", avail.Pos(), "IsDeadQueueAvailable() is deadQueue != nil")
	_ = types.Typ
}

// ruleRegistryEntriesShared: the plugin registry hands out ONE PluginStaticInfo per plugin type, shared by
// every pipeline. Per-pipeline settings (the decoded config, the dead-queue info) must therefore be
// stored in a copy; a store through the registry's pointer changes the dead queue (or plugin) of
// every other pipeline that uses the same type — all pipelines are built before any is started.
func ruleRegistryEntriesShared(c *Ctx, r *Rule) {
	reg := c.Named("fd", "PluginRegistry")
	if reg == nil {
		r.Unresolved("fd.PluginRegistry")
		return
	}
	// getters: methods of the registry returning *PluginStaticInfo
	getters := map[*ssa.Function]bool{}
	for _, fn := range c.ModFuncs {
		if rn := recvNamed(fn); rn == reg && fn.Signature.Results().Len() >= 1 {
			if typeIs(fn.Signature.Results().At(0).Type(), pipelinePkg, "PluginStaticInfo") {
				getters[fn] = true
			}
		}
	}
	if len(getters) == 0 {
		r.Unresolved("registry getters returning *PluginStaticInfo")
		return
	}
	var fromRegistry func(v ssa.Value, d int) (string, bool)
	fromRegistry = func(v ssa.Value, d int) (string, bool) {
		if d > 6 {
			return "", false
		}
		switch x := stripConv(v).(type) {
		case *ssa.Call:
			if f := x.Call.StaticCallee(); f != nil && getters[f] {
				return c.fnName(f), true
			}
		case *ssa.Extract:
			return fromRegistry(x.Tuple, d+1)
		case *ssa.Phi:
			for _, e := range x.Edges {
				if s, ok := fromRegistry(e, d+1); ok {
					return s, true
				}
			}
		case *ssa.Parameter:
			// a helper that receives the entry: every call site
			fn := x.Parent()
			pi := paramIndex(fn, x)
			for _, cs := range c.sitesOf(fn) {
				if pi >= 0 && pi < len(cs.Common().Args) {
					if s, ok := fromRegistry(cs.Common().Args[pi], d+1); ok {
						return s, true
					}
				}
			}
		case *ssa.UnOp:
			if x.Op == token.MUL {
				if cv := cellValue(x.X); cv != nil {
					return fromRegistry(cv, d+1)
				}
			}
		}
		return "", false
	}
	nGet, nStore := 0, 0
	c.eachCall(func(fn *ssa.Function, ci ssa.CallInstruction) {
		if f := ci.Common().StaticCallee(); f != nil && getters[f] {
			nGet++
		}
	})
	for _, fn := range c.ModFuncs {
		for _, b := range fn.Blocks {
			for _, in := range b.Instrs {
				st, ok := in.(*ssa.Store)
				if !ok {
					continue
				}
				fa, ok := st.Addr.(*ssa.FieldAddr)
				if !ok || !typeIs(fa.X.Type(), pipelinePkg, "PluginStaticInfo") {
					continue
				}
				nStore++
				src, shared := fromRegistry(fa.X, 0)
				o, f, _, _ := fieldOf(fa)
				name := f
				if o != nil {
					name = o.Obj().Name() + "." + f
				}
				r.Inst(1)
				r.Ob(!shared, c.fnName(fn)+"|writes-"+name, st.Pos(), "per-pipeline plugin settings are stored in a copy, never through the registry's shared entry"+ifs(shared, " (the written info is the result of "+src+": every pipeline using this plugin type — e.g. a dead queue of the same type — gets the settings of the pipeline built last)"))
			}
		}
	}
	r.Inst(1)
	r.Ob(nGet >= 2 && nStore >= 1, "registry|scope", token.NoPos, fmt.Sprintf("%d registry look-ups, %d stores into a PluginStaticInfo examined", nGet, nStore))
}

// ruleStatusOfFailingCall: the send functions classify a failure by its HTTP status (400 / 413 are final,
// everything else is retried). Where a function passes on an (status, error) pair, the status must be the
// one that came with that error: an error of one request returned with the status of another turns a
// retryable failure into "non-retryable", and the batch is committed without retry, callback or dead queue.
func ruleStatusOfFailingCall(c *Ctx, r *Rule) {
	n := 0
	for _, fn := range c.ModFuncs {
		if !strings.HasPrefix(c.pkgOf(fn), "plugin/output/") || fn.Signature.Results().Len() != 2 {
			continue
		}
		res := fn.Signature.Results()
		if !isIntegerType(res.At(0).Type()) || !isErrorT(res.At(1).Type()) {
			continue
		}
		for i, ret := range returnsOf(fn) {
			rr := retResults(ret)
			e, okE := stripConv(rr[1]).(*ssa.Extract)
			if !okE {
				continue
			}
			call, isCall := e.Tuple.(*ssa.Call)
			if !isCall || call.Type().(*types.Tuple).Len() != 2 {
				continue
			}
			n++
			r.Inst(1)
			ok := false
			switch s := stripConv(rr[0]).(type) {
			case *ssa.Extract:
				ok = s.Tuple == e.Tuple
			case *ssa.Const:
				ok = true // a fixed status chosen by this function
			}
			r.Ob(ok, fmt.Sprintf("%s|return#%d|status-of-the-failing-call", c.fnName(fn), i), ret.Pos(), "an error passed on from "+c.path(call)+" is returned with the status code of that same call (found "+c.path(rr[0])+")")
		}
	}
	r.Ob(n >= 2, "plugin/output|status-error-pairs", token.NoPos, fmt.Sprintf("%d returns passing on a (status, error) pair examined", n))
}
