package main

import (
	"fmt"

	"golang.org/x/tools/go/ssa"
)

// C20.R8 — antispam is off unless a threshold is configured.
//
// Settings.AntispamThreshold == DefaultAntispamThreshold (-1) is what switches admission control by
// rate off; 0 means "ban at once". The pipeline-level threshold is read from the configuration map in
// fd.extractPipelineParams with simplejson's MustInt, whose result for an ABSENT key is its optional
// default argument — or 0 without one. Every such read of a key named "threshold" / "antispam_threshold"
// in that function must therefore pass the disabled value as the default.
func init() {
	reg("C20", "C20.R8", "E6", "an absent antispam threshold means disabled: every MustInt read of the pipeline-level threshold passes DefaultAntispamThreshold as its default", 2, ruleAntispamDefault)
}

// variadicConsts: the constant elements of the slice literal passed as a variadic argument.
func variadicConsts(v ssa.Value) []int64 {
	sl, ok := v.(*ssa.Slice)
	if !ok {
		return nil
	}
	al, ok := sl.X.(*ssa.Alloc)
	if !ok || al.Referrers() == nil {
		return nil
	}
	var out []int64
	for _, rf := range *al.Referrers() {
		ia, ok := rf.(*ssa.IndexAddr)
		if !ok || ia.Referrers() == nil {
			continue
		}
		for _, u := range *ia.Referrers() {
			if st, ok := u.(*ssa.Store); ok && st.Addr == ia {
				if k, isK := constInt(st.Val); isK {
					out = append(out, k)
				}
			}
		}
	}
	return out
}

func ruleAntispamDefault(c *Ctx, r *Rule) {
	fn := c.Func("fd", "extractPipelineParams")
	if fn == nil {
		r.Unresolved("fd.extractPipelineParams")
		return
	}
	var disabled int64 = -1
	if p := c.ssaPkg("pipeline"); p != nil {
		if k, ok := p.Members["DefaultAntispamThreshold"].(*ssa.NamedConst); ok {
			if v, isK := constInt(k.Value); isK {
				disabled = v
			}
		}
	}
	name := c.fnName(fn)
	n := 0
	for _, f := range append([]*ssa.Function{fn}, allAnon(fn)...) {
		for _, ci := range callsIn(f) {
			cf := calleeFunc(ci)
			if cf == nil || cf.Name() != "MustInt" || len(ci.Common().Args) < 1 {
				continue
			}
			get, ok := stripConv(ci.Common().Args[0]).(*ssa.Call)
			if !ok || get.Call.StaticCallee() == nil || get.Call.StaticCallee().Name() != "Get" || len(get.Call.Args) < 2 {
				continue
			}
			key, isStr := constString(get.Call.Args[1])
			if !isStr || (key != "threshold" && key != "antispam_threshold") {
				continue
			}
			n++
			r.Inst(1)
			ok = false
			if len(ci.Common().Args) >= 2 {
				for _, k := range variadicConsts(ci.Common().Args[1]) {
					if k == disabled {
						ok = true
					}
				}
			}
			r.Ob(ok, fmt.Sprintf("%s|%s-default-disabled", name, key), ci.Pos(), fmt.Sprintf("the read of %q passes DefaultAntispamThreshold (%d) as MustInt's default: without it an antispam section that has no threshold yields 0, and every record of every source is refused as spam", key, disabled))
		}
	}
	r.Ob(n >= 2, name+"|threshold-reads", fn.Pos(), fmt.Sprintf("extractPipelineParams reads the pipeline-level threshold from the new and the legacy key (%d reads)", n))
}
