package main

import (
	"fmt"
	"go/token"

	"golang.org/x/tools/go/ssa"
)

// C01.R17 = C15.R14 = C04.R14 — a holding action sees every next event of its stream.
//
// While a multi-line action holds an event (busyActions[index]), the next events of the stream must go
// THROUGH it, matched by its selector or not: that is what keeps them behind the held event (commit
// order), what lets the action flush on a non-continuation line, and what keeps the processor on the
// stream so that a time-out can flush the held event. In processor.doActions the only way round an
// action is the selector test; it must be evaluated only where the action is known not to be busy.
func init() {
	d := "the selector test that can skip an action in doActions is evaluated only where that action is known not busy (and the event is not a time-out): a holding action receives every next event of its stream"
	reg("C01", "C01.R17", "E2", d, 1, ruleBusyActionNotSkipped)
	reg("C15", "C15.R14", "E2", d+" (same rule as C01.R17)", 1, ruleBusyActionNotSkipped)
	reg("C04", "C04.R14", "E2", d+" (same rule as C01.R17)", 1, ruleBusyActionNotSkipped)
}

func ruleBusyActionNotSkipped(c *Ctx, r *Rule) {
	fn := c.Method("pipeline", "processor", "doActions")
	match := c.Method("pipeline", "processor", "isMatch")
	if fn == nil || match == nil {
		r.Unresolved("processor.doActions / isMatch")
		return
	}
	name := c.fnName(fn)
	isBusyLoad := func(v ssa.Value) bool {
		u, ok := stripConv(v).(*ssa.UnOp)
		if !ok || u.Op != token.MUL {
			return false
		}
		ia, ok := u.X.(*ssa.IndexAddr)
		if !ok {
			return false
		}
		o, f, _, ok := loadedField(stripConv(ia.X))
		return ok && isField(o, f, modulePath+"/pipeline", "processor", "busyActions")
	}
	n := 0
	for _, f := range append([]*ssa.Function{fn}, allAnon(fn)...) {
		for _, ci := range callsIn(f) {
			if calleeFunc(ci) != match {
				continue
			}
			n++
			r.Inst(1)
			notBusy, notTimeout := false, false
			for _, l := range c.unitGuardsCtx(ci) {
				if !l.pol && isBusyLoad(l.v) {
					notBusy = true
				}
				if call, ok := l.v.(*ssa.Call); ok && !l.pol {
					if cf := call.Call.StaticCallee(); cf != nil && cf.Name() == "IsTimeoutKind" {
						notTimeout = true
					}
				}
			}
			r.Ob(notBusy, name+"|selector-only-when-not-busy", ci.Pos(), "the selector is consulted only where busyActions[index] is known false: an event that does not match must still pass through an action that is holding an earlier event of the stream, or it is committed ahead of the held one and the processor leaves the stream without any time-out flush")
			r.Ob(notTimeout, name+"|selector-not-for-timeouts", ci.Pos(), "the selector is not consulted for a time-out event (it has no fields; it must reach the holding action to flush it)")
		}
	}
	r.Ob(n >= 1, name+"|consults-selector", fn.Pos(), fmt.Sprintf("doActions consults the action's selector (%d sites)", n))
}
