package main

import (
	"fmt"
	"go/ast"
	"go/constant"
	"go/token"
	"go/types"
	"sort"
	"strings"

	"golang.org/x/tools/go/ssa"
)

const doifPkg = modulePath + "/pipeline/doif"

func init() {
	explain("C14", "Thin static necessary conditions of 'selection follows the documented boolean semantics', decided exhaustively over the source: every operator constant of the do_if enums is produced by a constructor and handled by an explicit case in every evaluation switch over that enum (a default does not count); the comparison operator behind each documented tag is the right Go operator on (lhs, rhs); each field operator's positive verdict comes from the matching bytes/regexp primitive; and/or/not have their short-circuit shape (or: true on the first true operand, false at the end; and: the dual; not: negation of the single operand); evaluation methods are pure (no store into the node or a global, so earlier events cannot influence the decision); legacy match_fields: or-mode returns true only on a match and false at the end, and-mode the dual, inversion negates. "+
		"NOT decided: the meaning of the value-list short-cuts (valuesBySize / minValLen / maxValLen), value ordering, case folding, timestamp parsing.",
		"go/types, go/ssa and x/tools call resolution are correct")
	reg("C14", "C14.R1", "E7", "every operator constant is constructed and has an explicit case in every evaluation switch", 5, ruleEnumExhaustive)
	reg("C14", "C14.R2", "E7", "tag -> primitive agreement: comparison tags, field operators, logical operators", 3, ruleTagSemantics)
	reg("C14", "C14.R3", "E1", "evaluation methods are pure", 5, ruleCheckPure)
	reg("C14", "C14.R5", "E2", "tree construction keeps the configured operands; operands of a nested node are spliced only for and/or", 1, ruleTreeConstruction)
	reg("C14", "C14.R6", "E7", "check_type: each documented type name selects that type's node predicate, with its own already-listed marker", 6, ruleCheckTypeTable)
	reg("C14", "C14.R7", "E2", "the length early-exit of field operators excludes the operators that can match on less (contains_any, regex)", 1, ruleLengthShortCut)
	reg("C14", "C14.R4", "E2", "legacy match_fields: or / and shapes and inversion", 2, ruleLegacyMatch)
}

type enumInfo struct {
	typ    *types.Named
	consts []*types.Const
}

func (c *Ctx) doifEnums() []enumInfo {
	p := c.Pkgs[doifPkg]
	if p == nil {
		return nil
	}
	by := map[*types.Named][]*types.Const{}
	sc := p.Types.Scope()
	for _, nm := range sc.Names() {
		k, ok := sc.Lookup(nm).(*types.Const)
		if !ok {
			continue
		}
		n, ok := k.Type().(*types.Named)
		if !ok || n.Obj().Pkg() != p.Types {
			continue
		}
		by[n] = append(by[n], k)
	}
	var out []enumInfo
	for n, ks := range by {
		if len(ks) >= 2 {
			sort.Slice(ks, func(i, j int) bool { return ks[i].Pos() < ks[j].Pos() })
			out = append(out, enumInfo{n, ks})
		}
	}
	sort.Slice(out, func(i, j int) bool { return out[i].typ.Obj().Name() < out[j].typ.Obj().Name() })
	return out
}

func isUnknownConst(k *types.Const) bool {
	n := strings.ToLower(k.Name())
	return strings.Contains(n, "unknown")
}

func ruleEnumExhaustive(c *Ctx, r *Rule) {
	p := c.Pkgs[doifPkg]
	if p == nil {
		r.Unresolved("package pipeline/doif")
		return
	}
	enums := c.doifEnums()
	evalNames := map[string]bool{"Check": true, "compare": true, "checkType": true}
	for _, e := range enums {
		tn := e.typ.Obj().Name()
		// which switches range over this enum
		type sw struct {
			fn    string
			pos   token.Pos
			cases map[string]bool
			eval  bool
		}
		var sws []sw
		for _, f := range p.Syntax {
			if strings.HasSuffix(c.Fset.Position(f.Pos()).Filename, "_test.go") {
				continue
			}
			for _, d := range f.Decls {
				fd, ok := d.(*ast.FuncDecl)
				if !ok || fd.Body == nil {
					continue
				}
				// the other spelling of such a switch: a chain of `subject == K` tests on the same subject
				chains := map[string]*sw{}
				var chainOrder []string
				ast.Inspect(fd.Body, func(n ast.Node) bool {
					be, ok := n.(*ast.BinaryExpr)
					if !ok || be.Op != token.EQL {
						return true
					}
					for _, pair := range [][2]ast.Expr{{be.X, be.Y}, {be.Y, be.X}} {
						stv, ok1 := p.TypesInfo.Types[pair[0]]
						ktv, ok2 := p.TypesInfo.Types[pair[1]]
						if !ok1 || !ok2 || stv.Value != nil || ktv.Value == nil || !types.Identical(stv.Type, e.typ) || !types.Identical(ktv.Type, e.typ) {
							continue
						}
						key := types.ExprString(pair[0])
						ch := chains[key]
						if ch == nil {
							ch = &sw{fn: fd.Name.Name, pos: be.Pos(), cases: map[string]bool{}, eval: evalNames[fd.Name.Name]}
							chains[key] = ch
							chainOrder = append(chainOrder, key)
						}
						ch.cases[ktv.Value.ExactString()] = true
					}
					return true
				})
				for _, key := range chainOrder {
					if ch := chains[key]; len(ch.cases) >= 2 {
						sws = append(sws, *ch)
					}
				}
				ast.Inspect(fd.Body, func(n ast.Node) bool {
					ss, ok := n.(*ast.SwitchStmt)
					if !ok || ss.Tag == nil {
						return true
					}
					tv, ok := p.TypesInfo.Types[ss.Tag]
					if !ok || !types.Identical(tv.Type, e.typ) {
						return true
					}
					s := sw{fn: fd.Name.Name, pos: ss.Pos(), cases: map[string]bool{}, eval: evalNames[fd.Name.Name]}
					for _, st := range ss.Body.List {
						cc := st.(*ast.CaseClause)
						for _, ex := range cc.List {
							if tv, ok := p.TypesInfo.Types[ex]; ok && tv.Value != nil {
								s.cases[tv.Value.ExactString()] = true
							}
						}
					}
					sws = append(sws, s)
					return true
				})
			}
		}
		nEval := 0
		for _, s := range sws {
			if !s.eval {
				continue
			}
			nEval++
			for _, k := range e.consts {
				if isUnknownConst(k) {
					continue
				}
				r.Ob(s.cases[k.Val().ExactString()], fmt.Sprintf("%s|%s|case %s", tn, s.fn, k.Name()), s.pos,
					fmt.Sprintf("the evaluation switch over %s in %s has an explicit case for %s (a default does not count: today the defaults panic or mean 'no match')", tn, s.fn, k.Name()))
			}
		}
		if nEval == 0 {
			continue // not an operator enum that is switched on during evaluation
		}
		r.Inst(1)
		// every constant is produced outside evaluation/String code (constructor / parser)
		for _, k := range e.consts {
			if isUnknownConst(k) {
				continue
			}
			made := false
			for id, obj := range p.TypesInfo.Uses {
				if obj != k {
					continue
				}
				fnName := enclosingFuncName(p.Syntax, id.Pos())
				if fnName != "" && !evalNames[fnName] && fnName != "String" && fnName != "isEqualTo" {
					made = true
				}
			}
			r.Ob(made, fmt.Sprintf("%s|constructed|%s", tn, k.Name()), k.Pos(), fmt.Sprintf("operator constant %s is produced by a constructor/parser (otherwise the documented operator cannot be configured)", k.Name()))
		}
	}
}

func enclosingFuncName(files []*ast.File, pos token.Pos) string {
	for _, f := range files {
		if pos < f.Pos() || pos > f.End() {
			continue
		}
		for _, d := range f.Decls {
			if fd, ok := d.(*ast.FuncDecl); ok && fd.Pos() <= pos && pos <= fd.End() {
				return fd.Name.Name
			}
		}
	}
	return ""
}

// litEnumCase: literal `v == K` (true) for enum constant; returns constant value string.
func litConstCase(l lit, subject func(ssa.Value) bool) (constant.Value, bool) {
	if !l.pol {
		return nil, false
	}
	b, ok := l.v.(*ssa.BinOp)
	if !ok || b.Op != token.EQL {
		return nil, false
	}
	if k, ok := b.Y.(*ssa.Const); ok && subject(b.X) {
		return k.Value, true
	}
	if k, ok := b.X.(*ssa.Const); ok && subject(b.Y) {
		return k.Value, true
	}
	return nil, false
}

func ruleTagSemantics(c *Ctx, r *Rule) {
	// (1) comparison tags
	cmp := c.Method("pipeline/doif", "cmpOperation", "compare")
	if cmp == nil {
		r.Unresolved("cmpOperation.compare")
	} else {
		r.Inst(1)
		want := map[string]token.Token{"lt": token.LSS, "le": token.LEQ, "gt": token.GTR, "ge": token.GEQ, "eq": token.EQL, "ne": token.NEQ}
		seen := map[string]bool{}
		recv, lhs, rhs := cmp.Params[0], cmp.Params[1], cmp.Params[2]
		for _, ret := range returnsOf(cmp) {
			tag := ""
			for _, l := range c.unitGuards(ret) {
				if v, ok := litConstCase(l, func(x ssa.Value) bool { return x == ssa.Value(recv) }); ok && v != nil && v.Kind() == constant.String {
					tag = constant.StringVal(v)
				}
			}
			if tag == "" {
				continue
			}
			seen[tag] = true
			bo, ok := retResults(ret)[0].(*ssa.BinOp)
			okOp := ok && bo.Op == want[tag] && bo.X == ssa.Value(lhs) && bo.Y == ssa.Value(rhs)
			r.Ob(okOp, "cmpOperation.compare|"+tag, ret.Pos(), fmt.Sprintf("tag %q evaluates lhs %s rhs", tag, want[tag]))
		}
		for tag := range want {
			r.Ob(seen[tag], "cmpOperation.compare|has|"+tag, cmp.Pos(), fmt.Sprintf("comparison tag %q is implemented", tag))
		}
	}
	// (2) field operators: positive verdict comes from the matching primitive
	fchk := c.Method("pipeline/doif", "fieldOpNode", "Check")
	if fchk == nil {
		r.Unresolved("fieldOpNode.Check")
	} else {
		r.Inst(1)
		prim := map[string]string{"fieldEqualOp": "bytes.Equal", "fieldContainsOp": "bytes.Contains", "fieldContainsAnyOp": "bytes.ContainsAny",
			"fieldPrefixOp": "bytes.HasPrefix", "fieldSuffixOp": "bytes.HasSuffix", "fieldRegexOp": "(*regexp.Regexp).Match"}
		names := map[string]string{}
		for _, e := range c.doifEnums() {
			if e.typ.Obj().Name() == "fieldOpType" {
				for _, k := range e.consts {
					names[k.Val().ExactString()] = k.Name()
				}
			}
		}
		isOp := func(x ssa.Value) bool { return isLoadOfField(x, doifPkg, "fieldOpNode", "op") }
		seen := map[string]bool{}
		for _, ret := range returnsOf(fchk) {
			op := ""
			for _, l := range c.unitGuards(ret) {
				if v, ok := litConstCase(l, isOp); ok && v != nil {
					op = names[v.ExactString()]
				}
			}
			if op == "" {
				continue
			}
			res := retResults(ret)[0]
			var call *ssa.Call
			if b, isK := constBool(res); isK {
				if !b {
					continue
				}
				// `return true` guarded by the primitive's result
				for _, l := range c.unitGuards(ret) {
					if cl, ok := l.v.(*ssa.Call); ok && l.pol && cl.Call.StaticCallee() != nil {
						call = cl
					}
				}
			} else if cl, ok := res.(*ssa.Call); ok {
				call = cl
			}
			q := ""
			if call != nil && call.Call.StaticCallee() != nil {
				q = qualName(call.Call.StaticCallee())
			}
			seen[op] = true
			r.Ob(q == prim[op], "fieldOpNode.Check|"+op, ret.Pos(), fmt.Sprintf("operator %s matches through %s (found %s)", op, prim[op], q))
		}
		for op := range prim {
			r.Ob(seen[op], "fieldOpNode.Check|has|"+op, fchk.Pos(), "operator "+op+" has a positive verdict")
		}
		// the final verdict (no case matched / no value matched) is false
		last := false
		for _, ret := range returnsOf(fchk) {
			if b, isK := constBool(retResults(ret)[0]); isK && !b && len(c.unitGuards(ret)) <= 2 {
				last = true
			}
		}
		_ = last
	}
	// (3) logical operators
	lchk := c.Method("pipeline/doif", "logicalNode", "Check")
	if lchk == nil {
		r.Unresolved("logicalNode.Check")
		return
	}
	r.Inst(1)
	names := map[string]string{}
	for _, e := range c.doifEnums() {
		if e.typ.Obj().Name() == "logicalOpType" {
			for _, k := range e.consts {
				names[k.Val().ExactString()] = k.Name()
			}
		}
	}
	isOp := func(x ssa.Value) bool { return isLoadOfField(x, doifPkg, "logicalNode", "op") }
	type shape struct{ onOperand, atEnd []string }
	got := map[string]*shape{}
	for _, ret := range returnsOf(lchk) {
		op := ""
		var operand *lit
		for _, l := range c.unitGuards(ret) {
			if v, ok := litConstCase(l, isOp); ok && v != nil {
				op = names[v.ExactString()]
			}
			if cl, ok := l.v.(*ssa.Call); ok && cl.Call.IsInvoke() && cl.Call.Method.Name() == "Check" {
				ll := l
				operand = &ll
			}
		}
		if op == "" {
			continue
		}
		if got[op] == nil {
			got[op] = &shape{}
		}
		res := retResults(ret)[0]
		desc := c.path(res)
		if operand != nil {
			got[op].onOperand = append(got[op].onOperand, fmt.Sprintf("%v->%s", operand.pol, desc))
		} else {
			got[op].atEnd = append(got[op].atEnd, desc)
		}
	}
	exp := map[string]shape{
		"logicalOr":  {[]string{"true->true"}, []string{"false"}},
		"logicalAnd": {[]string{"false->false"}, []string{"true"}},
	}
	for op, want := range exp {
		g := got[op]
		ok := g != nil && strings.Join(g.onOperand, ",") == strings.Join(want.onOperand, ",") && strings.Join(g.atEnd, ",") == strings.Join(want.atEnd, ",")
		desc := "missing"
		if g != nil {
			desc = fmt.Sprintf("on operand %v, at end %v", g.onOperand, g.atEnd)
		}
		r.Ob(ok, "logicalNode.Check|"+op, lchk.Pos(), fmt.Sprintf("%s: returns %v as soon as an operand decides and %v otherwise (found: %s)", op, want.onOperand, want.atEnd, desc))
	}
	// not: the result is the negation of the first operand's Check
	okNot := false
	if g := got["logicalNot"]; g != nil && len(g.atEnd) == 1 && strings.HasPrefix(g.atEnd[0], "!") && len(g.onOperand) == 0 {
		okNot = true
	}
	r.Ob(okNot, "logicalNode.Check|logicalNot", lchk.Pos(), fmt.Sprintf("logicalNot returns the negation of its operand (found %+v)", got["logicalNot"]))
}

func ruleCheckPure(c *Ctx, r *Rule) {
	node := c.Named("pipeline/doif", "Node")
	if node == nil {
		r.Unresolved("doif.Node")
		return
	}
	for _, t := range c.Implementers(node) {
		chk := c.MethodOf(t, "Check")
		if chk == nil || chk.Blocks == nil {
			continue
		}
		r.Inst(1)
		name := c.fnName(chk)
		bad := ""
		seen := map[*ssa.Function]bool{}
		var scan func(fn *ssa.Function, depth int)
		scan = func(fn *ssa.Function, depth int) {
			if seen[fn] || depth > 3 || fn.Blocks == nil || c.pkgOf(fn) != "pipeline/doif" {
				return
			}
			seen[fn] = true
			for _, b := range fn.Blocks {
				for _, in := range b.Instrs {
					switch x := in.(type) {
					case *ssa.Store:
						root := refOf(x.Addr).root
						if _, isAlloc := root.(*ssa.Alloc); isAlloc {
							continue
						}
						if ia, ok := x.Addr.(*ssa.IndexAddr); ok {
							if _, isAlloc := refOf(ia.X).root.(*ssa.Alloc); isAlloc {
								continue
							}
						}
						bad = c.fnName(fn) + " stores to " + c.path(x.Addr)
					case *ssa.MapUpdate:
						if _, isAlloc := refOf(x.Map).root.(*ssa.Alloc); !isAlloc {
							if _, isMk := x.Map.(*ssa.MakeMap); !isMk {
								bad = c.fnName(fn) + " updates map " + c.path(x.Map)
							}
						}
					case ssa.CallInstruction:
						if f := calleeFunc(x); f != nil {
							if f.Signature.Recv() != nil && isAtomicType(f.Signature.Recv().Type()) && (f.Name() == "Store" || f.Name() == "Add" || f.Name() == "Swap" || strings.HasPrefix(f.Name(), "CompareAndSwap")) {
								bad = c.fnName(fn) + " modifies an atomic"
							}
							scan(f, depth+1)
						}
					}
				}
			}
		}
		scan(chk, 0)
		msg := "evaluation does not write to the node, a global or shared memory: the decision cannot depend on earlier events"
		if bad != "" {
			msg = "evaluation has a side effect (" + bad + "): the decision may depend on earlier events"
		}
		r.Ob(bad == "", name+"|pure", chk.Pos(), msg)
	}
}

func ruleLegacyMatch(c *Ctx, r *Rule) {
	or := c.Method("pipeline", "processor", "isMatchOr")
	and := c.Method("pipeline", "processor", "isMatchAnd")
	top := c.Method("pipeline", "processor", "isMatch")
	if or == nil || and == nil || top == nil {
		r.Unresolved("processor.isMatch / isMatchOr / isMatchAnd")
		return
	}
	isMatchLit := func(l lit) (bool, bool) {
		call, ok := l.v.(*ssa.Call)
		if !ok || call.Call.StaticCallee() == nil {
			return false, false
		}
		switch call.Call.StaticCallee().Name() {
		case "MatchString", "valueExists":
			return true, l.pol
		}
		return false, false
	}
	check := func(fn *ssa.Function, early bool) {
		r.Inst(1)
		name := c.fnName(fn)
		nEarly, nEnd := 0, 0
		for i, ret := range returnsOf(fn) {
			b, isK := constBool(retResults(ret)[0])
			if !isK {
				r.Ob(false, fmt.Sprintf("%s|return#%d", name, i), ret.Pos(), "non-constant verdict")
				continue
			}
			if b == early {
				nEarly++
				ok := false
				for _, l := range c.unitGuards(ret) {
					if isM, pol := isMatchLit(l); isM && pol == early {
						ok = true
					}
					// and-mode: absent field decides 'false' too
					if !early {
						if op, _, y, okc := cmpLit(l); okc && op == token.EQL && isNilConst(y) {
							ok = true
						}
					}
				}
				r.Ob(ok, fmt.Sprintf("%s|early#%d", name, i), ret.Pos(), fmt.Sprintf("an early '%v' is returned only when a condition's test came out %v; guards: %s", early, early, c.clausesString(c.guards(fn)[ret.Block()])))
			} else {
				nEnd++
				// the final verdict is not under any match literal of the deciding polarity
				bad := false
				for _, l := range c.unitGuards(ret) {
					if isM, pol := isMatchLit(l); isM && pol == early {
						bad = true
					}
				}
				r.Ob(!bad, fmt.Sprintf("%s|end#%d", name, i), ret.Pos(), fmt.Sprintf("'%v' is the verdict when no condition decided", !early))
			}
		}
		r.Ob(nEarly >= 1 && nEnd == 1, name+"|shape", fn.Pos(), fmt.Sprintf("%d deciding returns and %d final return", nEarly, nEnd))
		// a condition is ONE test — a regexp, or a value list. In and-mode a condition whose regexp matched is
		// satisfied: from there no 'false' may be reached before the next condition is taken up (a regexp
		// condition has no value list, so re-judging it by the list makes and-mode regexp conditions unmatchable)
		if !early {
			for _, b := range fn.Blocks {
				iff, ok := b.Instrs[len(b.Instrs)-1].(*ssa.If)
				if !ok {
					continue
				}
				v, pol := peelNot(iff.Cond, true)
				call, isCall := v.(*ssa.Call)
				if !isCall || call.Call.StaticCallee() == nil || call.Call.StaticCallee().Name() != "MatchString" {
					continue
				}
				succ := b.Succs[0]
				if !pol {
					succ = b.Succs[1]
				}
				if len(succ.Instrs) == 0 {
					continue
				}
				// the next condition starts at the loop head
				var head0 *ssa.BasicBlock
				for _, hb := range fn.Blocks {
					for _, p := range hb.Preds {
						if isBackEdge(p, hb) {
							head0 = hb
						}
					}
				}
				isFalseRet := func(in ssa.Instruction) bool {
					ret, isRet := in.(*ssa.Return)
					if !isRet {
						return false
					}
					k, isK := constBool(retResults(ret)[0])
					return isK && !k
				}
				atHead := func(in ssa.Instruction) bool { return head0 != nil && in.Block() == head0 }
				bad, at := false, ssa.Instruction(nil)
				if isFalseRet(succ.Instrs[0]) {
					bad, at = true, succ.Instrs[0]
				} else {
					bad, at = c.pathExists(fn, succ.Instrs[0], isFalseRet, atHead)
				}
				msg := "a condition whose regexp matched is satisfied"
				if bad {
					msg = "after a condition's regexp matched, 'false' can still be returned for the same condition at " + c.pos(at.Pos()) + " (its empty value list is consulted): a regexp condition can never hold in and-mode"
				}
				r.Ob(!bad, name+"|matched-regexp-satisfies", call.Pos(), msg)
			}
		}
		// every condition is examined: the loop over the conditions is left from its body only by a deciding return
		var head *ssa.BasicBlock
		for _, b := range fn.Blocks {
			for _, p := range b.Preds {
				if isBackEdge(p, b) {
					head = b
				}
			}
		}
		if head == nil {
			r.Ob(false, name+"|examines-every-condition", fn.Pos(), "the conditions are examined in a loop")
		} else {
			early2 := false
			for _, b := range fn.Blocks {
				if b == head || !pathWithin(head, b) {
					continue
				}
				for _, sc := range b.Succs {
					if sc == head || pathWithin(head, sc) {
						continue
					}
					// leaving the loop from its body: only straight into a deciding return
					if ret, isRet := asReturn(sc); isRet {
						if k, isK := constBool(retResults(ret)[0]); isK && k == early {
							continue
						}
					}
					early2 = true
				}
			}
			r.Ob(!early2, name+"|examines-every-condition", fn.Pos(), fmt.Sprintf("the loop over the conditions is left early only with the deciding verdict '%v': a condition that does not decide never stops the examination of the remaining ones (the verdict must not depend on the order of the conditions)", early))
		}
	}
	check(or, true)
	check(and, false)
	// inversion
	okInv := false
	for _, ret := range returnsOf(top) {
		if phi, ok := retResults(ret)[0].(*ssa.Phi); ok {
			for i, e := range phi.Edges {
				if u, ok := e.(*ssa.UnOp); ok && u.Op == token.NOT {
					for _, cl := range c.edgeFactsOf(top, phi.Block().Preds[i], phi.Block()) {
						if len(cl) == 1 && cl[0].pol {
							if _, f, _, okf := loadedField(cl[0].v); okf && f == "MatchInvert" {
								okInv = true
							}
						}
					}
				}
			}
		}
	}
	// the other spelling: `if info.MatchInvert { return !match }; return match`
	if !okInv {
		neg, plain := false, false
		for _, ret := range returnsOf(top) {
			v := retResults(ret)[0]
			underInvert := func(pol bool) bool {
				for _, l := range c.unitGuards(ret) {
					if _, f, _, okf := loadedField(l.v); okf && f == "MatchInvert" && l.pol == pol {
						return true
					}
				}
				return false
			}
			if u, ok := v.(*ssa.UnOp); ok && u.Op == token.NOT && underInvert(true) {
				neg = true
			}
			if _, isNot := v.(*ssa.UnOp); !isNot && underInvert(false) {
				plain = true
			}
		}
		okInv = neg && plain
	}
	r.Ob(okInv, c.fnName(top)+"|invert", top.Pos(), "match_invert negates the verdict, and only then")
	// modes: or-modes go to the or evaluator, the rest to the and evaluator, prefix flag from the *Prefix modes
	var orCall, andCall ssa.CallInstruction
	for _, ci := range callsIn(top) {
		if calleeFunc(ci) == or {
			orCall = ci
		}
		if calleeFunc(ci) == and {
			andCall = ci
		}
	}
	r.Ob(orCall != nil && andCall != nil, c.fnName(top)+"|dispatch", top.Pos(), "both evaluators are used")
	if orCall != nil {
		g := c.clausesString(c.guards(top)[orCall.Block()])
		r.Ob(strings.Contains(g, "mode") || strings.Contains(g, "MatchMode"), c.fnName(top)+"|or-under-mode", orCall.Pos(), "the or evaluator runs under the or-mode test: "+g)
	}
}

// ruleTreeConstruction: a logical node is built from the operands it was configured with. The
// only value-preserving rewrite is flattening a nested node of the same associative operator
// (and/or); splicing the operands of a nested `not` changes the meaning (not(not(x)) -> not(x)).
func ruleTreeConstruction(c *Ctx, r *Rule) {
	notVal := int64(-1)
	for _, e := range c.doifEnums() {
		if e.typ.Obj().Name() == "logicalOpType" {
			for _, k := range e.consts {
				if k.Name() == "logicalNot" {
					if v, ok := constInt64(k); ok {
						notVal = v
					}
				}
			}
		}
	}
	if notVal < 0 {
		r.Unresolved("doif.logicalNot")
		return
	}
	n := 0
	for _, a := range c.fieldAccesses(doifPkg, "logicalNode", "operands") {
		if !a.write {
			continue
		}
		n++
		fn := a.fn
		name := c.fnName(fn)
		if p, isP := a.val.(*ssa.Parameter); isP && paramIndex(fn, p) >= 0 {
			r.Ob(true, name+"|operands-as-configured", a.in.Pos(), "the node keeps exactly the operands it was given")
			continue
		}
		// a rewritten operand list: every splice of another logical node's operands must exclude `not`
		bad := ""
		for _, b := range fn.Blocks {
			for _, in := range b.Instrs {
				call, ok := isBuiltinCall(in, "append")
				if !ok || len(call.Call.Args) != 2 || !isLoadOfField(call.Call.Args[1], doifPkg, "logicalNode", "operands") {
					continue
				}
				excl := false
				for _, cl := range c.guards(fn)[b] {
					for _, l := range cl {
						op, _, y, ok := cmpLit(l)
						if !ok {
							continue
						}
						k, isK := constInt(y)
						if !isK {
							continue
						}
						if (op == token.NEQ && k == notVal) || (op == token.EQL && k != notVal && len(cl) == 1) {
							excl = true
						}
					}
				}
				if !excl {
					bad = c.pos(call.Pos())
				}
			}
		}
		msg := "operands are rewritten only by flattening nested and/or nodes"
		if bad != "" {
			msg = "the operands of a nested logical node are spliced into the parent at " + bad + " without excluding `not`: not(not(x)) is built as not(x)"
		}
		r.Ob(bad == "", name+"|operands-rewrite", a.in.Pos(), msg)
	}
	r.Inst(n)
}

func constInt64(k *types.Const) (int64, bool) {
	return constant.Int64Val(k.Val())
}

// ruleCheckTypeTable: check_type — every documented type name selects the node predicate of that
// type, and the "already listed" marker that suppresses a repeated name is a different one for every
// predicate (a shared marker silently drops the type listed second, making the verdict depend on the
// order of the configured values).
func ruleCheckTypeTable(c *Ctx, r *Rule) {
	fn := c.Func("pipeline/doif", "NewCheckTypeOpNode")
	if fn == nil {
		r.Unresolved("doif.NewCheckTypeOpNode")
		return
	}
	expected := map[string]string{"obj": "IsObject", "object": "IsObject", "arr": "IsArray", "array": "IsArray", "num": "IsNumber", "number": "IsNumber",
		"str": "IsString", "string": "IsString", "null": "IsNull", "nil": "IsNil"}
	// node predicates referenced by a value: a closure calling Node.IsX, a method expression, a thunk
	var predsOf func(v ssa.Value, d int) []string
	predsOf = func(v ssa.Value, d int) []string {
		if d > 3 {
			return nil
		}
		var f *ssa.Function
		switch x := v.(type) {
		case *ssa.MakeClosure:
			f, _ = x.Fn.(*ssa.Function)
		case *ssa.Function:
			f = x
		case *ssa.ChangeType:
			return predsOf(x.X, d+1)
		case *ssa.MakeInterface:
			return predsOf(x.X, d+1)
		}
		if f == nil {
			return nil
		}
		isPred := func(g *ssa.Function) bool {
			if g == nil || !strings.HasPrefix(g.Name(), "Is") || g.Signature.Recv() == nil {
				return false
			}
			rn := namedOf(g.Signature.Recv().Type())
			return rn != nil && rn.Obj().Pkg() != nil && rn.Obj().Pkg().Path() == insanePkg && rn.Obj().Name() == "Node"
		}
		if isPred(f) {
			return []string{f.Name()}
		}
		var out []string
		for _, ci := range callsIn(f) {
			if g := ci.Common().StaticCallee(); isPred(g) {
				out = append(out, g.Name())
			}
		}
		return out
	}
	type group struct {
		tags  []string
		preds map[string]bool
		keys  map[string]bool
		pos   token.Pos
	}
	groups := map[string]*group{}
	guards := c.guards(fn)
	for _, b := range fn.Blocks {
		var tags []string
		for _, cl := range guards[b] {
			var ts []string
			okCl := len(cl) > 0
			for _, l := range cl {
				op, _, y, isCmp := cmpLit(l)
				k, isK := y.(*ssa.Const)
				if !isCmp || op != token.EQL || !isK || k.Value == nil || k.Value.Kind() != constant.String {
					okCl = false
					break
				}
				ts = append(ts, constant.StringVal(k.Value))
			}
			if okCl && (tags == nil || len(ts) < len(tags)) {
				tags = ts
			}
		}
		if len(tags) == 0 {
			continue
		}
		sort.Strings(tags)
		id := strings.Join(tags, ",")
		g := groups[id]
		if g == nil {
			g = &group{tags: tags, preds: map[string]bool{}, keys: map[string]bool{}}
			groups[id] = g
		}
		for _, in := range b.Instrs {
			if g.pos == token.NoPos && in.Pos() != token.NoPos {
				g.pos = in.Pos()
			}
			for _, op := range in.Operands(nil) {
				if *op == nil {
					continue
				}
				for _, p := range predsOf(*op, 0) {
					g.preds[p] = true
				}
				if k, isK := (*op).(*ssa.Const); isK && k.Value != nil {
					if n, isN := k.Type().(*types.Named); isN && n.Obj().Pkg() != nil && n.Obj().Pkg().Path() == doifPkg && k.Value.Kind() == constant.Int {
						g.keys[n.Obj().Name()+"="+k.Value.ExactString()] = true
					}
				}
			}
		}
	}
	keyOwner := map[string]string{}
	seenTag := map[string]bool{}
	var ids []string
	for id := range groups {
		ids = append(ids, id)
	}
	sort.Strings(ids)
	for _, id := range ids {
		g := groups[id]
		if len(g.preds) == 0 && len(g.keys) == 0 {
			continue
		}
		r.Inst(1)
		var ps, ks []string
		for p := range g.preds {
			ps = append(ps, p)
		}
		for k := range g.keys {
			ks = append(ks, k)
		}
		sort.Strings(ps)
		sort.Strings(ks)
		okP := len(ps) == 1
		for _, t := range g.tags {
			seenTag[t] = true
			if e, has := expected[t]; !has || !okP || e != ps[0] {
				okP = false
			}
		}
		r.Ob(okP, "check_type|"+id+"|predicate", g.pos, fmt.Sprintf("type name(s) %s select the node predicate of that type (found %s)", id, strings.Join(ps, ",")))
		okK := len(ks) == 1
		if okK && len(ps) == 1 {
			if prev, had := keyOwner[ks[0]]; had && prev != ps[0] {
				okK = false
			} else {
				keyOwner[ks[0]] = ps[0]
			}
		}
		r.Ob(okK, "check_type|"+id+"|own-marker", g.pos, fmt.Sprintf("the already-listed marker of %s is its own (found %s): a marker shared with another type drops whichever of the two is listed second", id, strings.Join(ks, ",")))
	}
	var missing []string
	for t := range expected {
		if !seenTag[t] {
			missing = append(missing, t)
		}
	}
	sort.Strings(missing)
	r.Ob(len(missing) == 0, "check_type|all-names", fn.Pos(), "every documented type name has a case"+ifs(len(missing) > 0, "; missing: "+strings.Join(missing, ",")))
}

// ruleLengthShortCut: a field operator may answer "no match" from the length of the value alone only
// when a match really needs that many bytes. For the operators whose primitive matches on any single
// character or by pattern (bytes.ContainsAny / IndexAny, regexp) the configured values' lengths say
// nothing about the shortest matching input, so the length early-exit must exclude them.
func ruleLengthShortCut(c *Ctx, r *Rule) {
	var check *ssa.Function
	for _, fn := range c.ModFuncs {
		if c.pkgOf(fn) == "pipeline/doif" && fn.Name() == "Check" && recvNamed(fn) != nil && recvNamed(fn).Obj().Name() == "fieldOpNode" {
			check = fn
		}
	}
	if check == nil {
		r.Unresolved("doif fieldOpNode.Check")
		return
	}
	isOp := func(v ssa.Value) bool { return isLoadOfField(stripConv(v), doifPkg, "fieldOpNode", "op") }
	// operator constants whose case uses a per-character or pattern primitive
	loose := map[int64]string{}
	guards := c.guards(check)
	for _, b := range check.Blocks {
		var ks []int64
		for _, cl := range guards[b] {
			if len(cl) != 1 {
				continue
			}
			if op, x, y, ok := cmpLit(cl[0]); ok && op == token.EQL && isOp(x) {
				if k, isK := constInt(y); isK {
					ks = append(ks, k)
				}
			}
		}
		if len(ks) == 0 {
			continue
		}
		for _, in := range b.Instrs {
			ci, ok := in.(ssa.CallInstruction)
			if !ok {
				continue
			}
			f := calleeFunc(ci)
			if f == nil {
				continue
			}
			q := qualName(f)
			if q == "bytes.ContainsAny" || q == "bytes.IndexAny" || q == "bytes.ContainsRune" || strings.HasPrefix(q, "(*regexp.Regexp).") {
				for _, k := range ks {
					loose[k] = q
				}
			}
		}
	}
	r.Inst(1)
	r.Ob(len(loose) >= 2, c.fnName(check)+"|loose-operators", check.Pos(), fmt.Sprintf("operators matched by a per-character or pattern primitive: %d found", len(loose)))
	n := 0
	for _, ret := range returnsOf(check) {
		if b, isB := constBool(retResults(ret)[0]); !isB || b {
			continue
		}
		byLen := false
		excluded := map[int64]bool{}
		for _, l := range c.unitGuards(ret) {
			op, x, y, ok := cmpLit(l)
			if !ok {
				continue
			}
			if (op == token.LSS || op == token.LEQ) && isLoadOfField(stripConv(y), doifPkg, "fieldOpNode", "minValLen") {
				byLen = true
			}
			if (op == token.GTR || op == token.GEQ) && isLoadOfField(stripConv(x), doifPkg, "fieldOpNode", "minValLen") {
				byLen = true
			}
			if op == token.NEQ && isOp(x) {
				if k, isK := constInt(y); isK {
					excluded[k] = true
				}
			}
		}
		if !byLen {
			continue
		}
		n++
		var missing []string
		for k, q := range loose {
			if !excluded[k] {
				missing = append(missing, fmt.Sprintf("%d (%s)", k, q))
			}
		}
		sort.Strings(missing)
		r.Ob(len(missing) == 0, fmt.Sprintf("%s|length-exit#%d", c.fnName(check), n), ret.Pos(), "the 'shorter than the shortest value' early exit excludes every operator that can match on less"+ifs(len(missing) > 0, "; not excluded: operator "+strings.Join(missing, ", ")))
	}
	r.Ob(n >= 1, c.fnName(check)+"|length-exits", check.Pos(), fmt.Sprintf("%d length early exits examined", n))
}
