package main

import (
	"fmt"
	"go/token"
	"go/types"
	"sort"
	"strings"

	"golang.org/x/tools/go/ssa"
)

func init() {
	explain("C04", "Static necessary conditions of 'no wedge', decided exhaustively over the source: monitor discipline of every sync.Cond whose predicate is lock-protected (Wait in a re-checking loop under the cond's lock; every producer-side write of a predicate field is under that lock and followed by Signal/Broadcast before release); heartbeat presence and POLARITY for the two lock-free event pools (Broadcast guarded by waiters>0 ∧ inUse<capacity, siblings agree) and Broadcast in back(); the charge/re-charge protocol of streams; the blocked-stream time-out machinery; the batcher's flush heartbeat; the batch worker never takes the fill lock. "+
		"Also: a processor counts as active for as long as it owns a stream and the processor pool doubles when all are active (the rescue when every processor waits behind a multi-line action); no capacity unit of either event pool can be lost (rules shared with C05). "+
		"NOT decided: any bound on time, fairness of the scheduler.",
		"go/types, go/ssa and x/tools call resolution are correct", "lock identity is by access path", "sync.Once.Do runs its argument synchronously once",
		"C04.R6 stops at invoke edges of OutputPlugin.Out: that edge enters another output instance (dead queue) whose batcher is a different object")
	reg("C04", "C04.R1", "E3", "monitor discipline of lock-protected conds (wait loop, producer writes signal under the lock)", 3, ruleMonitorDiscipline)
	reg("C04", "C04.R2", "E2+E7", "pool heartbeat: started before Wait; Broadcast guarded by waiters>0 ∧ inUse<capacity; back() broadcasts", 2, rulePoolHeartbeat)
	reg("C04", "C04.R3", "E2", "charge protocol: detach re-charges a non-empty stream; enqueue charges an unattached empty stream", 2, ruleChargeProtocol)
	reg("C04", "C04.R4", "E2+E1", "blocked-stream time-out: register/blockTime before Wait, deregister after; heartbeat goroutine unblocks registered streams", 1, ruleBlockedTimeout)
	reg("C04", "C04.R5", "E2+E3", "batcher flush heartbeat: goroutine started, takes the fill lock, re-evaluates readiness incl. age; reset restarts the clock", 1, ruleFlushHeartbeat)
	reg("C04", "C04.R6", "E1", "batch worker never reaches a Lock of the fill lock", 1, ruleWorkerNoFillLock)
	reg("C04", "C04.R7", "E1+E2", "processor pool growth: a processor counts as active for the whole ownership of a stream; the pool doubles when all are active", 3, ruleProcPoolGrowth)
	reg("C04", "C04.R8", "E2+E8", "no capacity unit of the low-memory pool is lost: admission / undo / one Dec per back (same rule as C05.R3)", 1, ruleLowMemAdmission)
	reg("C04", "C04.R9", "E2+E8", "no capacity unit of the standard pool is lost (same rule as C05.R4)", 1, ruleStdPoolBalance)
	reg("C04", "C04.R11", "E2+E6", "blocked list: every stream's recorded position is its position (append records the length, a moved stream gets its new index)", 2, ruleBlockedIndex)
	reg("C04", "C04.R12", "E2+E3", "every sealed batch takes its commit turn and wakes the next one (same rule as C01.R5)", 1, ruleSequencedRegion)
	reg("C04", "C04.R13", "E3", "the locks of the pipeline core are taken in one order: no pair of lock classes is nested both ways", 1, ruleLockOrder)
	reg("C04", "C04.R10", "E2", "no event leaks out of In without being streamed or given back (same rule as C05.R2)", 1, ruleGetStreamOrBack)
}

type condField struct {
	owner *types.Named
	field string
}

// condFields: struct fields of type *sync.Cond declared in package pipeline.
func (c *Ctx) condFields(pkgRel string) []condField {
	var out []condField
	p := c.Pkgs[c.ModPath+"/"+pkgRel]
	if p == nil {
		return nil
	}
	for _, nm := range p.Types.Scope().Names() {
		tn, ok := p.Types.Scope().Lookup(nm).(*types.TypeName)
		if !ok {
			continue
		}
		n, ok := tn.Type().(*types.Named)
		if !ok {
			continue
		}
		st, ok := n.Underlying().(*types.Struct)
		if !ok {
			continue
		}
		if strings.HasSuffix(c.Fset.Position(tn.Pos()).Filename, "_test.go") {
			continue
		}
		for i := 0; i < st.NumFields(); i++ {
			if typeIs(st.Field(i).Type(), "sync", "Cond") {
				out = append(out, condField{n, st.Field(i).Name()})
			}
		}
	}
	return out
}

func isCondCall(ci ssa.CallInstruction, method string, cf condField) bool {
	f := calleeFunc(ci)
	if f == nil || qualName(f) != "(*sync.Cond)."+method || len(ci.Common().Args) == 0 {
		return false
	}
	o, fl, _, ok := loadedField(ci.Common().Args[0])
	return ok && o == cf.owner && fl == cf.field
}

// fieldsIn collects fields of `owner` loaded anywhere inside expression v (bounded walk).
func fieldsIn(v ssa.Value, owner *types.Named, out map[string]bool, depth int) {
	if v == nil || depth > 6 {
		return
	}
	if o, f, _, ok := loadedField(v); ok && o == owner {
		out[f] = true
	}
	if in, ok := v.(ssa.Instruction); ok {
		for _, op := range in.Operands(nil) {
			if *op != nil {
				if _, isPhi := v.(*ssa.Phi); isPhi {
					continue
				}
				fieldsIn(*op, owner, out, depth+1)
			}
		}
	}
}

// consumerSide: writes of a predicate field that only move towards "wait" (take an element
// away); they need no signal. Frozen table, one line of reason each.
var consumerSide = map[string]string{
	"(*pipeline.stream).get|first":            "dequeue: pops the head; can only empty the queue, which is what waiters wait on",
	"(*pipeline.streamer).joinStream|charged": "pops a charged stream; can only shrink the list waiters wait on",
}

func ruleMonitorDiscipline(c *Ctx, r *Rule) {
	cfs := c.condFields("pipeline")
	if len(cfs) < 3 {
		r.Unresolved(fmt.Sprintf("sync.Cond fields of package pipeline (found %d)", len(cfs)))
		return
	}
	for _, cf := range cfs {
		pkgPath := cf.owner.Obj().Pkg().Path()
		typ := cf.owner.Obj().Name()
		lockPath, ok := c.condLock(pkgPath, typ, cf.field)
		if !ok {
			r.Ob(false, typ+"."+cf.field+"|lock", token.NoPos, "cannot resolve the lock of this cond (no sync.NewCond initialiser found)")
			continue
		}
		// Wait sites
		pred := map[string]bool{}
		var waits []ssa.CallInstruction
		c.eachCall(func(fn *ssa.Function, ci ssa.CallInstruction) {
			if isCondCall(ci, "Wait", cf) {
				waits = append(waits, ci)
			}
		})
		for _, w := range waits {
			for _, cl := range c.guards(w.Parent())[w.Block()] {
				for _, l := range cl {
					// only conditions re-evaluated inside the wait loop form the predicate
					lin, isIn := l.v.(ssa.Instruction)
					if !isIn {
						continue
					}
					if again, _ := c.pathExists(w.Parent(), w, func(in ssa.Instruction) bool { return in == lin }, nil); !again {
						continue
					}
					fieldsIn(l.v, cf.owner, pred, 0)
				}
			}
		}
		delete(pred, cf.field)
		// lock-free predicate (atomics): handled by R2
		lockFree := true
		for f := range pred {
			fobj := fieldByName(cf.owner, f)
			if fobj != nil && !isAtomicType(fobj.Type()) {
				lockFree = false
			}
		}
		if len(pred) == 0 || lockFree {
			r.Note("%s.%s: predicate is lock-free (%v) -> heartbeat regime (R2)", typ, cf.field, keysOf(pred))
			continue
		}
		r.Inst(1)
		base := typ + "." + cf.field
		for i, w := range waits {
			fn := w.Parent()
			cyc, _ := c.pathExists(fn, w, func(in ssa.Instruction) bool { return in == ssa.Instruction(w) }, nil)
			r.Ob(cyc, fmt.Sprintf("%s|wait#%d|%s|loop", base, i, c.fnName(fn)), w.Pos(), "Wait is inside a loop that re-checks its predicate")
			_, _, root, _ := loadedField(w.Common().Args[0])
			okL, why := c.heldInterproc(w, lockRef{refOf(root).root, lockPath}, 1)
			if okL {
				why = "Wait called with the cond's lock held"
			}
			r.Ob(okL, fmt.Sprintf("%s|wait#%d|%s|lock", base, i, c.fnName(fn)), w.Pos(), why)
		}
		// producer-side writes of predicate fields
		for _, f := range keysOf(pred) {
			n := map[string]int{}
			for _, a := range c.fieldAccesses(pkgPath, typ, f) {
				if !a.write || isFreshAlloc(refOf(a.base).root) {
					continue
				}
				name := c.fnName(a.fn)
				if reason, ok := consumerSide[name+"|"+f]; ok {
					r.Note("consumer-side: %s writes %s.%s: %s", name, typ, f, reason)
					continue
				}
				// structurally consumer-side: the list is re-sliced to a strict sub-list of itself
				// (x = x[:len(x)-k], x = x[k:]): elements are only taken away, nobody waits for that
				if sl, isSl := a.val.(*ssa.Slice); isSl && isLoadOfField(sl.X, pkgPath, typ, f) {
					shrinks := false
					if sl.High != nil {
						hf := lin(sl.High)
						if hf.k <= -1 && len(hf.t) == 1 {
							for key, cnt := range hf.t {
								if key.isLen && cnt == 1 && isLoadOfField(key.v, pkgPath, typ, f) {
									shrinks = true
								}
							}
						}
					}
					if sl.Low != nil {
						if k, isK := constInt(sl.Low); isK && k >= 1 {
							shrinks = true
						}
					}
					if shrinks {
						r.Note("consumer-side: %s shrinks %s.%s", name, typ, f)
						continue
					}
				}
				n[name]++
				key := fmt.Sprintf("%s|write|%s.%s|%s#%d", base, typ, f, name, n[name])
				root := refOf(a.base).root
				okL, why := c.heldInterproc(a.in, lockRef{root, lockPath}, 3)
				if !okL {
					r.Ob(false, key+"|lock", a.in.Pos(), "predicate field written without the cond's lock: "+why)
					continue
				}
				// every path from the write to the release of the lock / return passes Signal or Broadcast
				isSig := func(in ssa.Instruction) bool {
					ci, ok := in.(ssa.CallInstruction)
					return ok && (isCondCall(ci, "Signal", cf) || isCondCall(ci, "Broadcast", cf))
				}
				isRelease := func(in ssa.Instruction) bool {
					if isReturn(in) {
						return true
					}
					ci, ok := in.(ssa.CallInstruction)
					if !ok {
						return false
					}
					if _, isDefer := ci.(*ssa.Defer); isDefer {
						return false
					}
					for _, ev := range c.lockEvents(ci) {
						if ev.op == opUnlock && ev.ref.path == lockPath && ev.ref.root == root {
							return true
						}
					}
					return false
				}
				lost, w := c.pathExists(a.fn, a.in, isRelease, isSig)
				msg := "after the write every path signals the cond before the lock is released"
				if lost {
					msg = "a path from this write of " + typ + "." + f + " releases the lock / returns at " + c.pos(w.Pos()) + " without Signal/Broadcast on " + cf.field + ": a waiter can sleep for ever (lost wake-up)"
				}
				r.Ob(!lost, key+"|signal", a.in.Pos(), msg)
			}
		}
	}
}

func keysOf(m map[string]bool) []string {
	var out []string
	for k := range m {
		out = append(out, k)
	}
	sort.Strings(out)
	return out
}

func fieldByName(n *types.Named, f string) *types.Var {
	st, ok := n.Underlying().(*types.Struct)
	if !ok {
		return nil
	}
	for i := 0; i < st.NumFields(); i++ {
		if st.Field(i).Name() == f {
			return st.Field(i)
		}
	}
	return nil
}

func isAtomicType(t types.Type) bool {
	n := namedOf(t)
	if n == nil || n.Obj().Pkg() == nil {
		return false
	}
	p := n.Obj().Pkg().Path()
	return p == "go.uber.org/atomic" || p == "sync/atomic"
}

// evalAvail normalises a boolean SSA value to "inUse < capacity" of pool type typ, following
// module helper calls with a single return expression. Returns (isAvailFormula, polarity).
func (c *Ctx) evalAvail(v ssa.Value, pol bool, typ string, depth int) (bool, bool) {
	v, pol = peelNot(v, pol)
	if depth > 3 {
		return false, pol
	}
	switch x := v.(type) {
	case *ssa.BinOp:
		op := x.Op
		a, b := stripConv(x.X), stripConv(x.Y)
		isUse := func(v ssa.Value) bool {
			call, ok := v.(*ssa.Call)
			return ok && atomicOpOn(call, "Load", typ, "inUseEvents")
		}
		isCap := func(v ssa.Value) bool { return isLoadOfField(v, pipelinePkg, typ, "capacity") }
		switch {
		case op == token.LSS && isUse(a) && isCap(b), op == token.GTR && isCap(a) && isUse(b):
			return true, pol
		case op == token.GEQ && isUse(a) && isCap(b), op == token.LEQ && isCap(a) && isUse(b):
			return true, !pol
		}
	case *ssa.Call:
		f := x.Call.StaticCallee()
		if f == nil || !c.inModule(f) || f.Blocks == nil {
			return false, pol
		}
		var rets []*ssa.Return
		for _, b := range f.Blocks {
			if ret, ok := asReturn(b); ok {
				rets = append(rets, ret)
			}
		}
		if len(rets) == 1 && len(rets[0].Results) == 1 {
			return c.evalAvail(rets[0].Results[0], pol, typ, depth+1)
		}
	}
	return false, pol
}

func rulePoolHeartbeat(c *Ctx, r *Rule) {
	pr := c.pool()
	if pr == nil {
		r.Unresolved("pipeline.pool")
		return
	}
	var formulas []string
	for _, t := range c.Implementers(pr.iface) {
		n := namedOf(t)
		typ := n.Obj().Name()
		get := c.MethodOf(t, "get")
		back := c.MethodOf(t, "back")
		if get == nil || back == nil {
			continue
		}
		r.Inst(1)
		var cf *condField
		for _, x := range c.condFields("pipeline") {
			if x.owner == n {
				xx := x
				cf = &xx
			}
		}
		if cf == nil {
			r.Ob(false, typ+"|cond", get.Pos(), "pool has no sync.Cond field")
			continue
		}
		// (a) heartbeat goroutine started through a Once on a path dominating every Wait
		var waits, onces []ssa.CallInstruction
		var hb *ssa.Function
		for _, ci := range callsIn(get) {
			if isCondCall(ci, "Wait", *cf) {
				waits = append(waits, ci)
			}
			if f := calleeFunc(ci); f != nil && qualName(f) == "(*sync.Once).Do" {
				// the started function: a literal, a named function, or a method value (bound wrapper -> method)
				var starters []*ssa.Function
				var follow func(g *ssa.Function, d int)
				follow = func(g *ssa.Function, d int) {
					if g == nil || g.Blocks == nil || d > 2 {
						return
					}
					starters = append(starters, g)
					if g.Synthetic != "" { // bound method wrapper / thunk: the method it calls
						for _, cj := range callsIn(g) {
							follow(cj.Common().StaticCallee(), d+1)
						}
					}
				}
				switch x := ci.Common().Args[1].(type) {
				case *ssa.MakeClosure:
					g, _ := x.Fn.(*ssa.Function)
					follow(g, 0)
				case *ssa.Function:
					follow(x, 0)
				}
				for _, cl := range starters {
					for _, b := range cl.Blocks {
						for _, in := range b.Instrs {
							if g, ok := in.(*ssa.Go); ok && g.Call.StaticCallee() != nil {
								hb = g.Call.StaticCallee()
								onces = append(onces, ci)
							}
						}
					}
				}
			}
		}
		r.Ob(len(waits) > 0, typ+"|wait", get.Pos(), "get blocks on the cond when the pool is exhausted (readers block rather than drop)")
		for i, w := range waits {
			dom := false
			for _, o := range onces {
				if instrDominates(o, w) {
					dom = true
				}
			}
			r.Ob(dom, fmt.Sprintf("%s|heartbeat-before-wait#%d", typ, i), w.Pos(), "the wake-up heartbeat is started (sync.Once) on every path that reaches Wait")
		}
		if hb == nil {
			r.Ob(false, typ+"|heartbeat", get.Pos(), "no heartbeat goroutine found")
			continue
		}
		// (b) heartbeat: a Broadcast in a cycle, guarded by waiters>0 and inUse<capacity
		var bcasts []ssa.CallInstruction
		for _, ci := range callsIn(hb) {
			if isCondCall(ci, "Broadcast", *cf) || isCondCall(ci, "Signal", *cf) {
				bcasts = append(bcasts, ci)
			}
		}
		r.Ob(len(bcasts) >= 1, typ+"|heartbeat-broadcast", hb.Pos(), "heartbeat broadcasts on the pool's cond")
		// the heartbeat is started once (sync.Once): it may end only when the pool is stopped
		for i, ret := range returnsOf(hb) {
			okStop := false
			for _, l := range c.unitGuards(ret) {
				if call, ok := l.v.(*ssa.Call); ok && atomicOpOn(call, "Load", typ, "stopped") && l.pol {
					okStop = true
				}
			}
			r.Ob(okStop, fmt.Sprintf("%s|heartbeat-ends-only-on-stop#%d", typ, i), ret.Pos(), "the heartbeat goroutine, which is started only once, returns only when the pool is stopped (if it retires earlier, a reader whose wake-up was missed sleeps for ever)")
		}
		for i, b := range bcasts {
			cyc, _ := c.pathExists(hb, b, func(in ssa.Instruction) bool { return in == ssa.Instruction(b) }, nil)
			r.Ob(cyc, fmt.Sprintf("%s|heartbeat-loop#%d", typ, i), b.Pos(), "the heartbeat broadcast is periodic (inside a loop)")
			var parts []string
			bad := ""
			for _, cl := range c.guards(hb)[b.Block()] {
				if len(cl) != 1 {
					continue
				}
				l := cl[0]
				if isAv, pol := c.evalAvail(l.v, l.pol, typ, 0); isAv {
					if pol {
						parts = append(parts, "available")
					} else {
						parts = append(parts, "!available")
						bad = "the heartbeat wakes waiters only while the pool is FULL (guard is ¬(inUse<capacity)); once capacity is free a waiter whose Broadcast was missed is never woken"
					}
					continue
				}
				if op, x, y, ok := cmpLit(l); ok {
					if call, isCall := stripConv(x).(*ssa.Call); isCall && atomicOpOn(call, "Load", typ, "slowWaiters") {
						if k, isK := constInt(y); isK && ((op == token.GTR && k == 0) || (op == token.GEQ && k == 1) || (op == token.NEQ && k == 0)) {
							parts = append(parts, "waiters>0")
							continue
						}
					}
				}
				// a guard that is neither is tolerated only if it is the stop flag
				if call, ok := l.v.(*ssa.Call); ok && atomicOpOn(call, "Load", typ, "stopped") && !l.pol {
					continue
				}
				parts = append(parts, "other("+c.litString(l)+")")
			}
			sort.Strings(parts)
			formula := strings.Join(parts, " ∧ ")
			formulas = append(formulas, formula)
			for _, p := range parts {
				if strings.HasPrefix(p, "other(") && bad == "" {
					bad = "heartbeat broadcast has an extra guard " + p + " (a waiter could be left asleep when it holds)"
				}
			}
			msg := "heartbeat Broadcast guard is " + formula
			if bad != "" {
				msg = "heartbeat Broadcast guard is [" + formula + "]: " + bad
			}
			r.Ob(bad == "", fmt.Sprintf("%s|heartbeat-guard#%d", typ, i), b.Pos(), msg)
		}
		// back() broadcasts after giving the slot back on every path
		var bb []ssa.CallInstruction
		for _, ci := range callsIn(back) {
			if isCondCall(ci, "Broadcast", *cf) {
				bb = append(bb, ci)
			}
		}
		miss := true
		if len(bb) > 0 {
			miss, _ = c.pathExists(back, nil, isReturn, func(in ssa.Instruction) bool {
				for _, b := range bb {
					if in == ssa.Instruction(b) {
						return true
					}
				}
				return false
			})
		}
		r.Ob(!miss, typ+"|back-broadcasts", back.Pos(), "back() broadcasts on every path (a blocked reader resumes once capacity is free)")
		if len(bb) > 0 {
			// after the counter decrement
			for _, ci := range callsIn(back) {
				if atomicOpOn(ci, "Dec", typ, "inUseEvents") {
					r.Ob(instrDominates(ci, bb[len(bb)-1]), typ+"|broadcast-after-dec", bb[len(bb)-1].Pos(), "the Broadcast follows the in-use decrement (woken readers see the free capacity)")
				}
			}
		}
		// waiter accounting: slowWaiters.Inc before Wait, Dec after
		for i, w := range waits {
			inc, dec := false, false
			for _, ci := range callsIn(get) {
				if atomicOpOn(ci, "Inc", typ, "slowWaiters") && instrDominates(ci, w) {
					inc = true
				}
				if atomicOpOn(ci, "Dec", typ, "slowWaiters") {
					dci := ci
					miss, _ := c.pathExists(get, w, func(in ssa.Instruction) bool { return isReturn(in) || in == ssa.Instruction(w) }, func(in ssa.Instruction) bool { return in == ssa.Instruction(dci) })
					if !miss {
						dec = true
					}
				}
			}
			r.Ob(inc && dec, fmt.Sprintf("%s|waiter-count#%d", typ, i), w.Pos(), "a blocked reader is counted in slowWaiters while it waits (the heartbeat's waiters>0 test sees it)")
		}
	}
	// (c) siblings agree
	if len(formulas) >= 2 {
		same := true
		for _, f := range formulas[1:] {
			if f != formulas[0] {
				same = false
			}
		}
		r.Ob(same, "siblings-agree", token.NoPos, "the pool implementations' heartbeat guards are the same formula: "+strings.Join(formulas, " | "))
	}
}

func ruleChargeProtocol(c *Ctx, r *Rule) {
	mk := c.Method("pipeline", "streamer", "makeCharged")
	if mk == nil {
		// role: the function appending to streamer.charged
		for _, a := range c.fieldAccesses(pipelinePkg, "streamer", "charged") {
			if a.write {
				if call, ok := a.val.(*ssa.Call); ok {
					if b, ok := call.Call.Value.(*ssa.Builtin); ok && b.Name() == "append" {
						mk = a.fn
					}
				}
			}
		}
	}
	if mk == nil {
		r.Unresolved("function that appends to streamer.charged")
		return
	}
	isMk := func(in ssa.Instruction) bool {
		ci, ok := in.(ssa.CallInstruction)
		return ok && calleeFunc(ci) == mk
	}
	firstNil := func(v ssa.Value, pol bool) (isTest bool, firstIsNil bool) {
		v, pol = peelNot(v, pol)
		b, ok := v.(*ssa.BinOp)
		if !ok {
			return false, false
		}
		var other ssa.Value
		if isLoadOfField(b.X, pipelinePkg, "stream", "first") {
			other = b.Y
		} else if isLoadOfField(b.Y, pipelinePkg, "stream", "first") {
			other = b.X
		} else {
			return false, false
		}
		if !isNilConst(other) {
			return false, false
		}
		switch b.Op {
		case token.EQL:
			return true, pol
		case token.NEQ:
			return true, !pol
		}
		return false, false
	}
	// (1) every isAttached=false store: all paths to return pass makeCharged unless first == nil
	for _, a := range c.fieldAccesses(pipelinePkg, "stream", "isAttached") {
		if !a.write || isFreshAlloc(a.base) {
			continue
		}
		if b, ok := constBool(a.val); !ok || b {
			continue
		}
		r.Inst(1)
		edgeOK := func(b *ssa.BasicBlock, i int) bool {
			iff, ok := b.Instrs[len(b.Instrs)-1].(*ssa.If)
			if !ok {
				return true
			}
			if isT, isNil := firstNil(iff.Cond, i == 0); isT && isNil {
				return false // queue empty: nothing to re-charge
			}
			return true
		}
		lost, w := c.pathExistsE(a.fn, a.in, isReturn, isMk, edgeOK)
		msg := "after detaching, a stream that still has events is put back on the charged list"
		if lost {
			msg = "after isAttached=false a path reaches the return at " + c.pos(w.Pos()) + " with first != nil and without makeCharged: events that arrived while detaching are never processed"
		}
		r.Ob(!lost, c.fnName(a.fn)+"|recharge-after-detach", a.in.Pos(), msg)
	}
	// (2) enqueue into an empty queue charges the stream unless it is attached
	for _, a := range c.fieldAccesses(pipelinePkg, "stream", "first") {
		if !a.write || isFreshAlloc(a.base) || isNilConst(a.val) {
			continue
		}
		if _, isParam := a.val.(*ssa.Parameter); !isParam {
			continue // time-out event installation / dequeue are not enqueues of a read event
		}
		r.Inst(1)
		edgeOK := func(b *ssa.BasicBlock, i int) bool {
			iff, ok := b.Instrs[len(b.Instrs)-1].(*ssa.If)
			if !ok {
				return true
			}
			v, pol := peelNot(iff.Cond, i == 0)
			if isLoadOfField(v, pipelinePkg, "stream", "isAttached") && pol {
				return false // attached: its processor will pick the event up (and is signalled, R1)
			}
			return true
		}
		lost, w := c.pathExistsE(a.fn, a.in, isReturn, isMk, edgeOK)
		msg := "enqueue into an empty unattached stream charges it"
		if lost {
			msg = "enqueue into an empty stream reaches the return at " + c.pos(w.Pos()) + " without makeCharged although the stream is not attached: the stream is never picked up"
		}
		r.Ob(!lost, c.fnName(a.fn)+"|charge-on-first-event", a.in.Pos(), msg)
		// and the empty test itself: the store is guarded by first == nil
		g := false
		for _, l := range c.unitGuards(a.in) {
			if isT, isNil := firstNil(l.v, l.pol); isT && isNil {
				g = true
			}
		}
		r.Ob(g, c.fnName(a.fn)+"|empty-test", a.in.Pos(), "the charge branch is exactly the empty→non-empty transition (first == nil)")
	}
}

func ruleBlockedTimeout(c *Ctx, r *Rule) {
	var cf condField
	found := false
	for _, x := range c.condFields("pipeline") {
		if x.owner.Obj().Name() == "stream" {
			cf, found = x, true
		}
	}
	if !found {
		r.Unresolved("stream cond")
		return
	}
	var waits []ssa.CallInstruction
	c.eachCall(func(fn *ssa.Function, ci ssa.CallInstruction) {
		if isCondCall(ci, "Wait", cf) {
			waits = append(waits, ci)
		}
	})
	r.Inst(len(waits))
	// functions appending to / removing from streamer.blocked
	var reg, dereg *ssa.Function
	for _, a := range c.fieldAccesses(pipelinePkg, "streamer", "blocked") {
		if !a.write {
			continue
		}
		switch v := a.val.(type) {
		case *ssa.Call:
			if b, ok := v.Call.Value.(*ssa.Builtin); ok && b.Name() == "append" {
				reg = a.fn
			}
		case *ssa.Slice:
			dereg = a.fn
		}
	}
	if reg == nil || dereg == nil {
		r.Unresolved("register/deregister functions of streamer.blocked")
		return
	}
	for i, w := range waits {
		fn := w.Parent()
		name := fmt.Sprintf("%s|wait#%d", c.fnName(fn), i)
		var regCall, deregCall ssa.CallInstruction
		var btStore ssa.Instruction
		for _, ci := range callsIn(fn) {
			if calleeFunc(ci) == reg {
				regCall = ci
			}
			if calleeFunc(ci) == dereg {
				deregCall = ci
			}
		}
		for _, a := range c.fieldAccesses(pipelinePkg, "stream", "blockTime") {
			if a.write && a.fn == fn {
				btStore = a.in
			}
		}
		inIter := func(x ssa.Instruction) bool {
			if x == nil || !instrDominates(x, w) {
				return false
			}
			back, _ := c.pathExists(fn, w, func(in ssa.Instruction) bool { return in == x }, nil)
			return back // x is re-executed on every iteration that waits again
		}
		r.Ob(regCall != nil && inIter(regCall), name+"|registered", w.Pos(), "before each Wait the stream registers itself in the blocked list (so the time-out heartbeat can see it)")
		r.Ob(btStore != nil && inIter(btStore), name+"|blockTime", w.Pos(), "before each Wait blockTime is refreshed")
		okD := false
		if deregCall != nil {
			miss, _ := c.pathExists(fn, w, func(in ssa.Instruction) bool { return isReturn(in) || in == ssa.Instruction(w) }, func(in ssa.Instruction) bool { return in == ssa.Instruction(deregCall) })
			okD = !miss
		}
		r.Ob(okD, name+"|deregistered", w.Pos(), "after each wake-up the stream leaves the blocked list")
	}
	// heartbeat goroutine: started from streamer.start, loops, calls the unblock function on blocked streams
	var hb *ssa.Function
	for _, fn := range c.ModFuncs {
		if rn := recvNamed(fn); rn != nil && rn.Obj().Name() == "streamer" && inPkg(rn, pipelinePkg) {
			for _, b := range fn.Blocks {
				for _, in := range b.Instrs {
					if g, ok := in.(*ssa.Go); ok && g.Call.StaticCallee() != nil {
						if rn2 := recvNamed(g.Call.StaticCallee()); rn2 == rn {
							hb = g.Call.StaticCallee()
							// the starter is called from the pipeline's Start
							started := false
							for _, cs := range c.sitesOf(fn) {
								if cs.Parent().Name() == "Start" {
									started = true
								}
							}
							r.Ob(started, c.fnName(fn)+"|started", in.Pos(), "the time-out heartbeat goroutine is started by Pipeline.Start")
						}
					}
				}
			}
		}
	}
	if hb == nil {
		r.Ob(false, "heartbeat", token.NoPos, "no time-out heartbeat goroutine in streamer")
		return
	}
	// unblock function: installs a time-out event into first (covered by R1 for the signal)
	var unblock *ssa.Function
	for _, a := range c.fieldAccesses(pipelinePkg, "stream", "first") {
		if a.write && !isNilConst(a.val) {
			if call, ok := a.val.(*ssa.Call); ok && call.Call.StaticCallee() != nil && typeIs(call.Type(), pipelinePkg, "Event") {
				unblock = a.fn
			}
		}
	}
	if unblock == nil {
		r.Ob(false, "unblock", token.NoPos, "no function installs a time-out event into an empty blocked stream")
		return
	}
	var uc ssa.CallInstruction
	for _, ci := range callsIn(hb) {
		if calleeFunc(ci) == unblock {
			uc = ci
		}
	}
	okLoop := false
	if uc != nil {
		okLoop, _ = c.pathExists(hb, uc, func(in ssa.Instruction) bool { return in == ssa.Instruction(uc) }, nil)
	}
	r.Ob(okLoop, c.fnName(hb)+"|unblock-loop", hb.Pos(), "the heartbeat periodically calls the unblock function on the blocked streams")
	for i, ret := range returnsOf(hb) {
		r.Ob(c.guardedByStopFlag(ret, "streamer", "shouldStop"), fmt.Sprintf("%s|ends-only-on-stop#%d", c.fnName(hb), i), ret.Pos(), "the time-out heartbeat returns only when the streamer is stopping")
	}
	// the list it walks is read from streamer.blocked under blockedMu
	okRead := false
	flow := c.flowMust(hb)
	for _, a := range c.fieldAccesses(pipelinePkg, "streamer", "blocked") {
		if !a.write && a.fn == hb && flow.holdsAny(a.in, func(l lockRef) bool { return l.path == ".blockedMu" }) {
			okRead = true
		}
	}
	r.Ob(okRead, c.fnName(hb)+"|reads-blocked", hb.Pos(), "the heartbeat snapshots streamer.blocked under blockedMu")
	// the unblock function's time-out test compares time.Since(blockTime) with eventTimeout and only then gives up
	okT := false
	var ubBlocks []*ssa.BasicBlock
	ubBlocks = append(ubBlocks, unblock.Blocks...)
	for _, a := range allAnon(unblock) {
		ubBlocks = append(ubBlocks, a.Blocks...)
	}
	for _, b := range ubBlocks {
		for _, in := range b.Instrs {
			if bo, ok := in.(*ssa.BinOp); ok && (bo.Op == token.LSS || bo.Op == token.GEQ || bo.Op == token.GTR || bo.Op == token.LEQ) {
				if isLoadOfField(stripConv(bo.Y), pipelinePkg, "streamer", "eventTimeout") || isLoadOfField(stripConv(bo.X), pipelinePkg, "streamer", "eventTimeout") {
					okT = true
				}
			}
		}
	}
	r.Ob(okT, c.fnName(unblock)+"|timeout-test", unblock.Pos(), "the unblock function compares the blocked time with the event time-out")
}

func ruleFlushHeartbeat(c *Ctx, r *Rule) {
	br := c.batcher()
	start := c.Method("pipeline", "Batcher", "Start")
	if br.sender == nil || start == nil {
		r.Unresolved("Batcher.Start / batch sender")
		return
	}
	r.Inst(1)
	var hb *ssa.Function
	for _, b := range start.Blocks {
		for _, in := range b.Instrs {
			if g, ok := in.(*ssa.Go); ok {
				if f := g.Call.StaticCallee(); f != nil && f != br.worker && recvNamed(f) != nil && f.Synthetic == "" {
					for _, ci := range callsIn(f) {
						if calleeFunc(ci) == br.sender {
							hb = f
						}
					}
				}
			}
		}
	}
	r.Ob(hb != nil, c.fnName(start)+"|starts-heartbeat", start.Pos(), "Batcher.Start starts a goroutine that calls the send-if-ready function")
	if hb == nil {
		return
	}
	for i, ret := range returnsOf(hb) {
		r.Ob(c.guardedByStopFlag(ret, "Batcher", "shouldStop"), fmt.Sprintf("%s|ends-only-on-stop#%d", c.fnName(hb), i), ret.Pos(), "the flush heartbeat returns only when the batcher is stopping (a retired heartbeat leaves a partly filled batch unsent for ever)")
	}
	for _, ci := range callsIn(hb) {
		if calleeFunc(ci) != br.sender {
			continue
		}
		cyc, _ := c.pathExists(hb, ci, func(in ssa.Instruction) bool { return in == ssa.Instruction(ci) }, nil)
		r.Ob(cyc, c.fnName(hb)+"|periodic", ci.Pos(), "the heartbeat re-evaluates the current batch periodically (loop)")
		// no iteration skips the evaluation: between two acquisitions of the fill lock the send-if-ready call always happens
		for _, lk := range callsIn(hb) {
			if op, ref := syncLockOp(lk); op == opLock && ref.path == ".mu" && ref.root == ssa.Value(hb.Params[0]) {
				sci := ci
				// an iteration may skip only when there is no current batch at all (b.batch == nil)
				noBatch := func(b *ssa.BasicBlock, i int) bool {
					iff, ok := b.Instrs[len(b.Instrs)-1].(*ssa.If)
					if !ok {
						return true
					}
					v, pol := peelNot(iff.Cond, i == 0)
					if bo, ok := v.(*ssa.BinOp); ok && (bo.Op == token.EQL || bo.Op == token.NEQ) && isLoadOfField(bo.X, pipelinePkg, "Batcher", "batch") && isNilConst(bo.Y) {
						if (bo.Op == token.EQL) == pol {
							return false
						}
					}
					return true
				}
				skip, _ := c.pathExistsE(hb, lk, func(in ssa.Instruction) bool { return in == ssa.Instruction(lk) }, func(in ssa.Instruction) bool { return in == ssa.Instruction(sci) }, noBatch)
				r.Ob(!skip, c.fnName(hb)+"|every-iteration-evaluates", lk.Pos(), "every heartbeat iteration that does not stop evaluates the current batch (an iteration that skips it leaves a partially filled batch unflushed)")
			}
		}
		okL, why := c.heldInterproc(ci, lockRef{hb.Params[0], ".mu"}, 1)
		if okL {
			why = "the heartbeat evaluates the batch with the fill lock held"
		}
		r.Ob(okL, c.fnName(hb)+"|under-fill-lock", ci.Pos(), why)
		// the only exit of the heartbeat loop is the stop flag
		for _, b := range hb.Blocks {
			if ret, ok := asReturn(b); ok {
				g := false
				for _, l := range c.unitGuards(ret) {
					if isLoadOfField(l.v, pipelinePkg, "Batcher", "shouldStop") && l.pol {
						g = true
					}
				}
				r.Ob(g, c.fnName(hb)+"|exit-only-on-stop", ret.Pos(), "the heartbeat ends only when the batcher is stopped")
			}
		}
	}
	// readiness: the function storing Batch.status has an age clause time.Since(startTime) > timeout, and count/bytes clauses
	var upd *ssa.Function
	for _, a := range c.fieldAccesses(pipelinePkg, "Batch", "status") {
		if a.write && recvNamed(a.fn) != nil && recvNamed(a.fn).Obj().Name() == "Batch" {
			if k, ok := constInt(a.val); ok && k != 0 {
				upd = a.fn
			}
		}
	}
	if upd == nil {
		r.Ob(false, "readiness", token.NoPos, "no readiness function (writer of Batch.status) found")
		return
	}
	// the sender calls it first
	calls := false
	for _, ci := range callsIn(br.sender) {
		if calleeFunc(ci) == upd {
			miss, _ := c.pathExists(br.sender, nil, func(in ssa.Instruction) bool { _, isSend := in.(*ssa.Send); return isSend || isReturn(in) }, func(in ssa.Instruction) bool { return in == ssa.Instruction(ci) })
			calls = !miss
		}
	}
	r.Ob(calls, c.fnName(br.sender)+"|evaluates-readiness", br.sender.Pos(), "the send-if-ready function evaluates readiness before deciding")
	age := false
	for _, b := range upd.Blocks {
		for _, in := range b.Instrs {
			bo, ok := in.(*ssa.BinOp)
			if !ok {
				continue
			}
			since := func(v ssa.Value) bool {
				call, ok := stripConv(v).(*ssa.Call)
				if !ok || call.Call.StaticCallee() == nil || qualName(call.Call.StaticCallee()) != "time.Since" {
					return false
				}
				return isLoadOfField(call.Call.Args[0], pipelinePkg, "Batch", "startTime")
			}
			to := func(v ssa.Value) bool { return isLoadOfField(stripConv(v), pipelinePkg, "Batch", "timeout") }
			if (bo.Op == token.GTR || bo.Op == token.GEQ) && since(bo.X) && to(bo.Y) {
				age = true
			}
			if (bo.Op == token.LSS || bo.Op == token.LEQ) && to(bo.X) && since(bo.Y) {
				age = true
			}
		}
	}
	r.Ob(age, c.fnName(upd)+"|age-clause", upd.Pos(), "readiness has the clause time.Since(startTime) > timeout (a partially filled batch becomes ready by age)")
	// the ready-status stores depend on nothing but emptiness, the size clauses and the age clause
	for _, a := range c.fieldAccesses(pipelinePkg, "Batch", "status") {
		if !a.write || a.fn != upd {
			continue
		}
		k, isK := constInt(a.val)
		if !isK || k == 0 {
			continue
		}
		extra := ""
		for _, cl := range c.guards(upd)[a.in.Block()] {
			for _, l := range cl {
				if !c.isReadinessLit(l.v) {
					extra = c.litString(l)
				}
			}
		}
		msg := "a batch becomes ready depending only on emptiness, its size limits and its age"
		if extra != "" {
			msg = "readiness additionally depends on [" + extra + "]: a non-empty batch for which it does not hold is never flushed, so its events are never finalized"
		}
		r.Ob(extra == "", fmt.Sprintf("%s|pure-readiness|status=%d", c.fnName(upd), k), a.in.Pos(), msg)
		// the age clause applies to every NON-EMPTY batch, and a batch is empty by its number of events:
		// split children and other events made by the pipeline itself have size 0, so "some bytes are
		// waiting" is not the same thing
		byAge := false
		for _, l := range unitLits(c.guards(upd)[a.in.Block()]) {
			if bo, ok := l.v.(*ssa.BinOp); ok && l.pol {
				for _, side := range []ssa.Value{bo.X, bo.Y} {
					if call, isCall := stripConv(side).(*ssa.Call); isCall && call.Call.StaticCallee() != nil && qualName(call.Call.StaticCallee()) == "time.Since" {
						byAge = true
					}
				}
			}
		}
		if byAge {
			byCount, byBytes := false, false
			for _, l := range unitLits(c.guards(upd)[a.in.Block()]) {
				op, x, y, ok := cmpLit(l)
				if !ok {
					continue
				}
				if k0, isK0 := constInt(y); !isK0 || k0 != 0 || !(op == token.GTR || op == token.NEQ) {
					continue
				}
				if call, isLen := isBuiltinCall(instrOf(stripConv(x)), "len"); isLen && isLoadOfField(stripConv(call.Call.Args[0]), pipelinePkg, "Batch", "events") {
					byCount = true
				}
				if isLoadOfField(stripConv(x), pipelinePkg, "Batch", "eventsSize") {
					byBytes = true
				}
			}
			r.Ob(byCount && !byBytes, fmt.Sprintf("%s|age-applies-to-any-nonempty-batch", c.fnName(upd)), a.in.Pos(), "a batch becomes ready by age whenever it holds at least one event (emptiness judged by the number of events, not by their byte size: split children have size 0)")
		}
	}
	// reset restarts the clock: the function re-slicing events to [:0] stores startTime = time.Now()
	okClock := false
	for _, a := range c.fieldAccesses(pipelinePkg, "Batch", "startTime") {
		if a.write {
			if call, ok := a.val.(*ssa.Call); ok && call.Call.StaticCallee() != nil && qualName(call.Call.StaticCallee()) == "time.Now" {
				for _, e := range c.fieldAccesses(pipelinePkg, "Batch", "events") {
					if e.write && e.fn == a.fn {
						if _, isSl := e.val.(*ssa.Slice); isSl {
							okClock = true
						}
					}
				}
			}
		}
	}
	r.Ob(okClock, "Batch.reset|restarts-clock", upd.Pos(), "emptying a batch restarts its age clock")
	// getBatch resets a batch taken from the free list before it is filled
	gb := false
	for _, fn := range c.ModFuncs {
		if rn := recvNamed(fn); rn == nil || rn.Obj().Name() != "Batcher" {
			continue
		}
		for _, b := range fn.Blocks {
			for _, in := range b.Instrs {
				if u, ok := in.(*ssa.UnOp); ok && u.Op == token.ARROW && !u.CommaOk && isChanOfBatch(u.X.Type()) {
					// a reset call on the received batch post-dominates within the function
					ok2, _ := c.mustPassBeforeReturn(fn, u, func(in2 ssa.Instruction) bool {
						ci, ok := in2.(ssa.CallInstruction)
						if !ok || calleeFunc(ci) == nil {
							return false
						}
						f := calleeFunc(ci)
						for _, e := range c.fieldAccesses(pipelinePkg, "Batch", "startTime") {
							if e.write && e.fn == f {
								return true
							}
						}
						return false
					})
					if ok2 {
						gb = true
					}
				}
			}
		}
	}
	r.Ob(gb, "Batcher.getBatch|reset-on-take", upd.Pos(), "a batch taken from the free list is reset (clock restarted) before use")
}

func ruleWorkerNoFillLock(c *Ctx, r *Rule) {
	br := c.batcher()
	ro := c.roles()
	if br.worker == nil {
		r.Unresolved("batch worker")
		return
	}
	r.Inst(1)
	// functions that lock Batcher.mu
	lockers := map[*ssa.Function]token.Pos{}
	c.eachCall(func(fn *ssa.Function, ci ssa.CallInstruction) {
		if op, ref := syncLockOp(ci); op == opLock && ref.path == ".mu" {
			if n := namedOf(ref.root.Type()); n != nil && n.Obj().Name() == "Batcher" && inPkg(n, pipelinePkg) {
				lockers[fn] = ci.Pos()
			}
		}
	})
	r.Ob(len(lockers) >= 3, "lockers", token.NoPos, fmt.Sprintf("%d functions lock Batcher.mu (Add, heartbeat, Stop expected)", len(lockers)))
	cg := c.callgraph()
	seen := map[*ssa.Function]bool{}
	type item struct {
		fn   *ssa.Function
		path string
	}
	work := []item{{br.worker, c.fnName(br.worker)}}
	bad := ""
	for len(work) > 0 && bad == "" {
		it := work[len(work)-1]
		work = work[:len(work)-1]
		if seen[it.fn] {
			continue
		}
		seen[it.fn] = true
		if _, ok := lockers[it.fn]; ok && it.fn != br.worker {
			bad = it.path
			break
		}
		n := cg.Nodes[it.fn]
		if n == nil {
			continue
		}
		for _, e := range n.Out {
			if e.Site != nil && ro.outOut != nil && invokesMethod(e.Site, ro.outOut) {
				continue // boundary: enters another output instance
			}
			if _, isGo := e.Site.(*ssa.Go); isGo {
				continue
			}
			callee := e.Callee.Func
			if callee == nil || !c.inModule(callee) {
				continue
			}
			if !seen[callee] {
				work = append(work, item{callee, it.path + " -> " + c.fnName(callee)})
			}
		}
	}
	msg := fmt.Sprintf("no call path from the worker to a Lock of Batcher.mu (%d functions explored, %s call graph; boundary: OutputPlugin.Out invoke edges)", len(seen), c.CGKind)
	if bad != "" {
		msg = "the batch worker can reach a Lock of the fill lock: " + bad + " — the filler blocks on freeBatches while holding that lock, so this deadlocks when all batches are in flight"
	}
	r.Ob(bad == "", c.fnName(br.worker)+"|no-fill-lock", br.worker.Pos(), msg)
}

// isReadinessLit: v mentions only len(events), the size limits/accumulators, the age clock and constants.
func (c *Ctx) isReadinessLit(v ssa.Value) bool {
	ok := true
	var walk func(v ssa.Value, d int)
	walk = func(v ssa.Value, d int) {
		if !ok || d > 6 {
			ok = ok && d <= 6
			return
		}
		v = stripConv(v)
		switch x := v.(type) {
		case *ssa.Const:
		case *ssa.BinOp:
			walk(x.X, d+1)
			walk(x.Y, d+1)
		case *ssa.UnOp:
			if x.Op == token.MUL {
				o, f, _, isF := fieldOf(x.X)
				if !isF || !inPkg(o, pipelinePkg) || o.Obj().Name() != "Batch" {
					ok = false
					return
				}
				switch f {
				case "events", "eventsSize", "maxSizeCount", "maxSizeBytes", "startTime", "timeout":
				default:
					ok = false
				}
				return
			}
			walk(x.X, d+1)
		case *ssa.Call:
			if b, isB := x.Call.Value.(*ssa.Builtin); isB && b.Name() == "len" {
				walk(x.Call.Args[0], d+1)
				return
			}
			if f := x.Call.StaticCallee(); f != nil && qualName(f) == "time.Since" {
				walk(x.Call.Args[0], d+1)
				return
			}
			// a small side-effect-free boolean helper of the module: what it is given and what it returns
			if f := x.Call.StaticCallee(); f != nil && c.inModule(f) && f.Blocks != nil && c.predPure(f, 1) {
				for _, a := range x.Call.Args {
					if _, isP := a.(*ssa.Parameter); isP {
						continue
					}
					walk(a, d+1)
				}
				for _, ret := range returnsOf(f) {
					for _, rv := range retResults(ret) {
						walk(rv, d+1)
					}
				}
				return
			}
			ok = false
		case *ssa.Parameter:
			// the receiver, or a helper's parameter whose argument was walked at the call
		case *ssa.Phi:
			for _, e := range x.Edges {
				if _, isC := e.(*ssa.Const); !isC {
					walk(e, d+1)
				}
			}
		default:
			ok = false
		}
	}
	walk(v, 0)
	return ok
}

// ruleProcPoolGrowth: when every processor is pinned behind a multi-line action (asleep in
// blockGet), the only rescue for other charged streams is that the pool doubles; that happens
// exactly when the active count equals the processor count, so a processor must count as
// active for the whole time it owns a stream.
func ruleProcPoolGrowth(c *Ctx, r *Rule) {
	proc := c.Method("pipeline", "processor", "process")
	grow := c.Method("pipeline", "Pipeline", "growProcs")
	if proc == nil || grow == nil {
		r.Unresolved("processor.process / Pipeline.growProcs")
		return
	}
	name := c.fnName(proc)
	// writers of the active counter
	var incs, decs []ssa.CallInstruction
	c.eachCall(func(fn *ssa.Function, ci ssa.CallInstruction) {
		for _, m := range []string{"Inc", "Dec", "Add", "Sub", "Store", "Swap", "CAS", "CompareAndSwap"} {
			if atomicOpOnPtr(ci, m, "processor", "activeCounter") || atomicOpOnPtr(ci, m, "Pipeline", "activeProcs") {
				r.Inst(1)
				if fn != proc || (m != "Inc" && m != "Dec") {
					r.Ob(false, c.fnName(fn)+"|active-counter-writer|"+m, ci.Pos(), "the active-processor count is changed only by processor.process, once up when a stream is taken and once down when it is left (a processor waiting for the next event of its stream still owns the stream)")
					continue
				}
				if m == "Inc" {
					incs = append(incs, ci)
				} else {
					decs = append(decs, ci)
				}
			}
		}
	})
	r.Ob(len(incs) == 1 && len(decs) == 1, name+"|one-inc-one-dec", proc.Pos(), fmt.Sprintf("processor.process raises the active count once and lowers it once per stream (found %d / %d)", len(incs), len(decs)))
	if len(incs) == 1 && len(decs) == 1 {
		// the stream is worked on between the two
		var work ssa.CallInstruction
		for _, ci := range callsIn(proc) {
			if f := calleeFunc(ci); f != nil && c.inModule(f) && recvNamed(f) != nil && recvNamed(f).Obj().Name() == "processor" && instrDominates(incs[0], ci) {
				if to, _ := c.pathExists(proc, ci, func(in ssa.Instruction) bool { return in == ssa.Instruction(decs[0]) }, nil); to {
					work = ci
				}
			}
		}
		r.Ob(work != nil, name+"|brackets-the-work", incs[0].Pos(), "the stream is processed between raising and lowering the count")
	}
	// the pool grows exactly when all processors are active
	gname := c.fnName(grow)
	n := 0
	for _, ci := range callsIn(grow) {
		f := calleeFunc(ci)
		if f == nil || f.Name() != "expandProcs" {
			continue
		}
		n++
		r.Inst(1)
		ok := false
		for _, l := range c.unitGuards(ci) {
			if op, x, y, isCmp := cmpLit(l); isCmp && op == token.EQL {
				a := isAtomicLoadOfPtr(x, "Pipeline", "procCount") && isAtomicLoadOfPtr(y, "Pipeline", "activeProcs")
				b := isAtomicLoadOfPtr(y, "Pipeline", "procCount") && isAtomicLoadOfPtr(x, "Pipeline", "activeProcs")
				if a || b {
					ok = true
				}
			}
		}
		r.Ob(ok, gname+"|grows-when-all-active", ci.Pos(), "the processor pool is doubled when the number of active processors equals the number of processors")
	}
	r.Ob(n >= 1, gname+"|expands", grow.Pos(), "growProcs can expand the pool")
}

// atomicOpOnPtr: ci is method `name` called on the value loaded from pointer field typ.field (*atomic.Int32).
func atomicOpOnPtr(ci ssa.CallInstruction, name, typ, field string) bool {
	f := calleeFunc(ci)
	if f == nil || f.Name() != name || len(ci.Common().Args) == 0 {
		return false
	}
	return isLoadOfField(ci.Common().Args[0], pipelinePkg, typ, field)
}

func isAtomicLoadOfPtr(v ssa.Value, typ, field string) bool {
	call, ok := stripConv(v).(*ssa.Call)
	if !ok || call.Call.StaticCallee() == nil || call.Call.StaticCallee().Name() != "Load" || len(call.Call.Args) == 0 {
		return false
	}
	return isLoadOfField(call.Call.Args[0], pipelinePkg, typ, field)
}

// ruleBlockedIndex: the time-out heartbeat only sees the streams that are in streamer.blocked, and a
// stream leaves the list by the position recorded in stream.blockIndex. A stream whose recorded
// position is stale removes another, still parked stream from the list, which then never gets its
// time-out. Necessary condition checked: blocked[i].blockIndex == i is re-established by every writer.
func ruleBlockedIndex(c *Ctx, r *Rule) {
	var isBlockedVal func(v ssa.Value, d int) bool
	isBlockedVal = func(v ssa.Value, d int) bool {
		v = stripConv(v)
		if isLoadOfField(v, pipelinePkg, "streamer", "blocked") {
			return true
		}
		// the list handed to a helper as an argument
		if par, ok := v.(*ssa.Parameter); ok && d < 2 {
			pi := paramIndex(par.Parent(), par)
			sites := c.sitesOf(par.Parent())
			if pi < 0 || len(sites) == 0 {
				return false
			}
			for _, cs := range sites {
				if pi >= len(cs.Common().Args) || !isBlockedVal(cs.Common().Args[pi], d+1) {
					return false
				}
			}
			return true
		}
		return false
	}
	isBlockedLoad := func(v ssa.Value) bool { return isBlockedVal(v, 0) }
	elemOfBlocked := func(addr ssa.Value) (*ssa.IndexAddr, bool) {
		ia, ok := addr.(*ssa.IndexAddr)
		if !ok || !isBlockedLoad(ia.X) {
			return nil, false
		}
		return ia, true
	}
	idxWrites := c.fieldAccesses(pipelinePkg, "stream", "blockIndex")
	explained := map[ssa.Instruction]bool{}
	nElem, nApp := 0, 0
	for _, fn := range c.ModFuncs {
		if c.pkgOf(fn) != "pipeline" {
			continue
		}
		for _, b := range fn.Blocks {
			for _, in := range b.Instrs {
				st, ok := in.(*ssa.Store)
				if !ok {
					continue
				}
				ia, ok := elemOfBlocked(st.Addr)
				if !ok || isNilConst(st.Val) {
					continue
				}
				nElem++
				r.Inst(1)
				okFix := false
				for _, a := range idxWrites {
					if !a.write || a.fn != fn || !lin(a.val).equal(lin(ia.Index)) {
						continue
					}
					if !(instrDominates(st, a.in) || instrDominates(a.in, st)) {
						continue
					}
					same := stripConv(a.base) == stripConv(st.Val)
					if ld, isLd := stripConv(a.base).(*ssa.UnOp); isLd && ld.Op == token.MUL {
						if ia2, ok2 := elemOfBlocked(ld.X); ok2 && lin(ia2.Index).equal(lin(ia.Index)) {
							same = true
						}
					}
					if same {
						okFix = true
						explained[a.in] = true
					}
				}
				r.Ob(okFix, c.fnName(fn)+"|moved-stream-gets-its-index", st.Pos(), "a stream stored at position i of streamer.blocked has blockIndex set to i in the same function (a stale index later removes another, still parked stream from the list: it never gets its time-out)")
			}
		}
	}
	for _, a := range c.fieldAccesses(pipelinePkg, "streamer", "blocked") {
		if !a.write {
			continue
		}
		app, ok := isBuiltinCall(instrOf(a.val), "append")
		if !ok || len(app.Call.Args) != 2 {
			continue
		}
		nApp++
		r.Inst(1)
		okLen := false
		if v, single := singleVararg(app.Call.Args[1]); single {
			for _, w := range idxWrites {
				if !w.write || w.fn != a.fn || stripConv(w.base) != stripConv(v) || !instrDominates(w.in, a.in) {
					continue
				}
				f := lin(w.val)
				if f.k == 0 && len(f.t) == 1 {
					for k, n := range f.t {
						if k.isLen && n == 1 && isBlockedLoad(k.v) {
							okLen = true
							explained[w.in] = true
						}
					}
				}
			}
		}
		r.Ob(okLen, c.fnName(a.fn)+"|appended-stream-records-length", a.in.Pos(), "a stream appended to streamer.blocked records the list's length before the append as its position")
	}
	for _, w := range idxWrites {
		if !w.write || explained[w.in] {
			continue
		}
		if k, isK := constInt(w.val); isK && k == -1 {
			continue
		}
		if isFreshAlloc(w.base) {
			continue
		}
		r.Ob(false, c.fnName(w.fn)+"|writes-blockIndex", w.in.Pos(), "stream.blockIndex is written only with the stream's position in streamer.blocked or -1")
	}
	r.Ob(nElem >= 1 && nApp >= 1, "streamer.blocked|writers", token.NoPos, fmt.Sprintf("the blocked list has an appending writer and a position-filling remover (found %d element stores, %d appends)", nElem, nApp))
}

// guardedByStopFlag: in is reached only when the stop flag (a plain bool field or an atomic with Load) is true.
func (c *Ctx) guardedByStopFlag(in ssa.Instruction, typ, field string) bool {
	for _, l := range c.unitGuards(in) {
		if !l.pol {
			continue
		}
		if isLoadOfField(l.v, pipelinePkg, typ, field) {
			return true
		}
		if call, ok := l.v.(*ssa.Call); ok && atomicOpOn(call, "Load", typ, field) {
			return true
		}
	}
	return false
}

// ruleLockOrder: the mutexes of the pipeline core (stream, streamer, batcher, pools) are taken in one
// global order. For every place where a lock of class B (type.field) is taken — directly or inside a
// callee, followed through static calls — while a lock of class A is held on some path, the pair
// (A, B) is recorded; two pairs (A, B) and (B, A) mean two goroutines can each hold one and wait for
// the other for ever. Classes, not instances: taking the same class twice is not judged.
func ruleLockOrder(c *Ctx, r *Rule) {
	classOf := func(ref lockRef) string {
		if ref.root == nil {
			return ""
		}
		n := namedOf(deref(ref.root.Type()))
		if n == nil || n.Obj().Pkg() == nil || n.Obj().Pkg().Path() != pipelinePkg {
			return ""
		}
		p := ref.path
		if strings.HasSuffix(p, ".L") { // a cond's lock is named through the cond
			if lp, ok := c.condLock(pipelinePkg, n.Obj().Name(), strings.TrimSuffix(p, ".L")[1:]); ok {
				p = lp
			}
		}
		return n.Obj().Name() + p
	}
	// classes a function may acquire (itself or through static callees in the package)
	acqMemo := map[*ssa.Function]map[string]bool{}
	var acquires func(fn *ssa.Function, d int) map[string]bool
	acquires = func(fn *ssa.Function, d int) map[string]bool {
		if m, ok := acqMemo[fn]; ok {
			return m
		}
		m := map[string]bool{}
		acqMemo[fn] = m
		if fn == nil || fn.Blocks == nil || d > 4 {
			return m
		}
		for _, ci := range callsIn(fn) {
			if _, isGo := ci.(*ssa.Go); isGo {
				continue
			}
			if op, ref := syncLockOp(ci); op == opLock {
				if cl := classOf(ref); cl != "" {
					m[cl] = true
				}
				continue
			}
			if g := ci.Common().StaticCallee(); g != nil && c.inModule(g) && c.pkgOf(g) == "pipeline" {
				for k := range acquires(g, d+1) {
					m[k] = true
				}
			}
		}
		return m
	}
	type site struct {
		pos token.Pos
		fn  string
	}
	edges := map[string]map[string]site{}
	nSites := 0
	for _, fn := range c.ModFuncs {
		if c.pkgOf(fn) != "pipeline" || fn.Blocks == nil {
			continue
		}
		flow := c.lockFlow(fn, lockset{}, false) // held on SOME path
		for _, ci := range callsIn(fn) {
			if _, isGo := ci.(*ssa.Go); isGo {
				continue
			}
			newly := map[string]bool{}
			if op, ref := syncLockOp(ci); op == opLock {
				if cl := classOf(ref); cl != "" {
					newly[cl] = true
				}
			} else if op == opNone {
				if g := ci.Common().StaticCallee(); g != nil && c.inModule(g) && c.pkgOf(g) == "pipeline" {
					for k := range acquires(g, 0) {
						newly[k] = true
					}
				}
			}
			if len(newly) == 0 {
				continue
			}
			for _, h := range flow.at(ci) {
				hc := classOf(h)
				if hc == "" {
					continue
				}
				for a := range newly {
					if a == hc {
						continue
					}
					nSites++
					if edges[hc] == nil {
						edges[hc] = map[string]site{}
					}
					if _, had := edges[hc][a]; !had {
						edges[hc][a] = site{ci.Pos(), c.fnName(fn)}
					}
				}
			}
		}
	}
	var as []string
	for a := range edges {
		as = append(as, a)
	}
	sort.Strings(as)
	var order []string
	for _, a := range as {
		var bs []string
		for b := range edges[a] {
			bs = append(bs, b)
		}
		sort.Strings(bs)
		for _, b := range bs {
			order = append(order, a+" -> "+b)
			r.Inst(1)
			back, inverted := edges[b][a]
			s1 := edges[a][b]
			msg := fmt.Sprintf("%s is taken while %s is held (in %s); the opposite order occurs nowhere", b, a, s1.fn)
			if inverted {
				msg = fmt.Sprintf("%s is taken while %s is held in %s, and %s is taken while %s is held in %s (%s): two goroutines can each hold one lock and wait for the other for ever", b, a, s1.fn, a, b, back.fn, c.pos(back.pos))
			}
			if !inverted || a < b {
				r.Ob(!inverted, "lock-order|"+a+"|"+b, s1.pos, msg)
			}
		}
	}
	r.Note("lock order pairs (held -> taken): %s", strings.Join(order, "; "))
	r.Ob(len(order) >= 1, "lock-order|pairs", token.NoPos, fmt.Sprintf("%d nested acquisitions of pipeline locks examined (%d sites)", len(order), nSites))
}
