package main

import (
	"fmt"
	"go/token"
	"go/types"
	"strings"

	"golang.org/x/tools/go/ssa"
)

// ruleHoldPropagate (C02.R5 = C15.R1): for every action whose Do can return ActionHold,
// the held event is stored in a receiver field H before the return, every function that
// clears H hands the previously loaded value to Propagate on all returning paths, H is
// co-written with its boolean companion flag, and H is never overwritten while the flag
// says an event is held without a flush in between.
func ruleHoldPropagate(c *Ctx, r *Rule) {
	ro := c.roles()
	if ro.ActionPlugin == nil || ro.actDo == nil || ro.actPropagate == nil {
		r.Unresolved("ActionPlugin.Do / ActionPluginController.Propagate")
		return
	}
	holdVal := int64(-1)
	for v, n := range c.actionResultConsts() {
		if n == "ActionHold" {
			holdVal = v
		}
	}
	if holdVal < 0 {
		r.Unresolved("pipeline.ActionHold")
		return
	}
	for _, t := range c.Implementers(ro.ActionPlugin) {
		do := c.MethodOf(t, "Do")
		if do == nil || do.Blocks == nil {
			continue
		}
		var holdRets []*ssa.Return
		for _, b := range do.Blocks {
			if ret, ok := asReturn(b); ok && len(ret.Results) == 1 {
				if k, ok := constInt(ret.Results[0]); ok && k == holdVal {
					holdRets = append(holdRets, ret)
				}
				// phi of constants
				if phi, ok := ret.Results[0].(*ssa.Phi); ok {
					for _, e := range phi.Edges {
						if k, ok := constInt(e); ok && k == holdVal {
							holdRets = append(holdRets, ret)
						}
					}
				}
			}
		}
		if len(holdRets) == 0 {
			continue
		}
		r.Inst(1)
		name := c.fnName(do)
		recv := do.Params[0]
		ev := do.Params[1]
		owner := namedOf(recv.Type())
		// (a) each hold return is dominated by a store of the event into a receiver field
		var hField string
		var hStores []*ssa.Store
		for _, b := range do.Blocks {
			for _, in := range b.Instrs {
				if st, ok := in.(*ssa.Store); ok && (st.Val == ssa.Value(ev) || stripConv(st.Val) == ssa.Value(ev)) {
					if o, f, base, ok := fieldOf(st.Addr); ok && o == owner && base == ssa.Value(recv) {
						hField = f
						hStores = append(hStores, st)
					}
				}
			}
		}
		for i, ret := range holdRets {
			dom := false
			for _, st := range hStores {
				if instrDominates(st, ret) {
					dom = true
				}
			}
			r.Ob(dom, fmt.Sprintf("%s|hold-return#%d|stored", name, i), ret.Pos(), "return ActionHold is dominated by a store of the event into a receiver field (the plugin keeps what it holds)")
		}
		if hField == "" {
			continue
		}
		pkgPath := owner.Obj().Pkg().Path()
		// companion flag: the bool receiver field tested to guard calls of the clearing function
		var clearFns []*ssa.Function
		for _, a := range c.fieldAccesses(pkgPath, owner.Obj().Name(), hField) {
			if a.write && isNilConst(a.val) && !c.isStartOrStop(a.fn) {
				// (b) clearing function hands the loaded value to Propagate
				fnc := a.fn
				clearFns = append(clearFns, fnc)
				cname := c.fnName(fnc)
				var loaded ssa.Value
				for _, b := range c.fieldAccesses(pkgPath, owner.Obj().Name(), hField) {
					if !b.write && b.fn == fnc {
						if v, ok := b.in.(ssa.Value); ok && instrDominates(b.in, a.in) {
							loaded = v
						}
					}
				}
				r.Ob(loaded != nil, cname+"|load-before-clear", a.in.Pos(), "the held event is read before the field is cleared")
				if loaded == nil {
					continue
				}
				isProp := func(in ssa.Instruction) bool {
					ci, ok := in.(ssa.CallInstruction)
					if !ok || !invokesMethod(ci, ro.actPropagate) {
						return false
					}
					args := ci.Common().Args
					return len(args) == 1 && args[0] == loaded
				}
				ok, w := c.mustPassBeforeReturn(fnc, a.in, isProp)
				msg := "after clearing the field every returning path hands the held event to Propagate"
				if !ok {
					msg = "a returning path at " + c.pos(w.Pos()) + " drops the held event without Propagate: it is never committed nor delivered"
				}
				r.Ob(ok, cname+"|propagate-on-all-paths", a.in.Pos(), msg)
			}
		}
		r.Ob(len(clearFns) >= 1, name+"|has-flush", do.Pos(), "some function clears the held-event field")
		// flag = bool field loaded in an If that guards a call to a clearing function inside Do
		flag := ""
		for _, ci := range callsIn(do) {
			f := calleeFunc(ci)
			if f == nil || !containsFn(clearFns, f) {
				continue
			}
			for _, l := range c.unitGuards(ci) {
				if o, fl, base, ok := loadedField(l.v); ok && o == owner && base == ssa.Value(recv) && l.pol {
					if bt, ok := l.v.Type().Underlying().(*types.Basic); ok && bt.Kind() == types.Bool {
						flag = fl
					}
				}
			}
		}
		r.Ob(flag != "", name+"|flag", do.Pos(), "the flush calls are guarded by a boolean companion flag of the held-event field")
		if flag == "" {
			continue
		}
		// (c) co-write: each H store has the matching flag store next to it
		for _, a := range c.fieldAccesses(pkgPath, owner.Obj().Name(), hField) {
			if !a.write || c.isStartOrStop(a.fn) {
				continue
			}
			wantFlag := !isNilConst(a.val)
			found := false
			for _, b := range c.fieldAccesses(pkgPath, owner.Obj().Name(), flag) {
				if b.write && b.fn == a.fn {
					if v, ok := constBool(b.val); ok && v == wantFlag {
						if b.in.Block() == a.in.Block() || instrDominates(a.in, b.in) || instrDominates(b.in, a.in) {
							found = true
						}
					}
				}
			}
			r.Ob(found, fmt.Sprintf("%s|co-write|%s=%v", c.fnName(a.fn), hField, wantFlag), a.in.Pos(),
				fmt.Sprintf("%s and %s are written together (%s=%v)", hField, flag, flag, wantFlag))
		}
		// each flag store has the matching H store (so flag ⇔ H != nil)
		for _, b := range c.fieldAccesses(pkgPath, owner.Obj().Name(), flag) {
			if !b.write || c.isStartOrStop(b.fn) {
				continue
			}
			v, okc := constBool(b.val)
			found := false
			for _, a := range c.fieldAccesses(pkgPath, owner.Obj().Name(), hField) {
				if a.write && a.fn == b.fn && okc && isNilConst(a.val) == !v {
					found = true
				}
			}
			r.Ob(found, fmt.Sprintf("%s|co-write-flag|%s=%v", c.fnName(b.fn), flag, v), b.in.Pos(), "every write of the flag is paired with the matching write of the held-event field")
		}
		// overwrite protection: every path from Do's entry to a store of the event into H passes a
		// flush call or the false edge of the flag test
		for i, st := range hStores {
			isFlush := func(in ssa.Instruction) bool {
				ci, ok := in.(ssa.CallInstruction)
				return ok && calleeFunc(ci) != nil && containsFn(clearFns, calleeFunc(ci))
			}
			edgeOK := func(b *ssa.BasicBlock, k int) bool {
				iff, ok := b.Instrs[len(b.Instrs)-1].(*ssa.If)
				if !ok {
					return true
				}
				v, pol := peelNot(iff.Cond, k == 0)
				if o, fl, base, ok := loadedField(v); ok && o == owner && fl == flag && base == ssa.Value(recv) && !pol {
					return false // flag is false here: nothing is held, so nothing can be overwritten
				}
				return true
			}
			bad, _ := c.pathExistsE(do, nil, func(in ssa.Instruction) bool { return in == ssa.Instruction(st) }, isFlush, edgeOK)
			r.Ob(!bad, fmt.Sprintf("%s|no-overwrite#%d", name, i), st.Pos(), "the held-event field is overwritten only after a flush or when the flag says nothing is held (otherwise the earlier held event is lost without commit)")
		}
	}
}

func containsFn(l []*ssa.Function, f *ssa.Function) bool {
	for _, x := range l {
		if x == f {
			return true
		}
	}
	return false
}

// isStartOrStop: fn is the Start/Stop method of a plugin (initialisation, not event path).
func (c *Ctx) isStartOrStop(fn *ssa.Function) bool {
	return fn.Signature.Recv() != nil && (fn.Name() == "Start" || fn.Name() == "Stop")
}

// ruleBusyOnlyWhileJoining: an action that answers a time-out event by ending the process when its
// "joining" flag is false (`if !p.isJoining { Panicf }`) relies on: the processor keeps it busy only
// while that flag is true. The processor marks an action busy when Do returns ActionHold or
// ActionCollapse, so every such return must be reached with the flag true: no way from a point that
// cleared the flag (directly or inside a callee such as flush) to such a return without setting it
// again, and a return reached without any write of the flag must be guarded by the flag.
func ruleBusyOnlyWhileJoining(c *Ctx, r *Rule) {
	ro := c.roles()
	if ro.ActionPlugin == nil {
		r.Unresolved("ActionPlugin")
		return
	}
	busyVals := map[int64]string{}
	for v, n := range c.actionResultConsts() {
		if n == "ActionHold" || n == "ActionCollapse" {
			busyVals[v] = n
		}
	}
	if len(busyVals) != 2 {
		r.Unresolved("pipeline.ActionHold / ActionCollapse")
		return
	}
	for _, t := range c.Implementers(ro.ActionPlugin) {
		do := c.MethodOf(t, "Do")
		if do == nil || do.Blocks == nil {
			continue
		}
		owner := namedOf(deref(do.Params[0].Type()))
		if owner == nil {
			continue
		}
		// the flag: a bool field of the receiver whose falsity guards a no-return call in Do
		flag := ""
		for _, b := range do.Blocks {
			for _, in := range b.Instrs {
				if !isNoReturn(in) {
					continue
				}
				for _, l := range c.unitGuards(in) {
					if o, f, _, ok := loadedField(l.v); ok && o == owner && !l.pol {
						flag = f
					}
				}
			}
		}
		if flag == "" {
			continue
		}
		r.Inst(1)
		name := c.fnName(do)
		pkgPath := owner.Obj().Pkg().Path()
		isFlagStore := func(in ssa.Instruction, want bool) bool {
			st, ok := in.(*ssa.Store)
			if !ok {
				return false
			}
			o, f, _, ok := fieldOf(st.Addr)
			if !ok || !isField(o, f, pkgPath, owner.Obj().Name(), flag) {
				return false
			}
			k, isK := constBool(st.Val)
			return isK && k == want
		}
		// callees (depth 2) that may clear the flag
		var clears func(f *ssa.Function, d int) bool
		seen := map[*ssa.Function]bool{}
		clears = func(f *ssa.Function, d int) bool {
			if f == nil || f.Blocks == nil || d > 2 || seen[f] || !c.inModule(f) {
				return false
			}
			seen[f] = true
			defer delete(seen, f)
			for _, b := range f.Blocks {
				for _, in := range b.Instrs {
					if isFlagStore(in, false) {
						return true
					}
					if ci, ok := in.(ssa.CallInstruction); ok && clears(calleeFunc(ci), d+1) {
						return true
					}
				}
			}
			return false
		}
		isClear := func(in ssa.Instruction) bool {
			if isFlagStore(in, false) {
				return true
			}
			ci, ok := in.(ssa.CallInstruction)
			return ok && clears(calleeFunc(ci), 1)
		}
		isSet := func(in ssa.Instruction) bool { return isFlagStore(in, true) }
		n := 0
		for _, b := range do.Blocks {
			ret, ok := asReturn(b)
			if !ok || len(ret.Results) != 1 {
				continue
			}
			var kinds []string
			for _, leaf := range phiLeaves(ret.Results[0]) {
				if k, isK := constInt(leaf); isK && busyVals[k] != "" {
					kinds = append(kinds, busyVals[k])
				}
			}
			if len(kinds) == 0 {
				continue
			}
			n++
			isRet := func(in ssa.Instruction) bool { return in == ssa.Instruction(ret) }
			// (1) after a clear, the flag is set again before this return
			bad := false
			var at ssa.Instruction
			for _, bb := range do.Blocks {
				for _, in := range bb.Instrs {
					if !isClear(in) {
						continue
					}
					if to, _ := c.pathExists(do, in, isRet, isSet); to {
						bad, at = true, in
					}
				}
			}
			msg := "the action asks to stay busy (" + strings.Join(kinds, "/") + ") only with its " + flag + " flag true"
			if bad {
				msg += ": reachable after the flag was cleared at " + c.pos(at.Pos()) + " without setting it again — the processor then sends the time-out event to an action that is not joining, which ends the process"
			}
			r.Ob(!bad, fmt.Sprintf("%s|busy-return#%d|flag-not-cleared", name, n), ret.Pos(), msg)
			// (2) reached without any write of the flag: guarded by the flag
			untouched, _ := c.pathExists(do, nil, isRet, func(in ssa.Instruction) bool { return isSet(in) || isClear(in) })
			if untouched {
				g := false
				for _, l := range c.unitGuards(ret) {
					if o, f, _, ok := loadedField(l.v); ok && o == owner && f == flag && l.pol {
						g = true
					}
				}
				r.Ob(g, fmt.Sprintf("%s|busy-return#%d|guarded-by-flag", name, n), ret.Pos(), "a busy result reached without touching the "+flag+" flag is returned only when the flag is already true")
			}
		}
		r.Ob(n >= 1, name+"|has-busy-returns", do.Pos(), "the action can hold or collapse")
		// (3) the dual: while the flag is true the action holds an event of its own (taken with Hold,
		// not yet given back), and only a busy result keeps the processor on the stream so that the
		// time-out can flush it. A Pass / Discard result with the flag still true lets the processor
		// leave: the held event is never propagated, committed or returned to the pool.
		fi := c.info(do)
		c.guards(do)
		flagFalseEdge := func(b *ssa.BasicBlock, i int) bool {
			for _, l := range unitLits(c.edgeFacts(fi, b, b.Succs[i])) {
				if o, f, _, ok := loadedField(l.v); ok && o == owner && f == flag && !l.pol {
					return false // this edge is taken only with the flag false
				}
			}
			return true
		}
		m := 0
		for _, b := range do.Blocks {
			ret, ok := asReturn(b)
			if !ok || len(ret.Results) != 1 {
				continue
			}
			nonBusy := false
			for _, leaf := range phiLeaves(ret.Results[0]) {
				if k, isK := constInt(leaf); isK && busyVals[k] == "" {
					nonBusy = true
				}
			}
			if !nonBusy {
				continue
			}
			m++
			isRet := func(in ssa.Instruction) bool { return in == ssa.Instruction(ret) }
			bad := false
			var at ssa.Instruction
			for _, bb := range do.Blocks {
				known := false
				for _, l := range unitLits(c.guards(do)[bb]) {
					if o, f, _, ok := loadedField(l.v); ok && o == owner && f == flag && l.pol {
						known = true
					}
				}
				for _, in := range bb.Instrs {
					if !(isSet(in) || (known && in == bb.Instrs[0])) || isClear(in) {
						continue
					}
					if to, _ := c.pathExistsE(do, in, isRet, isClear, flagFalseEdge); to {
						bad, at = true, in
					}
				}
			}
			msg := "a result that lets the processor leave the stream is returned only with the " + flag + " flag false"
			if bad {
				msg += ": reachable from " + c.pos(at.Pos()) + ", where the flag is true, without flushing — the event the action holds is then never propagated, committed or returned to the pool"
			}
			r.Ob(!bad, fmt.Sprintf("%s|nonbusy-return#%d|flag-false", name, m), ret.Pos(), msg)
		}
	}
}

// ruleContinuationDecidedByCheck: whether an event continues an open run (the action answers
// Collapse) is decided by the configured continue check applied to the event's own value — a regexp
// match or the template's check function, possibly negated. A constant verdict on any path ("the
// start check has just failed, so it must be a continuation") classifies events the checks never saw.
func ruleContinuationDecidedByCheck(c *Ctx, r *Rule) {
	ro := c.roles()
	if ro.ActionPlugin == nil {
		r.Unresolved("ActionPlugin")
		return
	}
	var collapse int64 = -1
	for v, n := range c.actionResultConsts() {
		if n == "ActionCollapse" {
			collapse = v
		}
	}
	if collapse < 0 {
		r.Unresolved("pipeline.ActionCollapse")
		return
	}
	n := 0
	for _, t := range c.Implementers(ro.ActionPlugin) {
		do := c.MethodOf(t, "Do")
		if do == nil || do.Blocks == nil || c.pkgOf(do) != "plugin/action/join" {
			continue
		}
		for _, ret := range returnsOf(do) {
			k, isK := constInt(retResults(ret)[0])
			if !isK || k != collapse {
				continue
			}
			// the deciding helper: a module function of the package whose true result guards this return
			for _, l := range c.unitGuards(ret) {
				call, ok := l.v.(*ssa.Call)
				if !ok || !l.pol {
					continue
				}
				g := call.Call.StaticCallee()
				if g == nil || g.Blocks == nil || c.pkgOf(g) != "plugin/action/join" {
					continue
				}
				n++
				r.Inst(1)
				// the value parameter: the string argument
				var valPar *ssa.Parameter
				for _, p := range g.Params {
					if b, isB := p.Type().Underlying().(*types.Basic); isB && b.Info()&types.IsString != 0 {
						valPar = p
					}
				}
				bad := ""
				seen := map[ssa.Value]bool{}
				var walk func(v ssa.Value, d int)
				walk = func(v ssa.Value, d int) {
					if bad != "" || seen[v] || d > 8 {
						return
					}
					seen[v] = true
					switch x := v.(type) {
					case *ssa.Phi:
						for _, e := range x.Edges {
							walk(e, d+1)
						}
						return
					case *ssa.UnOp:
						if x.Op == token.NOT {
							walk(x.X, d+1)
							return
						}
					case *ssa.Call:
						for _, a := range x.Call.Args {
							if valPar != nil && stripConv(a) == ssa.Value(valPar) {
								return
							}
						}
						bad = "verdict " + c.path(x) + " does not look at the event's value"
						return
					case *ssa.Const:
						bad = "a constant verdict (" + x.String() + ") on some path"
						return
					}
					bad = "verdict from " + c.path(v)
				}
				for _, gr := range returnsOf(g) {
					walk(retResults(gr)[0], 0)
				}
				r.Ob(bad == "", c.fnName(g)+"|continuation-by-check", g.Pos(), "an event joins the open run only by the verdict of the continue check on its own value"+ifs(bad != "", ": "+bad))
			}
		}
	}
	r.Ob(n >= 1, "join|continuation-helper", token.NoPos, fmt.Sprintf("%d continuation decisions examined", n))
}

// ruleJoinLimitIsPrefix: with max_event_size the joined value is the in-order concatenation of the
// run's lines up to the limit — a prefix. That holds when the decision to append a line depends only
// on how much has been accumulated: once the limit is reached every later line is dropped. A test
// that also involves the current line's length skips a long line and still appends later, shorter
// ones: the result is no longer a prefix of the run.
func ruleJoinLimitIsPrefix(c *Ctx, r *Rule) {
	const joinPkg = modulePath + "/plugin/action/join"
	n := 0
	for _, a := range c.fieldAccesses(joinPkg, "Plugin", "buff") {
		if !a.write || a.fn.Name() != "Do" {
			continue
		}
		app, ok := isBuiltinCall(instrOf(stripConv(a.val)), "append")
		if !ok || len(app.Call.Args) != 2 || !isLoadOfField(stripConv(app.Call.Args[0]), joinPkg, "Plugin", "buff") {
			continue // the start of a run (append(buff[:0], ...)) is not limited
		}
		n++
		r.Inst(1)
		bad := ""
		for _, cl := range c.guards(a.fn)[a.in.Block()] {
			for _, l := range cl {
				_, x, y, isCmp := cmpLit(l)
				if !isCmp {
					continue
				}
				var other ssa.Value
				if isLoadOfField(stripConv(x), joinPkg, "Plugin", "maxEventSize") {
					other = y
				} else if isLoadOfField(stripConv(y), joinPkg, "Plugin", "maxEventSize") {
					other = x
				} else {
					continue
				}
				if k, isK := constInt(other); isK && k == 0 {
					continue // "no limit configured"
				}
				f := lin(other)
				okForm := len(f.t) == 1
				for key, cnt := range f.t {
					if !(key.isLen && cnt == 1 && isLoadOfField(stripConv(key.v), joinPkg, "Plugin", "buff")) {
						okForm = false
					}
				}
				if !okForm {
					bad = c.linString(f)
				}
			}
		}
		r.Ob(bad == "", fmt.Sprintf("%s|append#%d|limit-by-accumulated-size", c.fnName(a.fn), n), a.in.Pos(), "a continuation line is appended depending on the accumulated size alone"+ifs(bad != "", "; the limit is compared with "+bad))
	}
	r.Ob(n >= 1, "join|limited-append", token.NoPos, fmt.Sprintf("%d limited appends to the join buffer examined", n))
}
