package main

import (
	"fmt"
	"go/token"
	"go/types"

	"golang.org/x/tools/go/ssa"
)

// Rules added after the sixth round of seeded changes (DESIGN §3d, §6.9).
func init() {
	reg("C17", "C17.R9", "E2", "process/ignore field lists: ParseNestedFields drops a path only for a listed prefix, compared by segments (same rule as C18.R4)", 3, ruleParseNestedFields)
	reg("C18", "C18.R6", "E6", "configured selectors reach the selector parser as written (no trimming / rewriting between the list and ParseFieldSelector)", 1, ruleSelectorsAsWritten)
	reg("C17", "C17.R10", "E6", "process/ignore field selectors reach the selector parser as written (same rule as C18.R6)", 1, ruleSelectorsAsWritten)
	reg("C10", "C10.R10", "E2", "finalize tells the input about an event only when it is neither a split child nor a time-out event (their source/offset are not a consumed record's)", 1, ruleFinalizeKinds)
	reg("C01", "C01.R16", "E2", "finalize commits to the input only real events: never a split child or a time-out event (same rule as C10.R10)", 1, ruleFinalizeKinds)
	reg("C02", "C02.R14", "E2", "finalize commits to the input only real events: never a split child or a time-out event (same rule as C10.R10)", 1, ruleFinalizeKinds)
	reg("C10", "C10.R11", "E2", "the Kafka consumer is always created with AutoCommitMarks: the option is added unconditionally before the client is made", 1, ruleKafkaMarksOption)
	reg("C16", "C16.R9", "E2", "rule selection: every condition of a throttle rule is compared on every event (no iteration of the conditions loop skips the comparison)", 1, ruleThrottleRuleCompare)
	reg("C06", "C06.R8", "E2", "the skip-first-line flag is raised only when reading starts past the beginning of the file (seek result non-zero)", 1, ruleSkipFlagGuard)
	reg("C06", "C06.R9", "E7", "every size-based truncation test is strict (position > size): a reader exactly at the end of the file is not re-read", 2, ruleTruncationStrict)
	reg("C19", "C19.R9", "E2", "an event served from either pool is a regular event: a recycled split parent that kept its kind is skipped by Batch.ForEach and missing from every payload (same rule as C05.R8)", 2, ruleRecycledEventIsRegular)
	reg("C02", "C02.R15", "E2", "a batch given up by the retry loop goes one way: every give-up exit empties the batch and marks it dead-queued (same rule as C09.R1 = C01.R6), so its events are not committed a second time", 1, ruleRetryLoopExits)
	reg("C15", "C15.R13", "E6", "the line an earlier multi-line action reassembled in Event.Buf is never overwritten: actions only append to Event.Buf (same rule as C13.E)", 1, ruleEventBufAppendOnly)
	reg("C03", "C03.R12", "E7", "every size-based truncation test is strict (same rule as C06.R9): offsets are zeroed only for a file that really shrank", 2, ruleTruncationStrict)
}

// ---- selectors as written ----

func fromParamElem(v ssa.Value, depth int) bool {
	if depth > 8 {
		return false
	}
	switch x := v.(type) {
	case *ssa.Parameter:
		return true
	case *ssa.UnOp:
		if x.Op == token.MUL {
			return fromParamElem(x.X, depth+1)
		}
	case *ssa.IndexAddr:
		return fromParamElem(x.X, depth+1)
	case *ssa.Index:
		return fromParamElem(x.X, depth+1)
	case *ssa.Slice:
		return fromParamElem(x.X, depth+1)
	case *ssa.Alloc:
		refs := x.Referrers()
		if refs == nil {
			return false
		}
		n, ok := 0, true
		for _, rf := range *refs {
			if st, isSt := rf.(*ssa.Store); isSt && st.Addr == x {
				n++
				if !fromParamElem(st.Val, depth+1) {
					ok = false
				}
			}
		}
		return n > 0 && ok
	case *ssa.Phi:
		for _, e := range x.Edges {
			if !fromParamElem(e, depth+1) {
				return false
			}
		}
		return true
	}
	return false
}

func ruleSelectorsAsWritten(c *Ctx, r *Rule) {
	fn := c.Func("cfg", "ParseNestedFields")
	if fn == nil {
		r.Unresolved("cfg.ParseNestedFields")
		return
	}
	name := c.fnName(fn)
	n := 0
	for _, f := range append([]*ssa.Function{fn}, allAnon(fn)...) {
		for _, ci := range callsIn(f) {
			cf := calleeFunc(ci)
			if cf == nil || cf.Name() != "ParseFieldSelector" || len(ci.Common().Args) != 1 {
				continue
			}
			n++
			r.Inst(1)
			r.Ob(fromParamElem(ci.Common().Args[0], 0), name+"|selector-as-written", ci.Pos(), "the selector handed to ParseFieldSelector is an element of the configured list itself: a trimmed / rewritten selector addresses another key than the configured one (\" token\" vs \"token\")")
		}
	}
	r.Ob(n >= 1, name+"|parses", fn.Pos(), fmt.Sprintf("ParseNestedFields parses its selectors with ParseFieldSelector (%d sites)", n))
}

// ---- finalize and event kinds ----

func ruleFinalizeKinds(c *Ctx, r *Rule) {
	fn := c.Method("pipeline", "Pipeline", "finalize")
	if fn == nil {
		r.Unresolved("Pipeline.finalize")
		return
	}
	name := c.fnName(fn)
	sites := 0
	for _, f := range append([]*ssa.Function{fn}, allAnon(fn)...) {
		for _, ci := range callsIn(f) {
			com := ci.Common()
			if !com.IsInvoke() || com.Method.Name() != "Commit" {
				continue
			}
			if nt := namedOf(com.Value.Type()); nt == nil || nt.Obj().Name() != "InputPlugin" {
				continue
			}
			sites++
			r.Inst(1)
			for _, kind := range []string{"IsChildKind", "IsTimeoutKind"} {
				ok := false
				for _, l := range c.unitGuardsCtx(ci) {
					if call, isC := l.v.(*ssa.Call); isC && !l.pol {
						if cf := call.Call.StaticCallee(); cf != nil && cf.Name() == kind {
							ok = true
						}
					}
					if l.via != nil {
						if cf := l.via.Call.StaticCallee(); cf != nil && cf.Name() == kind {
							// a fact imported from inside the predicate on its false edge
							ok = true
						}
					}
				}
				r.Ob(ok, name+"|input-commit-not-"+kind, ci.Pos(), "the input's Commit is reached only where "+kind+"() is known false: a split child / time-out event carries no source and offset of its own (SourceID 0, Offset 0), so committing it marks an offset that belongs to no consumed record")
			}
		}
	}
	r.Ob(sites >= 1, name+"|commits-to-input", fn.Pos(), fmt.Sprintf("finalize commits to the input plugin (%d sites)", sites))
}

// ---- Kafka option ----

func ruleKafkaMarksOption(c *Ctx, r *Rule) {
	fn := c.Func("plugin/input/kafka", "NewClient")
	if fn == nil {
		r.Unresolved("kafka.NewClient")
		return
	}
	name := c.fnName(fn)
	var marks, mk []ssa.CallInstruction
	for _, ci := range callsIn(fn) {
		cf := calleeFunc(ci)
		if cf == nil || cf.Pkg == nil || cf.Pkg.Pkg.Name() != "kgo" {
			continue
		}
		switch cf.Name() {
		case "AutoCommitMarks":
			marks = append(marks, ci)
		case "NewClient":
			mk = append(mk, ci)
		}
	}
	r.Inst(1)
	r.Ob(len(mk) >= 1, name+"|creates-client", fn.Pos(), "NewClient creates the kgo client")
	ok := false
	for _, m := range marks {
		if len(c.guards(fn)[m.Block()]) != 0 {
			continue
		}
		dom := len(mk) > 0
		for _, k := range mk {
			if !instrDominates(m, k) {
				dom = false
			}
		}
		if dom {
			ok = true
		}
	}
	pos := fn.Pos()
	if len(marks) > 0 {
		pos = marks[0].Pos()
	}
	r.Ob(ok, name+"|marks-option-unconditional", pos, "kgo.AutoCommitMarks() is evaluated unconditionally before the client is created: without it MarkCommitOffsets is a no-op and the library auto-commits every POLLED offset, finished or not")
}

// ---- throttle rule conditions ----

// loopHeaderOf: innermost loop header around block b (nil if none).
func loopHeaderOf(b *ssa.BasicBlock) *ssa.BasicBlock {
	for h := b; h != nil; h = h.Idom() {
		for _, p := range h.Preds {
			if h.Dominates(p) && reaches(b, p) {
				return h
			}
		}
	}
	return nil
}

// iterationAvoids: is there a path through one iteration of the loop (from its header back to the
// header, never leaving the loop) that executes no instruction satisfying site?
func (c *Ctx) iterationAvoids(fn *ssa.Function, header *ssa.BasicBlock, site func(ssa.Instruction) bool) bool {
	inLoop := func(bb *ssa.BasicBlock) bool { return header.Dominates(bb) && reaches(bb, header) }
	toHeader := func(i ssa.Instruction) bool { return i.Block() == header && instrIndex(i) == 0 }
	stay := func(bb *ssa.BasicBlock, i int) bool { return inLoop(bb.Succs[i]) }
	// sites inside the header itself (before its terminator) count for every iteration
	for _, in := range header.Instrs {
		if site(in) {
			return false
		}
	}
	hit, _ := c.pathExistsE(fn, header.Instrs[len(header.Instrs)-1], toHeader, site, stay)
	return hit
}

func ruleThrottleRuleCompare(c *Ctx, r *Rule) {
	fn := c.Method("plugin/action/throttle", "rule", "isMatch")
	if fn == nil {
		r.Unresolved("throttle rule.isMatch")
		return
	}
	name := c.fnName(fn)
	isValueLoad := func(v ssa.Value) bool {
		u, ok := stripConv(v).(*ssa.UnOp)
		if !ok || u.Op != token.MUL {
			return false
		}
		ia, ok := u.X.(*ssa.IndexAddr)
		if !ok {
			return false
		}
		o, f, _, ok := loadedField(stripConv(ia.X))
		return ok && o != nil && o.Obj().Name() == "rule" && f == "values"
	}
	isCmp := func(in ssa.Instruction) bool {
		switch x := in.(type) {
		case *ssa.BinOp:
			if x.Op != token.EQL && x.Op != token.NEQ {
				return false
			}
			if b, ok := x.X.Type().Underlying().(*types.Basic); !ok || b.Info()&types.IsString == 0 {
				return false
			}
			return isValueLoad(x.X) || isValueLoad(x.Y)
		case *ssa.Call:
			// bytes.Equal / strings.EqualFold style comparisons against the configured value
			if cf := calleeFunc(x); cf != nil && cf.Pkg != nil && (cf.Pkg.Pkg.Path() == "strings" || cf.Pkg.Pkg.Path() == "bytes") {
				for _, a := range x.Call.Args {
					if isValueLoad(a) {
						return true
					}
				}
			}
		}
		return false
	}
	var cmps []ssa.Instruction
	for _, b := range fn.Blocks {
		for _, in := range b.Instrs {
			if isCmp(in) {
				cmps = append(cmps, in)
			}
		}
	}
	r.Inst(1)
	r.Ob(len(cmps) >= 1, name+"|compares-values", fn.Pos(), fmt.Sprintf("isMatch compares event values with the rule's configured values (%d comparisons)", len(cmps)))
	for _, cmp := range cmps {
		h := loopHeaderOf(cmp.Block())
		if h == nil {
			r.Ob(false, name+"|conditions-loop", cmp.Pos(), "the comparison sits in the loop over the rule's conditions")
			continue
		}
		avoid := c.iterationAvoids(fn, h, func(i ssa.Instruction) bool { return i == cmp })
		r.Ob(!avoid, name+"|every-condition-compared", cmp.Pos(), "no iteration of the conditions loop goes on to the next condition without comparing this one: a condition skipped (absent field, empty value) lets events into a rule they do not belong to — its limit and its counter")
	}
}

// ---- file reader: skip flag and truncation ----

func ruleSkipFlagGuard(c *Ctx, r *Rule) {
	n := 0
	for _, a := range c.fieldAccesses(fileInPkg, "Job", "shouldSkip") {
		call, ok := a.in.(*ssa.Call)
		if !ok {
			continue
		}
		cf := call.Call.StaticCallee()
		if cf == nil || cf.Name() != "Store" || len(call.Call.Args) < 2 {
			continue
		}
		if b, isK := constBool(call.Call.Args[1]); !isK || !b {
			continue
		}
		n++
		r.Inst(1)
		ok = false
		for _, l := range c.unitGuardsCtx(call) {
			op, x, y, isCmp := cmpLit(l)
			if !isCmp {
				continue
			}
			if k, isK := constInt(y); isK && k == 0 && (op == token.NEQ || op == token.GTR) {
				if sc, isCall := stripConv(x).(*ssa.Call); isCall {
					if f := sc.Call.StaticCallee(); f != nil && f.Name() == "seek" {
						ok = true
					}
				}
			}
		}
		r.Ob(ok, c.fnName(a.fn)+"|skip-flag-needs-nonzero-position", call.Pos(), "Job.shouldSkip is raised only where the position the job was moved to is known non-zero: at position 0 there is no partial first line, and the flag would swallow the first complete line of a file that was empty at start")
	}
	r.Ob(n >= 1, "Job.shouldSkip|raised", token.NoPos, fmt.Sprintf("the skip-first-line flag is raised somewhere (%d sites)", n))
}

func ruleTruncationStrict(c *Ctx, r *Rule) {
	trunc := c.Method("plugin/input/file", "jobProvider", "truncateJob")
	if trunc == nil {
		r.Unresolved("jobProvider.truncateJob")
		return
	}
	isInt64 := func(v ssa.Value) bool {
		b, ok := v.Type().Underlying().(*types.Basic)
		return ok && b.Kind() == types.Int64
	}
	sized := 0
	for _, ci := range c.sitesOf(trunc) {
		var strict, loose []string
		for _, l := range c.unitGuardsCtx(ci) {
			op, x, y, ok := cmpLit(l)
			if !ok || !isInt64(x) || !isInt64(y) {
				continue
			}
			if _, k := constInt(x); k {
				continue
			}
			if _, k := constInt(y); k {
				continue
			}
			switch op {
			case token.GTR, token.LSS:
				strict = append(strict, c.litString(l))
			case token.GEQ, token.LEQ:
				loose = append(loose, c.litString(l))
			}
		}
		if len(strict) == 0 && len(loose) == 0 {
			continue // not a size-based site (the reset endpoint truncates on request)
		}
		sized++
		r.Inst(1)
		msg := "the truncation is decided by a strict comparison of the read position with the file size"
		if len(loose) > 0 {
			msg += " (found: " + loose[0] + ")"
		}
		r.Ob(len(loose) == 0 && len(strict) >= 1, c.fnName(ci.Parent())+"|truncation-strict", ci.Pos(), msg+": with >= a reader that has consumed the whole file is rewound to 0 with zeroed offsets, and every line is emitted a second time")
	}
	r.Ob(sized >= 2, "truncateJob|size-based-sites", trunc.Pos(), fmt.Sprintf("size-based truncation tests found: %d (write notification and end-of-file)", sized))
}
