package main

import (
	"encoding/json"
	"flag"
	"fmt"
	"os"
	"os/exec"
	"path/filepath"
	"sort"
	"strconv"
	"strings"
	"sync"
	"time"
)

// A mutant is a recorded one-place source edit used to show that a rule is alive on
// today's tree (DESIGN §2.5 iv). It is applied through packages.Config.Overlay only.
type mutant struct {
	ID     string `json:"id"`
	File   string `json:"file"` // repo-relative
	Old    string `json:"old"`
	New    string `json:"new"`
	Expect string `json:"expect"` // substring that must occur in a reported violation key
	Silent bool   `json:"silent"` // behaviour-preserving edit: no violation may be reported
	Quick  bool   `json:"quick"`  // part of the quick tier
	Why    string `json:"why"`
	More   []struct {
		File string `json:"file"` // default: the same file
		Old  string `json:"old"`
		New  string `json:"new"`
	} `json:"more,omitempty"` // further replacements of the same edit (a refactoring touches several places)
}

func loadMutants(prop string) []mutant {
	b, err := os.ReadFile(filepath.Join(verifDir(), "mutants", prop+".json"))
	if err != nil {
		return nil
	}
	var ms []mutant
	if err := json.Unmarshal(b, &ms); err != nil {
		fmt.Printf("mutants/%s.json: %v\n", prop, err)
		return nil
	}
	return ms
}

func overlayFor(repo string, m mutant) (map[string][]byte, error) {
	p := filepath.Join(repo, m.File)
	src, err := os.ReadFile(p)
	if err != nil {
		return nil, err
	}
	if strings.Count(string(src), m.Old) != 1 {
		return nil, fmt.Errorf("pattern occurs %d times", strings.Count(string(src), m.Old))
	}
	out := map[string][]byte{p: []byte(strings.Replace(string(src), m.Old, m.New, 1))}
	for _, e := range m.More {
		q := p
		if e.File != "" {
			q = filepath.Join(repo, e.File)
		}
		cur, ok := out[q]
		if !ok {
			cur, err = os.ReadFile(q)
			if err != nil {
				return nil, err
			}
		}
		if strings.Count(string(cur), e.Old) != 1 {
			return nil, fmt.Errorf("additional pattern occurs %d times", strings.Count(string(cur), e.Old))
		}
		out[q] = []byte(strings.Replace(string(cur), e.Old, e.New, 1))
	}
	return out, nil
}

func main() {
	prop := flag.String("prop", "", "property id (C01..C20)")
	tier := flag.String("tier", "quick", "quick|thorough")
	repo := flag.String("repo", "/repo", "repository root")
	mut := flag.String("mutant", "", "internal: analyse with this mutant id applied as an overlay, print keys, write nothing")
	noSelf := flag.Bool("noselftest", false, "skip the mutant self-test")
	explainF := flag.String("explain", "", "print the violations file and re-run")
	tags := flag.String("tags", "", "build tags")
	list := flag.Bool("list", false, "list properties with rules")
	all := flag.Bool("all", false, "maintenance: run every property's rules in one process (one load), print the reports, write no evidence")
	genBase := flag.Bool("gen-baseline", false, "maintenance: rewrite baseline_funcs.json (the functions the rules were validated against) from -repo")
	flag.Parse()
	if *genBase {
		if err := writeBaseline(*repo, *tags); err != nil {
			fmt.Println(err)
			os.Exit(2)
		}
		fmt.Println("wrote", baselinePath())
		return
	}
	if os.Getenv("FDCHECK_DUMP_KEYS") != "" {
		dumpKeys = []string{}
	}
	if *list {
		var ps []string
		for p := range registry {
			ps = append(ps, p)
		}
		sort.Strings(ps)
		for _, p := range ps {
			fmt.Println(p, len(registry[p]))
		}
		return
	}
	if *all {
		os.Setenv("FDCHECK_NO_EVIDENCE", "1")
		c, err := load(*repo, nil, *tags)
		if err != nil {
			fmt.Printf("LOAD-FAILURE: %v\n", err)
			os.Exit(1)
		}
		c.Tier = "quick"
		var ps []string
		for p := range registry {
			ps = append(ps, p)
		}
		sort.Strings(ps)
		rc := 0
		for _, p := range ps {
			fmt.Printf("=== %s\n", p)
			if finish(c, p, "quick", 0, runProperty(c, p), nil, time.Now()) != 0 {
				rc = 1
			}
		}
		os.Exit(rc)
	}
	if t := os.Getenv("VERIF_TIER"); t == "quick" || t == "thorough" {
		*tier = t
	}
	seed := 0
	if s := os.Getenv("VERIF_SEED"); s != "" {
		seed, _ = strconv.Atoi(s)
	}
	if _, ok := registry[*prop]; !ok {
		fmt.Printf("unknown property %q\n", *prop)
		os.Exit(2)
	}
	if *explainF != "" {
		b, _ := os.ReadFile(*explainF)
		fmt.Printf("recorded violations:\n%s\n--- re-running ---\n", b)
	}
	start := time.Now()

	if *mut != "" {
		// child mode
		for _, m := range loadMutants(*prop) {
			if m.ID != *mut {
				continue
			}
			ov, err := overlayFor(*repo, m)
			if err != nil {
				fmt.Printf("MUTANT-SKIP %s: %v\n", m.ID, err)
				return
			}
			c, err := load(*repo, ov, *tags)
			if err != nil {
				fmt.Printf("MUTANT-SKIP %s: does not load: %v\n", m.ID, firstLine(err.Error()))
				return
			}
			c.Tier = "quick"
			rules := runProperty(c, *prop)
			reviewed, _ := loadReviewed()
			known, _ := loadKnown()
			for _, r := range rules {
				for _, f := range r.Violations {
					if _, ok := reviewed[f.Key]; ok {
						continue
					}
					if _, ok := reviewed["~"+f.NKey]; ok && f.NKey != "" {
						continue
					}
					isKnown := false
					for _, k := range known {
						if k.Status == "known" && k.Property == *prop && (k.Key == f.Key || (k.NKey != "" && k.NKey == f.NKey)) {
							isKnown = true
						}
					}
					if !isKnown {
						fmt.Printf("MUTANT-KEY %s %s :: %s\n", f.Key, f.Pos, f.Msg)
					}
				}
			}
			fmt.Println("MUTANT-DONE")
			return
		}
		fmt.Printf("MUTANT-SKIP %s: unknown id\n", *mut)
		return
	}

	// self-test children run in parallel with the main analysis
	var selftest map[string]any
	var wg sync.WaitGroup
	var mu sync.Mutex
	if !*noSelf {
		ms := loadMutants(*prop)
		var run []mutant
		for _, m := range ms {
			if *tier == "thorough" || m.Quick {
				run = append(run, m)
			}
		}
		if len(run) > 0 {
			selftest = map[string]any{}
			killed, missed, skipped, silentOK, falseAlarm := []string{}, []string{}, []string{}, []string{}, []string{}
			sem := make(chan struct{}, 6)
			exe, _ := os.Executable()
			for _, m := range run {
				wg.Add(1)
				go func(m mutant) {
					defer wg.Done()
					sem <- struct{}{}
					defer func() { <-sem }()
					cmd := exec.Command(exe, "-prop", *prop, "-repo", *repo, "-mutant", m.ID, "-tags", *tags)
					cmd.Env = append(os.Environ(), "FDCHECK_NO_EVIDENCE=1")
					out, _ := cmd.CombinedOutput()
					s := string(out)
					mu.Lock()
					defer mu.Unlock()
					switch {
					case strings.Contains(s, "MUTANT-SKIP") || !strings.Contains(s, "MUTANT-DONE"):
						skipped = append(skipped, m.ID+": "+firstLine(strings.TrimSpace(s)))
					case m.Silent:
						if strings.Contains(s, "MUTANT-KEY") {
							falseAlarm = append(falseAlarm, m.ID+": "+firstLine(s[strings.Index(s, "MUTANT-KEY"):]))
						} else {
							silentOK = append(silentOK, m.ID)
						}
					default:
						hit := false
						for _, l := range strings.Split(s, "\n") {
							if strings.HasPrefix(l, "MUTANT-KEY") && strings.Contains(l, m.Expect) {
								hit = true
							}
						}
						if hit {
							killed = append(killed, m.ID)
						} else {
							missed = append(missed, m.ID)
						}
					}
				}(m)
			}
			defer func() {}()
			selftest["_collect"] = func() {
				sort.Strings(killed)
				sort.Strings(missed)
				sort.Strings(skipped)
				sort.Strings(silentOK)
				sort.Strings(falseAlarm)
				selftest["mutants_tried"] = len(run)
				selftest["killed"] = killed
				selftest["missed"] = missed
				selftest["skipped"] = skipped
				selftest["silent_ok"] = silentOK
				selftest["silent_false_alarm"] = falseAlarm
				selftest["note"] = "overlay mutants of /repo's current source, one fresh process each; they show that each rule is alive on this tree and contribute no verdict about the tree itself"
			}
		}
	}

	// thorough: a second, independent run with the guard facts enumerated in reverse order; the
	// complete set of obligation keys and verdicts must be identical (a rule whose verdict depends
	// on enumeration order is undecided, which fails the check)
	var shuffled []byte
	var shuffleErr error
	if *tier == "thorough" && os.Getenv("FDCHECK_SHUFFLE") == "" {
		if dumpKeys == nil {
			dumpKeys = []string{}
		}
		tmp, err := os.CreateTemp("", "fdcheck-keys-*")
		if err == nil {
			tmp.Close()
			wg.Add(1)
			go func() {
				defer wg.Done()
				defer os.Remove(tmp.Name())
				exe, _ := os.Executable()
				cmd := exec.Command(exe, "-prop", *prop, "-repo", *repo, "-tier", "thorough", "-noselftest", "-tags", *tags)
				cmd.Env = append(os.Environ(), "FDCHECK_NO_EVIDENCE=1", "FDCHECK_SHUFFLE=1", "VERIF_TIER=thorough", "FDCHECK_DUMP_KEYS="+tmp.Name())
				_, _ = cmd.CombinedOutput()
				shuffled, shuffleErr = os.ReadFile(tmp.Name())
			}()
		}
	}

	c, err := load(*repo, nil, *tags)
	if err != nil {
		fmt.Printf("LOAD-FAILURE: %v\n", err)
		fmt.Printf("VIOLATION property=%s replay=%s\n", *prop, "load-failure")
		os.Exit(1)
	}
	c.Tier = *tier
	rules := runProperty(c, *prop)
	wg.Wait()
	if *tier == "thorough" && os.Getenv("FDCHECK_SHUFFLE") == "" {
		mine := append([]string(nil), dumpKeys...)
		sort.Strings(mine)
		r := &Rule{ID: *prop + ".ORDER", Engine: "-", Desc: "verdicts do not depend on the order in which facts are enumerated (second run with reversed guard-fact order)", Floor: 0, ctx: c, keys: map[string]bool{}}
		r.Instances = 1
		r.Obligations = 1
		same := shuffleErr == nil && strings.TrimSpace(string(shuffled)) == strings.TrimSpace(strings.Join(mine, "\n"))
		if same {
			r.Discharged = 1
			r.Samples = append(r.Samples, fmt.Sprintf("%d obligation keys and verdicts identical under reversed fact order", len(mine)))
		} else {
			r.Violations = append(r.Violations, Finding{Rule: r.ID, Key: r.ID + "|ORDER-DEPENDENT", Pos: "-", Msg: "the set of obligations or verdicts differs between two enumeration orders: some rule is order-dependent, its verdict is undecided"})
		}
		rules = append(rules, r)
	}
	if selftest != nil {
		selftest["_collect"].(func())()
		delete(selftest, "_collect")
		for _, k := range []string{"missed", "silent_false_alarm"} {
			for _, id := range selftest[k].([]string) {
				fmt.Printf("SELFTEST-%s property=%s mutant=%s\n", strings.ToUpper(k), *prop, id)
			}
		}
		fmt.Printf("selftest: tried=%d killed=%d missed=%d skipped=%d silent_ok=%d silent_false_alarm=%d\n", selftest["mutants_tried"],
			len(selftest["killed"].([]string)), len(selftest["missed"].([]string)), len(selftest["skipped"].([]string)),
			len(selftest["silent_ok"].([]string)), len(selftest["silent_false_alarm"].([]string)))
	}
	os.Exit(finish(c, *prop, *tier, seed, rules, selftest, start))
}

func firstLine(s string) string {
	if i := strings.IndexByte(s, '\n'); i >= 0 {
		return s[:i]
	}
	return s
}
