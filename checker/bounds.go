package main

// E4: ABCD-style bounds prover. An abstract domain of difference constraints
// (x - y <= c over SSA values, len(v), cap(v) and 0) evaluated along the dominator tree,
// with φ handled per incoming edge. It is a static analysis: nothing is executed and no
// path is handed to a solver; the query is a shortest-path computation over the facts that
// dominate the program point.

import (
	"fmt"
	"go/constant"
	"go/token"
	"go/types"
	"sort"
	"strings"

	"golang.org/x/tools/go/ssa"
)

type bkind int8

const (
	kVal bkind = iota
	kLen
	kCap
)

type bnode struct {
	v ssa.Value // nil = the constant zero
	k bkind
}

var bzero = bnode{}

type bterm struct {
	n  bnode
	c  int64
	ok bool
}

// bedge: to <= from + w
type bedge struct {
	from, to bnode
	w        int64
}

type bne struct{ a, b bterm }

type factSet struct {
	parent *factSet
	edges  []bedge
	nes    []bne
}

func (f *factSet) all() ([]bedge, []bne) {
	var es []bedge
	var ns []bne
	for x := f; x != nil; x = x.parent {
		es = append(es, x.edges...)
		ns = append(ns, x.nes...)
	}
	return es, ns
}

type boundsFn struct {
	c          *Ctx
	fn         *ssa.Function
	localVN    map[ssa.Value]ssa.Value // block-local numbering of repeated loads
	entryFacts *factSet
	canonM     map[string]ssa.Value
	atEntry    map[*ssa.BasicBlock]*factSet // facts holding at block entry
	atEnd      map[*ssa.BasicBlock]*factSet
	// per instruction: facts before it
	before map[ssa.Instruction]*factSet
	// in-progress φ proofs (cycle detection)
	active map[string]int64
}

func isIntT(t types.Type) bool {
	b, ok := t.Underlying().(*types.Basic)
	return ok && b.Info()&types.IsInteger != 0
}

func wideInt(t types.Type) bool {
	b, ok := t.Underlying().(*types.Basic)
	if !ok || b.Info()&types.IsInteger == 0 {
		return false
	}
	switch b.Kind() {
	case types.Int, types.Int64, types.Uint, types.Uint64, types.Uintptr, types.Int32, types.Uint32, types.UntypedInt:
		return true
	}
	return false
}

// ---------- canonical values (value numbering of stable loads) ----------

// stableFields: struct fields never stored to (and whose address never escapes into a call)
// outside initialisation code (constructors, Start, init, Register*, fresh allocations).
func (c *Ctx) stableField(owner *types.Named, field string) bool {
	if owner == nil {
		return false
	}
	if c.unstable == nil {
		c.unstable = map[string]bool{}
		isInit := func(fn *ssa.Function) bool {
			for f := fn; f != nil; f = f.Parent() {
				n := f.Name()
				if n == "Start" || n == "init" || strings.HasPrefix(n, "New") || strings.HasPrefix(n, "new") || strings.HasPrefix(n, "Register") || strings.HasPrefix(n, "register") ||
					n == "SetDefaultValues" || n == "Parse" || strings.HasPrefix(n, "parse") || strings.HasPrefix(n, "extract") || strings.HasPrefix(n, "compile") || strings.HasPrefix(n, "prepare") {
					return true
				}
			}
			return false
		}
		for _, fn := range c.ModFuncs {
			init := isInit(fn) || c.startOnly(fn, 3)
			for _, b := range fn.Blocks {
				for _, in := range b.Instrs {
					fa, ok := in.(*ssa.FieldAddr)
					if !ok {
						continue
					}
					o, f, base, ok := fieldOf(fa)
					if !ok || o == nil {
						continue
					}
					if init || isFreshAlloc(refOf(base).root) {
						continue
					}
					refs := fa.Referrers()
					if refs == nil {
						continue
					}
					for _, r := range *refs {
						switch x := r.(type) {
						case *ssa.Store:
							if x.Addr == ssa.Value(fa) {
								c.unstable[o.Obj().Pkg().Path()+"."+o.Obj().Name()+"."+f] = true
							}
						case ssa.CallInstruction:
							// &x.f passed to a call: may be written (method with pointer receiver, etc.)
							if cf := calleeFunc(x); cf != nil && isReadOnlyCallee(cf) {
								continue
							}
							c.unstable[o.Obj().Pkg().Path()+"."+o.Obj().Name()+"."+f] = true
						case *ssa.MakeClosure, *ssa.MakeInterface, *ssa.Phi:
							c.unstable[o.Obj().Pkg().Path()+"."+o.Obj().Name()+"."+f] = true
						}
					}
				}
			}
		}
	}
	if owner.Obj().Pkg() == nil {
		return false
	}
	return !c.unstable[owner.Obj().Pkg().Path()+"."+owner.Obj().Name()+"."+field]
}

func isReadOnlyCallee(f *ssa.Function) bool {
	q := qualName(f)
	switch {
	case strings.HasSuffix(q, ".Load"), strings.HasSuffix(q, ".RLock"), strings.HasSuffix(q, ".RUnlock"), strings.HasSuffix(q, ".Lock"), strings.HasSuffix(q, ".Unlock"),
		strings.HasSuffix(q, ".MatchString"), strings.HasSuffix(q, ".Match"):
		return true
	}
	return false
}

// pathKey renders a load's address as "root-pointer|.a.b" if every field on the way is stable.
func (bf *boundsFn) pathKey(addr ssa.Value) (string, bool) {
	path := ""
	v := addr
	for depth := 0; depth < 8; depth++ {
		switch x := v.(type) {
		case *ssa.FieldAddr:
			o, f, b, ok := fieldOf(x)
			if !ok || !bf.c.stableField(o, f) {
				return "", false
			}
			path = "." + f + path
			v = b
		case *ssa.UnOp:
			if x.Op != token.MUL {
				return "", false
			}
			v = x.X
		case *ssa.Parameter:
			return fmt.Sprintf("%p%s", x, path), path != ""
		case *ssa.FreeVar:
			return fmt.Sprintf("%p%s", x, path), path != ""
		case *ssa.Alloc:
			if sv := singleStore(x); sv != nil {
				v = sv
				continue
			}
			return "", false
		default:
			return "", false
		}
	}
	return "", false
}

// canon returns the representative of v under value numbering.
func (bf *boundsFn) canon(v ssa.Value) ssa.Value {
	for i := 0; i < 6; i++ {
		if r, ok := bf.localVN[v]; ok && r != v {
			v = r
			continue
		}
		switch x := v.(type) {
		case *ssa.UnOp:
			if x.Op != token.MUL {
				return v
			}
			if al, ok := x.X.(*ssa.Alloc); ok {
				if sv := singleStore(al); sv != nil {
					v = sv
					continue
				}
				return v
			}
			if fv, ok := x.X.(*ssa.FreeVar); ok {
				// captured cell never written inside this closure and written once outside
				if !freeVarStored(fv) {
					k := fmt.Sprintf("fv%p", fv)
					if r, ok := bf.canonM[k]; ok {
						return r
					}
					bf.canonM[k] = v
				}
				return v
			}
			if k, ok := bf.pathKey(x.X); ok {
				if r, ok := bf.canonM[k]; ok {
					return r
				}
				bf.canonM[k] = v
			}
			return v
		case *ssa.ChangeType:
			v = x.X
			continue
		case *ssa.Field:
			// value of a struct field of a canonical struct value
			return v
		default:
			return v
		}
	}
	return v
}

func freeVarStored(fv *ssa.FreeVar) bool {
	refs := fv.Referrers()
	if refs == nil {
		return false
	}
	for _, r := range *refs {
		if st, ok := r.(*ssa.Store); ok && st.Addr == ssa.Value(fv) {
			return true
		}
	}
	// the enclosing function may also write the cell after creating the closure; accept only
	// cells with a single store overall
	fn := fv.Parent()
	if fn == nil || fn.Parent() == nil {
		return true
	}
	idx := -1
	for i, x := range fn.FreeVars {
		if x == fv {
			idx = i
		}
	}
	for _, b := range fn.Parent().Blocks {
		for _, in := range b.Instrs {
			if mc, ok := in.(*ssa.MakeClosure); ok && mc.Fn == ssa.Value(fn) && idx >= 0 && idx < len(mc.Bindings) {
				if al, ok := mc.Bindings[idx].(*ssa.Alloc); ok {
					return singleStore(al) == nil
				}
				return true
			}
		}
	}
	return true
}

// numberLoads: global numbering of repeated loads of the same memory cell (a local variable
// cell or a field address): an "available loads" forward must-analysis. A load reuses an
// earlier load of the same cell when no store to that cell and no call that could write it
// lies on any path in between.
func (bf *boundsFn) numberLoads() {
	bf.localVN = map[ssa.Value]ssa.Value{}
	fn := bf.fn
	// cells that calls may modify: captured by a closure or otherwise escaping
	escapes := map[*ssa.Alloc]bool{}
	for _, b := range fn.Blocks {
		for _, in := range b.Instrs {
			for _, op := range in.Operands(nil) {
				al, ok := (*op).(*ssa.Alloc)
				if !ok {
					continue
				}
				switch x := in.(type) {
				case *ssa.UnOp:
				case *ssa.Store:
					if x.Val == ssa.Value(al) {
						escapes[al] = true
					}
				case *ssa.FieldAddr, *ssa.IndexAddr:
					// address of a part of the cell: treat as escaping unless only loaded/stored directly (conservative)
					escapes[al] = true
				default:
					escapes[al] = true
				}
			}
		}
	}
	type avail map[string]ssa.Value
	cellOf := map[string]*ssa.Alloc{}
	keyOf := func(addr ssa.Value) (string, *ssa.Alloc, bool) {
		switch x := addr.(type) {
		case *ssa.Alloc:
			k := fmt.Sprintf("cell%p", x)
			cellOf[k] = x
			return k, x, true
		case *ssa.FreeVar:
			return fmt.Sprintf("fv%p", x), nil, true
		case *ssa.FieldAddr:
			if k, ok := bf.addrKey(x, 0); ok {
				return "f" + k, nil, true
			}
		case *ssa.IndexAddr:
			// an element of a slice held in a field (a slice of slices): same slice value, same index value
			if _, isSlice := x.X.Type().Underlying().(*types.Slice); isSlice {
				if k, ok := bf.addrKey(x, 0); ok {
					return "f" + k, nil, true
				}
			}
		}
		return "", nil, false
	}
	transfer := func(b *ssa.BasicBlock, in avail, record bool) avail {
		cur := avail{}
		for k, v := range in {
			cur[k] = v
		}
		for _, ins := range b.Instrs {
			switch x := ins.(type) {
			case *ssa.Store:
				if k, _, ok := keyOf(x.Addr); ok && !strings.HasPrefix(k, "f") {
					cur[k] = x.Val // store-to-load forwarding
				} else {
					// store through a field/pointer: kill every field key and every escaping cell
					for k2 := range cur {
						if strings.HasPrefix(k2, "f") || strings.HasPrefix(k2, "fv") {
							delete(cur, k2)
						}
					}
					for k2 := range cur {
						if al := cellOf[k2]; al != nil && escapes[al] {
							delete(cur, k2)
						}
					}
					// ... and remember what this very address now holds
					if k, _, ok := keyOf(x.Addr); ok {
						cur[k] = x.Val
					}
				}
			case *ssa.MapUpdate:
			case ssa.CallInstruction:
				if _, isB := x.Common().Value.(*ssa.Builtin); isB {
					continue
				}
				if f := x.Common().StaticCallee(); f != nil && pureCallee(f) {
					continue
				}
				for k2 := range cur {
					if al := cellOf[k2]; al != nil && !escapes[al] {
						continue
					}
					delete(cur, k2)
				}
			case *ssa.UnOp:
				if x.Op != token.MUL {
					continue
				}
				if k, _, ok := keyOf(x.X); ok {
					if r, ok := cur[k]; ok {
						if record && r != ssa.Value(x) {
							bf.localVN[x] = r
						}
					} else {
						cur[k] = x
					}
				}
			}
		}
		return cur
	}
	out := map[*ssa.BasicBlock]avail{}
	inOf := func(b *ssa.BasicBlock) avail {
		if b == fn.Blocks[0] {
			return avail{}
		}
		var res avail
		for _, p := range b.Preds {
			po, ok := out[p]
			if !ok {
				continue // optimistic for unvisited (back) edges; iterated to a fixpoint below
			}
			if res == nil {
				res = avail{}
				for k, v := range po {
					res[k] = v
				}
				continue
			}
			for k, v := range res {
				if pv, ok := po[k]; !ok || pv != v {
					delete(res, k)
				}
			}
		}
		if res == nil {
			res = avail{}
		}
		return res
	}
	for iter := 0; iter < 20; iter++ {
		changed := false
		for _, b := range fn.Blocks {
			o := transfer(b, inOf(b), false)
			old, ok := out[b]
			if !ok || len(old) != len(o) {
				changed = true
			} else {
				for k, v := range o {
					if old[k] != v {
						changed = true
					}
				}
			}
			out[b] = o
		}
		if !changed {
			break
		}
	}
	for _, b := range fn.Blocks {
		transfer(b, inOf(b), true)
	}
}

func pureCallee(f *ssa.Function) bool {
	q := qualName(f)
	if strings.HasPrefix(q, "bytes.") || strings.HasPrefix(q, "strings.") || strings.HasPrefix(q, "unicode") || strings.HasPrefix(q, "strconv.") || strings.HasPrefix(q, "math") {
		return true
	}
	return false
}

// addrKey: structural key of a field address (base value identity + field path).
func (bf *boundsFn) addrKey(addr ssa.Value, d int) (string, bool) {
	if d > 6 {
		return "", false
	}
	switch x := addr.(type) {
	case *ssa.FieldAddr:
		base := x.X
		if u, ok := base.(*ssa.UnOp); ok && u.Op == token.MUL {
			if r, ok := bf.localVN[u]; ok {
				base = r
			}
		}
		if k, ok := bf.addrKey(base, d+1); ok {
			return fmt.Sprintf("%s.%d", k, x.Field), true
		}
		return fmt.Sprintf("%p.%d", base, x.Field), true
	case *ssa.UnOp:
		if x.Op == token.MUL {
			if r, ok := bf.localVN[x]; ok {
				return fmt.Sprintf("%p", r), true
			}
			if k, ok := bf.addrKey(x.X, d+1); ok {
				return "*" + k, true
			}
		}
		return fmt.Sprintf("%p", x), true
	case *ssa.IndexAddr:
		base := x.X
		if u, ok := base.(*ssa.UnOp); ok && u.Op == token.MUL {
			if r, ok := bf.localVN[u]; ok {
				base = r
			}
		}
		idx := x.Index
		if u, ok := idx.(*ssa.UnOp); ok && u.Op == token.MUL {
			if r, ok := bf.localVN[u]; ok {
				idx = r
			}
		}
		is := fmt.Sprintf("%p", idx)
		if k, isK := constInt(idx); isK {
			is = fmt.Sprint(k)
		}
		return fmt.Sprintf("%p[%s]", base, is), true
	case *ssa.Alloc, *ssa.Parameter, *ssa.FreeVar, *ssa.Global:
		return fmt.Sprintf("%p", x), true
	}
	return "", false
}

// ---------- terms ----------

func (bf *boundsFn) norm(v ssa.Value) bterm {
	if v == nil {
		return bterm{}
	}
	if k, ok := constInt(v); ok {
		return bterm{bzero, k, true}
	}
	v = bf.canon(v)
	switch x := v.(type) {
	case *ssa.BinOp:
		switch x.Op {
		case token.ADD:
			if k, ok := constInt(x.Y); ok {
				t := bf.norm(x.X)
				t.c += k
				return t
			}
			if k, ok := constInt(x.X); ok {
				t := bf.norm(x.Y)
				t.c += k
				return t
			}
		case token.SUB:
			if k, ok := constInt(x.Y); ok {
				t := bf.norm(x.X)
				t.c -= k
				return t
			}
		}
	case *ssa.Call:
		if b, ok := x.Call.Value.(*ssa.Builtin); ok && len(x.Call.Args) == 1 {
			switch b.Name() {
			case "len":
				return bf.lenOf(x.Call.Args[0])
			case "cap":
				return bterm{bnode{bf.canon(x.Call.Args[0]), kCap}, 0, true}
			}
		}
	case *ssa.Convert:
		if wideInt(x.X.Type()) && wideInt(x.Type()) {
			// int <-> int64 etc.: value preserving for the non-negative index ranges we reason about
			if sameSign(x.X.Type(), x.Type()) {
				return bf.norm(x.X)
			}
		}
	}
	if !isIntT(v.Type()) {
		return bterm{}
	}
	return bterm{bnode{v, kVal}, 0, true}
}

func sameSign(a, b types.Type) bool {
	ba, _ := a.Underlying().(*types.Basic)
	bb, _ := b.Underlying().(*types.Basic)
	if ba == nil || bb == nil {
		return false
	}
	return (ba.Info()&types.IsUnsigned != 0) == (bb.Info()&types.IsUnsigned != 0)
}

func (bf *boundsFn) lenOf(v ssa.Value) bterm {
	v = bf.canon(v)
	// len of a constant string
	if k, ok := v.(*ssa.Const); ok && k.Value != nil && k.Value.Kind() == constant.String {
		return bterm{bzero, int64(len(constant.StringVal(k.Value))), true}
	}
	// string(x) / []byte(s): same length
	if cv, ok := v.(*ssa.Convert); ok {
		if isBytesOrString(cv.X.Type()) && isBytesOrString(cv.Type()) {
			return bf.lenOf(cv.X)
		}
	}
	if call, ok := v.(*ssa.Call); ok {
		if f := call.Call.StaticCallee(); f != nil {
			switch f.Name() {
			case "ByteToStringUnsafe", "StringToByteUnsafe":
				if len(call.Call.Args) == 1 {
					return bf.lenOf(call.Call.Args[0])
				}
			}
		}
	}
	// array pointer / array: constant length
	if p, ok := v.Type().Underlying().(*types.Pointer); ok {
		if arr, ok := p.Elem().Underlying().(*types.Array); ok {
			return bterm{bzero, arr.Len(), true}
		}
	}
	if arr, ok := v.Type().Underlying().(*types.Array); ok {
		return bterm{bzero, arr.Len(), true}
	}
	return bterm{bnode{v, kLen}, 0, true}
}

func (bf *boundsFn) capOf(v ssa.Value) bterm {
	v = bf.canon(v)
	if p, ok := v.Type().Underlying().(*types.Pointer); ok {
		if arr, ok := p.Elem().Underlying().(*types.Array); ok {
			return bterm{bzero, arr.Len(), true}
		}
	}
	if _, ok := v.Type().Underlying().(*types.Basic); ok { // string
		return bf.lenOf(v)
	}
	return bterm{bnode{v, kCap}, 0, true}
}

func isBytesOrString(t types.Type) bool {
	switch x := t.Underlying().(type) {
	case *types.Basic:
		return x.Info()&types.IsString != 0
	case *types.Slice:
		b, ok := x.Elem().Underlying().(*types.Basic)
		return ok && (b.Kind() == types.Uint8 || b.Kind() == types.Int32)
	}
	return false
}

// le adds  a <= b + k
func le(fs *factSet, a, b bterm, k int64) {
	if !a.ok || !b.ok {
		return
	}
	fs.edges = append(fs.edges, bedge{b.n, a.n, b.c - a.c + k})
}

func eq(fs *factSet, a, b bterm) {
	le(fs, a, b, 0)
	le(fs, b, a, 0)
}

var zt = bterm{bzero, 0, true}

func kt(k int64) bterm { return bterm{bzero, k, true} }

// ---------- facts from definitions ----------

func (bf *boundsFn) defFacts(in ssa.Instruction, fs *factSet) {
	switch x := in.(type) {
	case *ssa.Slice:
		base := x.X
		lo := zt
		if x.Low != nil {
			lo = bf.norm(x.Low)
		}
		var hi bterm
		if x.High != nil {
			hi = bf.norm(x.High)
		} else {
			hi = bf.lenOf(base)
		}
		rl := bf.lenOf(x)
		// len(r) = hi - lo
		if lo.ok && lo.n == bzero {
			le(fs, rl, hi, -lo.c)
			le(fs, hi, rl, lo.c)
		} else if hi.ok && lo.ok && hi.n == lo.n {
			eq(fs, rl, kt(hi.c-lo.c))
		} else {
			le(fs, rl, hi, 0) // lo >= 0
			// len(r) = hi - lo with a variable lo: derive constant gaps that the current facts entail
			snap := &factSet{parent: fs.parent, edges: append([]bedge(nil), fs.edges...), nes: append([]bne(nil), fs.nes...)}
			for _, k := range []int64{3, 2, 1} {
				if bf.prove(snap, lo, hi, -k, 0) { // lo + k <= hi
					le(fs, kt(k), rl, 0)
					break
				}
			}
			for _, k := range []int64{2, 1} {
				if bf.prove(snap, kt(k), lo, 0, 0) { // lo >= k
					le(fs, rl, hi, -k)
					break
				}
			}
		}
		// cap(r)
		if _, isStr := base.Type().Underlying().(*types.Basic); !isStr {
			rc := bf.capOf(x)
			bc := bf.capOf(base)
			if x.Max != nil {
				mx := bf.norm(x.Max)
				if lo.ok && lo.n == bzero {
					le(fs, rc, mx, -lo.c)
					le(fs, mx, rc, lo.c)
				}
			} else if lo.ok && lo.n == bzero {
				le(fs, rc, bc, -lo.c)
				le(fs, bc, rc, lo.c)
			} else {
				le(fs, rc, bc, 0)
			}
			le(fs, rl, rc, 0)
		}
		// the slice succeeded: 0 <= lo <= hi <= cap (len for strings)
		le(fs, zt, lo, 0)
		le(fs, lo, hi, 0)
		if x.High != nil {
			le(fs, hi, bf.capOf(base), 0)
		}
	case *ssa.Call:
		bf.callFacts(x, fs)
	case *ssa.MakeSlice:
		eq(fs, bf.lenOf(x), bf.norm(x.Len))
		eq(fs, bf.capOf(x), bf.norm(x.Cap))
		le(fs, zt, bf.norm(x.Len), 0)
	case *ssa.IndexAddr:
		idx := bf.norm(x.Index)
		le(fs, zt, idx, 0)
		le(fs, idx, bf.lenOf(x.X), -1)
	case *ssa.Index:
		idx := bf.norm(x.Index)
		le(fs, zt, idx, 0)
		le(fs, idx, bf.lenOf(x.X), -1)
	case *ssa.Lookup:
		if b, ok := x.X.Type().Underlying().(*types.Basic); ok && b.Info()&types.IsString != 0 {
			idx := bf.norm(x.Index)
			le(fs, zt, idx, 0)
			le(fs, idx, bf.lenOf(x.X), -1)
		}
	case *ssa.Extract:
		// (value, ok) helper summaries and library facts on tuple results
		if call, ok := x.Tuple.(*ssa.Call); ok {
			bf.tupleFacts(call, x, fs)
		}
	case *ssa.BinOp:
		// x % m in [0, m-1] for non-negative operands; x / k <= x
		if isIntT(x.Type()) {
			r := bterm{bnode{x, kVal}, 0, true}
			if x.Op == token.SUB || x.Op == token.ADD {
				_, cx := constInt(x.X)
				_, cy := constInt(x.Y)
				if !cx && !cy {
					a, b := bf.norm(x.X), bf.norm(x.Y)
					snap := &factSet{parent: fs.parent, edges: append([]bedge(nil), fs.edges...), nes: append([]bne(nil), fs.nes...)}
					if x.Op == token.SUB {
						// r = a - b
						for _, k := range []int64{2, 1, 0} {
							if bf.prove(snap, b, a, -k, 0) { // b + k <= a  =>  r >= k
								le(fs, kt(k), r, 0)
								break
							}
						}
						for _, k := range []int64{1, 0} {
							if bf.prove(snap, kt(k), b, 0, 0) { // b >= k => r <= a - k
								le(fs, r, a, -k)
								break
							}
						}
					} else {
						if bf.prove(snap, zt, b, 0, 0) {
							le(fs, a, r, 0)
						}
						if bf.prove(snap, zt, a, 0, 0) {
							le(fs, b, r, 0)
						}
					}
				}
			}
			switch x.Op {
			case token.REM:
				if isUnsigned(x.X.Type()) || bf.nonNegHint(x.X) {
					le(fs, zt, r, 0)
					le(fs, r, bf.norm(x.Y), -1)
				}
			case token.QUO:
				if k, ok := constInt(x.Y); ok && k >= 1 && bf.nonNegHint(x.X) {
					le(fs, zt, r, 0)
					le(fs, r, bf.norm(x.X), 0)
				}
			case token.AND:
				if k, ok := constInt(x.Y); ok && k >= 0 {
					le(fs, zt, r, 0)
					le(fs, r, kt(k), 0)
				}
			case token.SHR:
				if bf.nonNegHint(x.X) {
					le(fs, zt, r, 0)
					le(fs, r, bf.norm(x.X), 0)
				}
			}
		}
	case *ssa.Convert:
		// uint8/byte etc. to int: 0..255
		if isIntT(x.Type()) && isIntT(x.X.Type()) {
			if b, ok := x.X.Type().Underlying().(*types.Basic); ok {
				r := bterm{bnode{x, kVal}, 0, true}
				switch b.Kind() {
				case types.Uint8:
					le(fs, zt, r, 0)
					le(fs, r, kt(255), 0)
				case types.Uint16:
					le(fs, zt, r, 0)
					le(fs, r, kt(65535), 0)
				}
			}
		}
	}
	// loads of integer fields that are never assigned a negative value anywhere in the module
	if u, ok := in.(*ssa.UnOp); ok && u.Op == token.MUL && isIntT(u.Type()) {
		if o, f, _, ok := fieldOf(u.X); ok && o != nil && bf.c.fieldNonNeg(o, f) {
			le(fs, zt, bterm{bnode{bf.canon(u), kVal}, 0, true}, 0)
		}
	}
	if fl, ok := in.(*ssa.Field); ok && isIntT(fl.Type()) {
		if o, f, _, ok := fieldOf(fl); ok && o != nil && bf.c.fieldNonNeg(o, f) {
			le(fs, zt, bterm{bnode{fl, kVal}, 0, true}, 0)
		}
	}
	// unsigned values are >= 0
	if v, ok := in.(ssa.Value); ok && isIntT(v.Type()) && isUnsigned(v.Type()) {
		le(fs, zt, bterm{bnode{bf.canon(v), kVal}, 0, true}, 0)
	}
}

func isUnsigned(t types.Type) bool {
	b, ok := t.Underlying().(*types.Basic)
	return ok && b.Info()&types.IsUnsigned != 0
}

// nonNegHint: syntactically non-negative (len/cap, unsigned, constants >= 0, sums of such).
func (bf *boundsFn) nonNegHint(v ssa.Value) bool {
	if k, ok := constInt(v); ok {
		return k >= 0
	}
	if isUnsigned(v.Type()) {
		return true
	}
	switch x := v.(type) {
	case *ssa.Call:
		if b, ok := x.Call.Value.(*ssa.Builtin); ok && (b.Name() == "len" || b.Name() == "cap") {
			return true
		}
	case *ssa.BinOp:
		if x.Op == token.ADD || x.Op == token.MUL || x.Op == token.QUO || x.Op == token.REM {
			return bf.nonNegHint(x.X) && bf.nonNegHint(x.Y)
		}
	case *ssa.Convert:
		return bf.nonNegHint(x.X) && wideInt(x.Type())
	}
	return false
}

var idxFns = map[string]int{ // result in [-1, len(arg0)-k]
	"bytes.IndexByte": 1, "strings.IndexByte": 1, "bytes.IndexAny": 1, "strings.IndexAny": 1, "bytes.LastIndexByte": 1, "strings.LastIndexByte": 1,
	"bytes.IndexRune": 1, "strings.IndexRune": 1, "bytes.IndexFunc": 1, "strings.IndexFunc": 1, "bytes.LastIndexAny": 1, "strings.LastIndexAny": 1, "bytes.LastIndexFunc": 1, "strings.LastIndexFunc": 1,
	"bytes.Index": 0, "strings.Index": 0, "bytes.LastIndex": 0, "strings.LastIndex": 0,
	"slices.Index": 1, "slices.IndexFunc": 1,
}

var shrinkFns = map[string]bool{ // len(result) <= len(arg0)
	"bytes.TrimSuffix": true, "bytes.TrimPrefix": true, "bytes.TrimSpace": true, "bytes.Trim": true, "bytes.TrimRight": true, "bytes.TrimLeft": true, "bytes.TrimFunc": true, "bytes.TrimLeftFunc": true, "bytes.TrimRightFunc": true,
	"strings.TrimSuffix": true, "strings.TrimPrefix": true, "strings.TrimSpace": true, "strings.Trim": true, "strings.TrimRight": true, "strings.TrimLeft": true, "strings.TrimFunc": true, "strings.TrimLeftFunc": true, "strings.TrimRightFunc": true,
}

// growArg: the callee appends to argument i and returns the grown slice (len(result) >= len(arg i)).
func growArg(f *ssa.Function, q string) (int, bool) {
	if strings.HasPrefix(q, "strconv.Append") || strings.HasPrefix(q, "fmt.Append") || q == "encoding/hex.AppendEncode" || q == "(time.Time).AppendFormat" {
		if q == "(time.Time).AppendFormat" {
			return 1, true
		}
		return 0, true
	}
	if f.Signature.Recv() != nil {
		rn := namedOf(f.Signature.Recv().Type())
		if rn != nil && rn.Obj().Pkg() != nil && rn.Obj().Pkg().Path() == "github.com/ozontech/insane-json" {
			switch f.Name() {
			case "Encode", "AppendEscapedString", "EncodeNoAlloc":
				return 1, true
			}
		}
	}
	return 0, false
}

var sameLenFns = map[string]bool{"strings.Clone": true, "bytes.Clone": true, "slices.Clone": true, "strings.ToLower": false, "bytes.ToLower": false}

func (bf *boundsFn) callFacts(x *ssa.Call, fs *factSet) {
	args := x.Call.Args
	res := bterm{bnode{x, kVal}, 0, true}
	if b, ok := x.Call.Value.(*ssa.Builtin); ok {
		switch b.Name() {
		case "append":
			le(fs, bf.lenOf(args[0]), bf.lenOf(x), 0)
			le(fs, bf.lenOf(x), bf.capOf(x), 0)
			if len(args) == 2 {
				// len(r) = len(a) + len(b): only as len(r) >= len(b)
				le(fs, bf.lenOf(args[1]), bf.lenOf(x), 0)
			}
		case "copy":
			le(fs, zt, res, 0)
			le(fs, res, bf.lenOf(args[0]), 0)
			le(fs, res, bf.lenOf(args[1]), 0)
		case "min":
			for _, a := range args {
				le(fs, res, bf.norm(a), 0)
			}
		case "max":
			for _, a := range args {
				le(fs, bf.norm(a), res, 0)
			}
		case "len", "cap":
			le(fs, zt, bf.norm(x), 0)
		}
		return
	}
	f := x.Call.StaticCallee()
	if f == nil {
		return
	}
	q := qualName(f)
	if o := f.Origin(); o != nil {
		q = qualName(o)
	}
	if k, ok := idxFns[q]; ok && len(args) >= 1 {
		le(fs, kt(-1), res, 0)
		le(fs, res, bf.lenOf(args[0]), int64(-k))
		if k == 0 && len(args) == 2 {
			// Index(s, sep): r + len(sep) <= len(s) when found; always r <= len(s) - 0
			if sl := bf.lenOf(args[1]); sl.ok && sl.n == bzero {
				// constant separator: r <= len(s) - len(sep) (if r = -1 also true when len(s) >= len(sep)-1 ... keep the weak form unless len(sep) >= 1)
				if sl.c >= 1 {
					le(fs, res, bf.lenOf(args[0]), -1)
				}
			}
		}
		return
	}
	if shrinkFns[q] {
		le(fs, bf.lenOf(x), bf.lenOf(args[0]), 0)
		return
	}
	if gi, ok := growArg(f, q); ok && gi < len(args) && isBytesOrString(x.Type()) {
		le(fs, bf.lenOf(args[gi]), bf.lenOf(x), 0)
		return
	}
	if _, ok := sameLenFns[q]; ok {
		if sameLenFns[q] {
			eq(fs, bf.lenOf(x), bf.lenOf(args[0]))
		}
		return
	}
	switch q {
	case "unicode/utf8.DecodeRune", "unicode/utf8.DecodeRuneInString", "unicode/utf8.DecodeLastRune", "unicode/utf8.DecodeLastRuneInString":
		// handled on the Extract
	case "unicode/utf8.RuneLen":
		le(fs, kt(-1), res, 0)
		le(fs, res, kt(4), 0)
	case "math/bits.Len", "math/bits.Len64", "math/bits.Len32":
		le(fs, zt, res, 0)
		le(fs, res, kt(64), 0)
		if q == "math/bits.Len32" {
			le(fs, res, kt(32), 0)
		}
	}
	// module helper summaries (unconditional part)
	bf.summaryFacts(x, -1, fs)
}

func (bf *boundsFn) tupleFacts(call *ssa.Call, ex *ssa.Extract, fs *factSet) {
	f := call.Call.StaticCallee()
	if f == nil {
		return
	}
	q := qualName(f)
	r := bterm{bnode{ex, kVal}, 0, true}
	switch q {
	case "unicode/utf8.DecodeRune", "unicode/utf8.DecodeRuneInString", "unicode/utf8.DecodeLastRune", "unicode/utf8.DecodeLastRuneInString":
		if ex.Index == 1 {
			le(fs, zt, r, 0)
			le(fs, r, kt(4), 0)
			le(fs, r, bf.lenOf(call.Call.Args[0]), 0)
		}
		return
	case "bytes.Cut", "strings.Cut", "bytes.CutPrefix", "strings.CutPrefix", "bytes.CutSuffix", "strings.CutSuffix":
		if ex.Index <= 1 && isBytesOrString(ex.Type()) {
			le(fs, bf.lenOf(ex), bf.lenOf(call.Call.Args[0]), 0)
		}
		return
	}
	_ = r
}

// ---------- facts from branch conditions ----------

func (bf *boundsFn) condFacts(cond ssa.Value, truth bool, fs *factSet) {
	cond, truth = peelNot(cond, truth)
	switch x := cond.(type) {
	case *ssa.BinOp:
		op := x.Op
		if isIntT(x.X.Type()) && isIntT(x.Y.Type()) {
			a, b := bf.norm(x.X), bf.norm(x.Y)
			// (p - q) OP k  is the difference constraint  p OP q + k
			if sb, ok := bf.canon(x.X).(*ssa.BinOp); ok && sb.Op == token.SUB {
				if _, isK := constInt(sb.Y); !isK {
					if k, isK := constInt(x.Y); isK {
						a = bf.norm(sb.X)
						b = bf.norm(sb.Y)
						b.c += k
					}
				}
			}
			if !truth {
				switch op {
				case token.LSS:
					op = token.GEQ
				case token.LEQ:
					op = token.GTR
				case token.GTR:
					op = token.LEQ
				case token.GEQ:
					op = token.LSS
				case token.EQL:
					op = token.NEQ
				case token.NEQ:
					op = token.EQL
				}
			}
			switch op {
			case token.LSS:
				le(fs, a, b, -1)
			case token.LEQ:
				le(fs, a, b, 0)
			case token.GTR:
				le(fs, b, a, -1)
			case token.GEQ:
				le(fs, b, a, 0)
			case token.EQL:
				eq(fs, a, b)
			case token.NEQ:
				if a.ok && b.ok {
					fs.nes = append(fs.nes, bne{a, b})
				}
			}
			// found-case post-condition of Index(s, sep) with a constant separator: once the result is
			// known >= 0, result + len(sep) <= len(s)
			for _, side := range [][2]ssa.Value{{x.X, x.Y}, {x.Y, x.X}} {
				call, isCall := bf.canon(side[0]).(*ssa.Call)
				if !isCall {
					if cv, isConv := bf.canon(side[0]).(*ssa.Convert); isConv {
						call, isCall = bf.canon(cv.X).(*ssa.Call)
					}
				}
				k, isK := constInt(side[1])
				if !isCall || !isK || call.Call.StaticCallee() == nil {
					continue
				}
				q := qualName(call.Call.StaticCallee())
				if kk, ok := idxFns[q]; !ok || kk != 0 || len(call.Call.Args) != 2 {
					continue
				}
				sepLen := bf.lenOf(call.Call.Args[1])
				if !sepLen.ok || sepLen.n != bzero {
					continue
				}
				// which relation about the result was established?
				rel := op
				if side[0] == x.Y {
					switch op {
					case token.LSS:
						rel = token.GTR
					case token.LEQ:
						rel = token.GEQ
					case token.GTR:
						rel = token.LSS
					case token.GEQ:
						rel = token.LEQ
					}
				}
				found := (rel == token.NEQ && k == -1) || (rel == token.GTR && k >= -1) || (rel == token.GEQ && k >= 0)
				if found {
					le(fs, bf.norm(call), bf.lenOf(call.Call.Args[0]), -sepLen.c)
				}
			}
			return
		}
		// err == nil of a module helper: its ok-facts
		if op == token.EQL || op == token.NEQ {
			isEq := (op == token.EQL) == truth
			for _, pr := range [][2]ssa.Value{{x.X, x.Y}, {x.Y, x.X}} {
				if isNilConst(pr[1]) && isErrorT(pr[0].Type()) && isEq {
					if ex, ok := pr[0].(*ssa.Extract); ok {
						if call, ok := ex.Tuple.(*ssa.Call); ok {
							bf.summaryFacts(call, ex.Index, fs)
						}
					}
					if call, ok := pr[0].(*ssa.Call); ok {
						bf.summaryFacts(call, 0, fs)
					}
				}
			}
		}
		// string / slice-nil comparisons
		if op == token.EQL || op == token.NEQ {
			isEq := (op == token.EQL) == truth
			for _, pr := range [][2]ssa.Value{{x.X, x.Y}, {x.Y, x.X}} {
				if k, ok := pr[1].(*ssa.Const); ok {
					if k.Value != nil && k.Value.Kind() == constant.String {
						n := int64(len(constant.StringVal(k.Value)))
						if isEq {
							eq(fs, bf.lenOf(pr[0]), kt(n))
						} else if n == 0 {
							le(fs, kt(1), bf.lenOf(pr[0]), 0)
						}
					}
					if k.Value == nil && isEq {
						if _, isSl := pr[0].Type().Underlying().(*types.Slice); isSl {
							eq(fs, bf.lenOf(pr[0]), kt(0))
						}
					}
				}
			}
			if isEq && isBytesOrString(x.X.Type()) {
				eq(fs, bf.lenOf(x.X), bf.lenOf(x.Y))
			}
		}
	case *ssa.Call:
		f := x.Call.StaticCallee()
		if f == nil {
			return
		}
		args := x.Call.Args
		switch qualName(f) {
		case "bytes.HasPrefix", "strings.HasPrefix", "bytes.HasSuffix", "strings.HasSuffix", "bytes.Contains", "strings.Contains":
			if truth {
				le(fs, bf.lenOf(args[1]), bf.lenOf(args[0]), 0)
			}
		case "bytes.Equal", "strings.EqualFold", "bytes.EqualFold":
			if truth && qualName(f) == "bytes.Equal" {
				eq(fs, bf.lenOf(args[0]), bf.lenOf(args[1]))
			}
		}
		// module boolean helpers: facts that hold when they return true
		if truth {
			bf.summaryFacts(x, 0, fs)
		}
	case *ssa.Extract:
		// ok of a range-over-string step: key in [0, len-1]
		if nx, ok := x.Tuple.(*ssa.Next); ok && nx.IsString && x.Index == 0 && truth {
			if rg, ok := nx.Iter.(*ssa.Range); ok {
				for _, ref := range *nx.Referrers() {
					if e, ok := ref.(*ssa.Extract); ok && e.Index == 1 {
						k := bterm{bnode{e, kVal}, 0, true}
						le(fs, zt, k, 0)
						le(fs, k, bf.lenOf(rg.X), -1)
					}
				}
			}
		}
		// (v, ok) module helper: facts conditional on ok
		if call, ok := x.Tuple.(*ssa.Call); ok && truth {
			bf.summaryFacts(call, x.Index, fs)
		}
	}
}

// ---------- the per-function analysis ----------

func (c *Ctx) bounds(fn *ssa.Function) *boundsFn {
	if c.bfs == nil {
		c.bfs = map[*ssa.Function]*boundsFn{}
	}
	if bf, ok := c.bfs[fn]; ok {
		return bf
	}
	bf := &boundsFn{c: c, fn: fn, canonM: map[string]ssa.Value{}, atEntry: map[*ssa.BasicBlock]*factSet{}, atEnd: map[*ssa.BasicBlock]*factSet{},
		before: map[ssa.Instruction]*factSet{}, active: map[string]int64{}}
	c.bfs[fn] = bf
	if len(fn.Blocks) == 0 {
		return bf
	}
	bf.numberLoads()
	bf.entryFacts = &factSet{}
	for i, p := range fn.Params {
		if isIntT(p.Type()) && !isUnsigned(p.Type()) && c.paramNonNeg(fn, i, 2) {
			le(bf.entryFacts, zt, bterm{bnode{p, kVal}, 0, true}, 0)
		}
	}
	var walk func(b *ssa.BasicBlock, inh *factSet)
	walk = func(b *ssa.BasicBlock, inh *factSet) {
		cur := &factSet{parent: inh}
		if len(b.Preds) == 1 {
			p := b.Preds[0]
			if iff, ok := p.Instrs[len(p.Instrs)-1].(*ssa.If); ok && p.Succs[0] != p.Succs[1] {
				bf.condFacts(iff.Cond, p.Succs[0] == b, cur)
			}
		} else if len(b.Preds) > 1 {
			// facts common to all incoming edges: conditions that hold on every edge (e.g. `a || b` false-branch merges)
			bf.mergeEdgeFacts(b, cur)
		}
		bf.atEntry[b] = cur
		for _, in := range b.Instrs {
			snap := &factSet{parent: cur.parent, edges: cur.edges[:len(cur.edges):len(cur.edges)], nes: cur.nes[:len(cur.nes):len(cur.nes)]}
			bf.before[in] = snap
			bf.defFacts(in, cur)
		}
		bf.atEnd[b] = cur
		for _, d := range b.Dominees() {
			walk(d, cur)
		}
	}
	walk(fn.Blocks[0], bf.entryFacts)
	return bf
}

// mergeEdgeFacts: for a join block whose predecessors all end in Ifs on the SAME side of
// equivalent comparisons nothing is added; the common useful case is handled through the
// CNF guards: a unit guard clause of the block is a fact.
func (bf *boundsFn) mergeEdgeFacts(b *ssa.BasicBlock, cur *factSet) {
	for _, cl := range bf.c.guards(bf.fn)[b] {
		if len(cl) == 1 {
			// only literals not already inherited through the dominator chain matter; adding twice is harmless
			bf.condFacts(cl[0].v, cl[0].pol, cur)
		}
	}
}

// edgeFactSet: facts at the end of pred p plus the condition of edge p -> b.
func (bf *boundsFn) edgeFactSet(p, b *ssa.BasicBlock) *factSet {
	fs := &factSet{parent: bf.atEnd[p]}
	if iff, ok := p.Instrs[len(p.Instrs)-1].(*ssa.If); ok && p.Succs[0] != p.Succs[1] {
		bf.condFacts(iff.Cond, p.Succs[0] == b, fs)
	}
	return fs
}

// paramNonNeg: every static call site passes a provably non-negative value for parameter i,
// and the function cannot be called any other way (not address-taken, not dynamically dispatched).
func (c *Ctx) paramNonNeg(fn *ssa.Function, i int, depth int) bool {
	if depth == 0 || fn.Parent() != nil {
		return false
	}
	key := fmt.Sprintf("%p|%d", fn, i)
	if c.nonNeg == nil {
		c.nonNeg = map[string]int{}
	}
	switch c.nonNeg[key] {
	case 1:
		return true
	case 2, 3:
		return false // known false, or in progress
	}
	c.nonNeg[key] = 3
	res := func() bool {
		sites := c.sitesOf(fn)
		if len(sites) == 0 || c.dynamicallyCallable(fn) || len(c.funcValueUses(fn)) > 0 {
			return false
		}
		for _, s := range sites {
			if _, isGo := s.(*ssa.Go); isGo {
				return false
			}
			if _, isDefer := s.(*ssa.Defer); isDefer {
				return false
			}
			args := s.Common().Args
			if i >= len(args) {
				return false
			}
			caller := s.Parent()
			if !c.inModule(caller) {
				return false
			}
			cbf := c.bounds(caller)
			fs := cbf.before[s.(ssa.Instruction)]
			if fs == nil || !cbf.prove(fs, zt, cbf.norm(args[i]), 0, 0) {
				return false
			}
		}
		return true
	}()
	if res {
		c.nonNeg[key] = 1
	} else {
		c.nonNeg[key] = 2
	}
	return res
}

// fieldNonNeg: every store to the integer field owner.field in the module stores a provably
// non-negative value (struct literals included; the zero value is 0), and its address is
// never handed to a call.
func (c *Ctx) fieldNonNeg(owner *types.Named, field string) bool {
	if owner.Obj().Pkg() == nil || !strings.HasPrefix(owner.Obj().Pkg().Path(), c.ModPath) {
		return false
	}
	key := owner.Obj().Pkg().Path() + "." + owner.Obj().Name() + "." + field
	if c.fNonNeg == nil {
		c.fNonNeg = map[string]int{}
	}
	switch c.fNonNeg[key] {
	case 1:
		return true
	case 2, 3:
		return false
	}
	c.fNonNeg[key] = 3
	ok := true
	n := 0
	for _, a := range c.fieldAccesses(owner.Obj().Pkg().Path(), owner.Obj().Name(), field) {
		if a.write {
			n++
			bf := c.bounds(a.fn)
			fs := bf.before[a.in]
			if fs == nil || !bf.prove(fs, zt, bf.norm(a.val), 0, 0) {
				ok = false
			}
			continue
		}
		switch a.in.(type) {
		case *ssa.UnOp, *ssa.Field:
		default:
			// address escapes (passed to a call, captured, …): may be written elsewhere
			if _, isFA := a.in.(*ssa.FieldAddr); !isFA {
				ok = false
			}
		}
	}
	// config structs are also filled by reflection (cfg.Parse): only fields of unexported
	// plugin state or with at least one checked store are trusted
	if n == 0 {
		ok = false
	}
	if ok {
		c.fNonNeg[key] = 1
	} else {
		c.fNonNeg[key] = 2
	}
	return ok
}

// ---------- proving ----------

type bgraph struct {
	adj   map[bnode][]bedge
	nes   []bne
	nodes map[bnode]bool
}

func (g *bgraph) add(e bedge) {
	g.adj[e.from] = append(g.adj[e.from], e)
	g.touch(e.from)
	g.touch(e.to)
}

// touch makes sure the implicit facts about a len/cap node are present.
func (g *bgraph) touch(n bnode) {
	if n.v == nil || g.nodes[n] {
		return
	}
	g.nodes[n] = true
	switch n.k {
	case kLen:
		g.adj[n] = append(g.adj[n], bedge{n, bzero, 0}) // 0 <= len
		cn := bnode{n.v, kCap}
		g.adj[cn] = append(g.adj[cn], bedge{cn, n, 0}) // len <= cap
		if !g.nodes[cn] {
			g.nodes[cn] = true
			g.adj[cn] = append(g.adj[cn], bedge{cn, bzero, 0})
		}
	case kCap:
		g.adj[n] = append(g.adj[n], bedge{n, bzero, 0})
		ln := bnode{n.v, kLen}
		g.adj[n] = append(g.adj[n], bedge{n, ln, 0})
		if !g.nodes[ln] {
			g.nodes[ln] = true
			g.adj[ln] = append(g.adj[ln], bedge{ln, bzero, 0})
		}
	}
}

var graphCache = map[*factSet]*bgraph{}

func graphOf(fs *factSet) *bgraph {
	if g, ok := graphCache[fs]; ok {
		return g
	}
	g := &bgraph{adj: map[bnode][]bedge{}, nodes: map[bnode]bool{}}
	es, nes := fs.all()
	for _, e := range es {
		g.add(e)
	}
	g.nes = nes
	graphCache[fs] = g
	return g
}

// distFrom: shortest distances from src (queue-based Bellman-Ford, bounded relaxations).
func (g *bgraph) distFrom(src bnode, extra []bedge) map[bnode]int64 {
	d := map[bnode]int64{src: 0}
	queue := []bnode{src}
	inq := map[bnode]bool{src: true}
	relax := 0
	xadj := map[bnode][]bedge{}
	for _, e := range extra {
		xadj[e.from] = append(xadj[e.from], e)
	}
	for len(queue) > 0 && relax < 20000 {
		n := queue[0]
		queue = queue[1:]
		inq[n] = false
		dn := d[n]
		for _, lst := range [][]bedge{g.adj[n], xadj[n]} {
			for _, e := range lst {
				relax++
				nd := dn + e.w
				if od, ok := d[e.to]; !ok || nd < od {
					if nd < -(1 << 40) {
						continue // negative cycle guard
					}
					d[e.to] = nd
					if !inq[e.to] {
						inq[e.to] = true
						queue = append(queue, e.to)
					}
				}
			}
		}
	}
	return d
}

// entails: a <= b + k under the facts.
func entails(fs *factSet, a, b bterm, k int64) bool {
	if !a.ok || !b.ok {
		return false
	}
	target := b.c - a.c + k
	if a.n == b.n && target >= 0 {
		return true
	}
	g := graphOf(fs)
	g.touch(a.n)
	g.touch(b.n)
	d := g.distFrom(b.n, nil)
	if x, ok := d[a.n]; ok && x <= target {
		return true
	}
	if len(g.nes) == 0 {
		return false
	}
	// strengthen with disequalities: x != y ∧ x <= y  ⇒  x <= y-1
	var extra []bedge
	for r := 0; r < 2; r++ {
		for _, ne := range g.nes {
			da := g.distFrom(ne.a.n, extra)
			if x, ok := da[ne.b.n]; ok && x <= ne.a.c-ne.b.c {
				extra = append(extra, bedge{ne.a.n, ne.b.n, ne.a.c - ne.b.c - 1})
			}
			db := g.distFrom(ne.b.n, extra)
			if x, ok := db[ne.a.n]; ok && x <= ne.b.c-ne.a.c {
				extra = append(extra, bedge{ne.b.n, ne.a.n, ne.b.c - ne.a.c - 1})
			}
		}
	}
	if len(extra) == 0 {
		return false
	}
	d = g.distFrom(b.n, extra)
	x, ok := d[a.n]
	return ok && x <= target
}

// prove a <= b + k at the point described by fs; φ operands are proven per incoming edge.
func (bf *boundsFn) prove(fs *factSet, a, b bterm, k int64, depth int) bool {
	if !a.ok || !b.ok {
		return false
	}
	if entails(fs, a, b, k) {
		return true
	}
	if depth > 6 {
		return false
	}
	// φ on the left: every operand under its edge
	tryPhi := func(n bnode, left bool) (bool, bool) {
		phi, ok := n.v.(*ssa.Phi)
		if !ok || n.k != kVal {
			// len(φ) of slices
			if ok && (n.k == kLen || n.k == kCap) {
				// handled the same way with len/cap of operands
			} else {
				return false, false
			}
		}
		key := fmt.Sprintf("%p|%d|%v|%p|%d|%d", phi, n.k, left, map[bool]ssa.Value{true: b.n.v, false: a.n.v}[left], map[bool]bkind{true: b.n.k, false: a.n.k}[left], 0)
		slack := b.c - a.c + k
		if prev, inProg := bf.active[key]; inProg {
			// harmless cycle: coming back with at least as much slack
			return slack >= prev, true
		}
		bf.active[key] = slack
		defer delete(bf.active, key)
		pb := phi.Block()
		for i, e := range phi.Edges {
			pred := pb.Preds[i]
			efs := bf.edgeFactSet(pred, pb)
			var opn bterm
			switch n.k {
			case kVal:
				opn = bf.norm(e)
			case kLen:
				opn = bf.lenOf(e)
			case kCap:
				opn = bf.capOf(e)
			}
			if !opn.ok {
				return false, true
			}
			var ok2 bool
			if left {
				t := opn
				t.c += a.c
				ok2 = bf.prove(efs, t, b, k, depth+1)
			} else {
				t := opn
				t.c += b.c
				ok2 = bf.prove(efs, a, t, k, depth+1)
			}
			if !ok2 {
				return false, true
			}
		}
		return true, true
	}
	if a.n.v != nil {
		if _, isPhi := a.n.v.(*ssa.Phi); isPhi {
			if ok, tried := tryPhi(a.n, true); tried && ok {
				return true
			}
		}
	}
	if b.n.v != nil {
		if _, isPhi := b.n.v.(*ssa.Phi); isPhi {
			if ok, tried := tryPhi(b.n, false); tried && ok {
				return true
			}
		}
	}
	// values captured by a function literal: a relation between captured values (and constants)
	// that holds where the literal is created holds inside it
	if bf.fn.Parent() != nil {
		if mc, pa, pb, ok := bf.capturedTerms(a, b); ok {
			pbf := bf.c.bounds(bf.fn.Parent())
			if pfs := pbf.before[mc]; pfs != nil && pbf.prove(pfs, pa, pb, k, depth+1) {
				return true
			}
		}
		// parameters of a literal called in place: the relation between the arguments at the call
		if call, pa, pb, ok := bf.inPlaceTerms(a, b); ok {
			pbf := bf.c.bounds(bf.fn.Parent())
			if pfs := pbf.before[call]; pfs != nil && pbf.prove(pfs, pa, pb, k, depth+1) {
				return true
			}
		}
	}
	return false
}

// inPlaceTerms translates a and b to the enclosing function when each is a constant, a parameter of
// this literal (value, len or cap), or a captured variable, and the literal is called in place.
func (bf *boundsFn) inPlaceTerms(a, b bterm) (*ssa.Call, bterm, bterm, bool) {
	call := inPlaceCall(bf.fn)
	if call == nil {
		return nil, bterm{}, bterm{}, false
	}
	pbf := bf.c.bounds(bf.fn.Parent())
	any := false
	tr := func(t bterm) (bterm, bool) {
		if t.n == bzero {
			return t, true
		}
		p, ok := t.n.v.(*ssa.Parameter)
		if !ok || p.Parent() != bf.fn {
			// a captured variable never written inside and stored once before the literal is made
			if _, ca, cb, okc := bf.capturedTerms(t, zt); okc {
				_ = cb
				any = true
				return ca, true
			}
			return bterm{}, false
		}
		idx := -1
		for i, fp := range bf.fn.Params {
			if fp == p {
				idx = i
			}
		}
		if idx < 0 || idx >= len(call.Call.Args) {
			return bterm{}, false
		}
		arg := call.Call.Args[idx]
		var pt bterm
		switch t.n.k {
		case kVal:
			pt = pbf.norm(arg)
		case kLen:
			pt = pbf.lenOf(arg)
		case kCap:
			pt = pbf.capOf(arg)
		default:
			return bterm{}, false
		}
		if !pt.ok {
			return bterm{}, false
		}
		pt.c += t.c
		any = true
		return pt, true
	}
	pa, ok1 := tr(a)
	pb, ok2 := tr(b)
	if !ok1 || !ok2 || !any {
		return nil, bterm{}, bterm{}, false
	}
	return call, pa, pb, true
}

// capturedTerms translates a and b to the enclosing function when each is a constant or the load of
// a captured variable that the literal never writes and that has one store, which dominates the
// literal's creation.
func (bf *boundsFn) capturedTerms(a, b bterm) (*ssa.MakeClosure, bterm, bterm, bool) {
	lit := bf.fn
	par := lit.Parent()
	var mc *ssa.MakeClosure
	n := 0
	for _, blk := range par.Blocks {
		for _, in := range blk.Instrs {
			if m, ok := in.(*ssa.MakeClosure); ok && m.Fn == ssa.Value(lit) {
				mc = m
				n++
			}
		}
	}
	if n != 1 {
		return nil, bterm{}, bterm{}, false
	}
	pbf := bf.c.bounds(par)
	any := false
	tr := func(t bterm) (bterm, bool) {
		if t.n == bzero {
			return t, true
		}
		if t.n.k != kVal && t.n.k != kLen && t.n.k != kCap {
			return bterm{}, false
		}
		ld, ok := t.n.v.(*ssa.UnOp)
		if !ok || ld.Op != token.MUL {
			return bterm{}, false
		}
		fv, ok := ld.X.(*ssa.FreeVar)
		if !ok || freeVarStored(fv) {
			return bterm{}, false
		}
		idx := -1
		for i, x := range lit.FreeVars {
			if x == fv {
				idx = i
			}
		}
		if idx < 0 || idx >= len(mc.Bindings) {
			return bterm{}, false
		}
		al, ok := mc.Bindings[idx].(*ssa.Alloc)
		if !ok {
			return bterm{}, false
		}
		pv := singleStore(al)
		if pv == nil {
			return bterm{}, false
		}
		// the store must come before the literal's creation on every path
		var st *ssa.Store
		for _, r := range *al.Referrers() {
			if s, ok := r.(*ssa.Store); ok && s.Addr == ssa.Value(al) {
				st = s
			}
		}
		if st == nil {
			return bterm{}, false
		}
		if st.Block() == mc.Block() {
			before := false
			for _, in := range st.Block().Instrs {
				if in == ssa.Instruction(st) {
					before = true
					break
				}
				if in == ssa.Instruction(mc) {
					break
				}
			}
			if !before {
				return bterm{}, false
			}
		} else if !st.Block().Dominates(mc.Block()) {
			return bterm{}, false
		}
		var pt bterm
		switch t.n.k {
		case kVal:
			pt = pbf.norm(pv)
		case kLen:
			pt = pbf.lenOf(pv)
		case kCap:
			pt = pbf.capOf(pv)
		}
		if !pt.ok {
			return bterm{}, false
		}
		pt.c += t.c
		any = true
		return pt, true
	}
	pa, ok1 := tr(a)
	pb, ok2 := tr(b)
	if !ok1 || !ok2 || !any {
		return nil, bterm{}, bterm{}, false
	}
	return mc, pa, pb, true
}

// ---------- obligations ----------

type boundOb struct {
	in    ssa.Instruction
	kind  string // index | slice
	expr  string
	nexpr string // name-free rendering of the same expression
	ok    bool
	why   string
}

func (bf *boundsFn) obligations() []boundOb {
	var out []boundOb
	add := func(in ssa.Instruction, kind, expr, clause string, ok bool) {
		bf.c.normPath = true
		nexpr := bf.c.path(in.(ssa.Value))
		bf.c.normPath = false
		out = append(out, boundOb{in, kind, expr, nexpr, ok, clause})
	}
	for _, b := range bf.fn.Blocks {
		for _, in := range b.Instrs {
			fs := bf.before[in]
			if fs == nil {
				continue
			}
			index := func(X, I ssa.Value, expr string) {
				idx := bf.norm(I)
				ln := bf.lenOf(X)
				add(in, "index", expr, "index>=0", bf.prove(fs, zt, idx, 0, 0))
				add(in, "index", expr, "index<len", bf.prove(fs, idx, ln, -1, 0))
			}
			switch x := in.(type) {
			case *ssa.IndexAddr:
				index(x.X, x.Index, bf.c.path(x))
			case *ssa.Index:
				index(x.X, x.Index, bf.c.path(x))
			case *ssa.Lookup:
				if bt, ok := x.X.Type().Underlying().(*types.Basic); ok && bt.Info()&types.IsString != 0 {
					index(x.X, x.Index, bf.c.path(x))
				}
			case *ssa.Slice:
				expr := bf.c.path(x)
				lo := zt
				if x.Low != nil {
					lo = bf.norm(x.Low)
				}
				limit := bf.capOf(x.X)
				var hi bterm
				if x.High != nil {
					hi = bf.norm(x.High)
				} else {
					hi = bf.lenOf(x.X)
				}
				if x.Low != nil {
					add(in, "slice", expr, "low>=0", bf.prove(fs, zt, lo, 0, 0))
				}
				add(in, "slice", expr, "low<=high", bf.prove(fs, lo, hi, 0, 0))
				if x.High != nil {
					okHi := bf.prove(fs, hi, limit, 0, 0)
					if x.Max != nil {
						mx := bf.norm(x.Max)
						okHi = okHi && bf.prove(fs, hi, mx, 0, 0) && bf.prove(fs, mx, limit, 0, 0)
					}
					add(in, "slice", expr, "high<=cap", okHi)
				}
			}
		}
	}
	return out
}

// ---------- helper summaries ----------

// sumFact: a relation established by a module helper for its callers.
//
//	res >= 0: about result res (its value, or its length for strings/slices)
//	res == -1: about a parameter only (len(param) >= c)
type sumFact struct {
	res   int
	rkind bkind
	param int // -1: constant bound
	pkind bkind
	c     int64
	lower bool // true: lhs >= bound + c ; false: lhs <= bound + c
}

type boundsSum struct {
	always []sumFact
	whenOK map[int][]sumFact // indicator result index (bool true / error nil) -> facts
}

func isErrorT(t types.Type) bool { return types.Identical(t, types.Universe.Lookup("error").Type()) }

func (c *Ctx) boundsSummary(fn *ssa.Function) *boundsSum {
	if c.bsums == nil {
		c.bsums = map[*ssa.Function]*boundsSum{}
		c.bsumBusy = map[*ssa.Function]bool{}
	}
	if s, ok := c.bsums[fn]; ok {
		return s
	}
	if c.bsumBusy[fn] || fn.Blocks == nil || fn.Signature.Results().Len() == 0 {
		return nil
	}
	n := 0
	for _, b := range fn.Blocks {
		n += len(b.Instrs)
	}
	if n > 600 {
		c.bsums[fn] = nil
		return nil
	}
	c.bsumBusy[fn] = true
	defer delete(c.bsumBusy, fn)
	bf := c.bounds(fn)
	s := &boundsSum{whenOK: map[int][]sumFact{}}
	rets := returnsOf(fn)
	if len(rets) == 0 {
		c.bsums[fn] = s
		return s
	}
	sig := fn.Signature.Results()
	nres := sig.Len()
	// indicators
	var inds []int
	for j := 0; j < nres; j++ {
		t := sig.At(j).Type()
		if bt, ok := t.Underlying().(*types.Basic); ok && bt.Kind() == types.Bool {
			inds = append(inds, j)
		} else if isErrorT(t) {
			inds = append(inds, j)
		}
	}
	// constants the callee compares len(param) with
	lenConsts := map[int][]int64{}
	for i, p := range fn.Params {
		if !isBytesOrString(p.Type()) && !isSliceT(p.Type()) {
			continue
		}
		set := map[int64]bool{1: true, 2: true, 3: true, 4: true}
		for _, b := range fn.Blocks {
			for _, in := range b.Instrs {
				if bo, ok := in.(*ssa.BinOp); ok {
					for _, pr := range [][2]ssa.Value{{bo.X, bo.Y}, {bo.Y, bo.X}} {
						if k, ok := constInt(pr[1]); ok && k > 0 && k < 1<<20 {
							if t := bf.norm(pr[0]); t.ok && t.n == (bnode{bf.canon(p), kLen}) {
								set[k-t.c] = true
								set[k-t.c+1] = true
							}
						}
					}
				}
			}
		}
		var l []int64
		for k := range set {
			if k >= 1 {
				l = append(l, k)
			}
		}
		sort.Slice(l, func(a, b int) bool { return l[a] > l[b] })
		lenConsts[i] = l
	}
	// factsAt: the facts before a return, strengthened by "indicator ind is ok" when its value is not constant
	type retInfo struct {
		ret *ssa.Return
		fs  *factSet
	}
	retsFor := func(ind int) []retInfo {
		var out []retInfo
		for _, ret := range rets {
			fs := bf.before[ret]
			if ind >= 0 {
				v := retResults(ret)[ind]
				if isErrorT(sig.At(ind).Type()) {
					if !isNilConst(v) {
						if _, isPhi := v.(*ssa.Phi); !isPhi {
							continue // a definite error: not an ok return
						}
					}
				} else {
					if b, isK := constBool(v); isK {
						if !b {
							continue
						}
					} else {
						fs2 := &factSet{parent: fs}
						bf.condFacts(v, true, fs2)
						fs = fs2
					}
				}
			}
			out = append(out, retInfo{ret, fs})
		}
		return out
	}
	holds := func(sf sumFact, ris []retInfo) bool {
		if len(ris) == 0 {
			return false
		}
		for _, ri := range ris {
			var lhs bterm
			if sf.res >= 0 {
				v := retResults(ri.ret)[sf.res]
				if sf.rkind == kLen {
					lhs = bf.lenOf(v)
				} else {
					lhs = bf.norm(v)
				}
			} else {
				lhs = bf.lenOf(fn.Params[sf.param])
			}
			if !lhs.ok {
				return false
			}
			var bound bterm
			switch {
			case sf.res < 0 || sf.param < 0:
				bound = kt(0)
			case sf.pkind == kLen:
				bound = bf.lenOf(fn.Params[sf.param])
			default:
				bound = bf.norm(fn.Params[sf.param])
			}
			if sf.lower {
				if !bf.prove(ri.fs, bound, lhs, -sf.c, 0) { // bound + c <= lhs
					return false
				}
			} else if !bf.prove(ri.fs, lhs, bound, sf.c, 0) {
				return false
			}
		}
		return true
	}
	collect := func(ris []retInfo, known func(sumFact) bool) []sumFact {
		var out []sumFact
		add := func(sf sumFact) bool {
			if known != nil && known(sf) {
				return true
			}
			if holds(sf, ris) {
				out = append(out, sf)
				return true
			}
			return false
		}
		for j := 0; j < nres; j++ {
			rt := sig.At(j).Type()
			var rk bkind
			switch {
			case isIntT(rt):
				rk = kVal
			case isBytesOrString(rt) || isSliceT(rt):
				rk = kLen
			default:
				continue
			}
			// lower bounds by constants (strongest first)
			lows := []int64{2, 1, 0, -1}
			if rk == kLen {
				lows = []int64{2, 1}
			}
			for _, k := range lows {
				if add(sumFact{j, rk, -1, kVal, k, true}) {
					break
				}
			}
			for i, p := range fn.Params {
				if isBytesOrString(p.Type()) || isSliceT(p.Type()) {
					for _, k := range []int64{-1, 0} {
						if add(sumFact{j, rk, i, kLen, k, false}) {
							break
						}
					}
				}
				if isIntT(p.Type()) && rk == kVal {
					add(sumFact{j, rk, i, kVal, 0, false})
					add(sumFact{j, rk, i, kVal, 0, true})
				}
			}
		}
		// parameter-only facts: len(p) >= k
		for i := range fn.Params {
			for _, k := range lenConsts[i] {
				if add(sumFact{-1, kVal, i, kLen, k, true}) {
					break
				}
			}
		}
		return out
	}
	s.always = collect(retsFor(-1), nil)
	isAlways := func(sf sumFact) bool {
		for _, x := range s.always {
			if x == sf {
				return true
			}
		}
		return false
	}
	for _, ind := range inds {
		ris := retsFor(ind)
		if len(ris) == len(rets) {
			// the indicator never excludes a return: nothing conditional to learn (avoid duplicates)
			allPlain := true
			for i, ri := range ris {
				if ri.fs != bf.before[rets[i]] {
					allPlain = false
				}
			}
			if allPlain {
				continue
			}
		}
		s.whenOK[ind] = collect(ris, isAlways)
	}
	c.bsums[fn] = s
	return s
}

func isSliceT(t types.Type) bool {
	_, ok := t.Underlying().(*types.Slice)
	return ok
}

// applySummary instantiates a summary fact at a call site.
func (bf *boundsFn) applySummary(sf sumFact, call *ssa.Call, fs *factSet) {
	args := call.Call.Args
	if sf.res < 0 {
		if sf.param < len(args) {
			le(fs, kt(sf.c), bf.lenOf(args[sf.param]), 0)
		}
		return
	}
	// the value carrying result sf.res
	var resV ssa.Value
	if call.Call.Signature().Results().Len() == 1 {
		resV = call
	} else if refs := call.Referrers(); refs != nil {
		for _, r := range *refs {
			if e, ok := r.(*ssa.Extract); ok && e.Index == sf.res {
				resV = e
			}
		}
	}
	if resV == nil {
		return
	}
	var bound bterm
	if sf.param >= 0 {
		if sf.param >= len(args) {
			return
		}
		if sf.pkind == kLen {
			bound = bf.lenOf(args[sf.param])
		} else {
			bound = bf.norm(args[sf.param])
		}
	} else {
		bound = kt(0)
	}
	var r bterm
	if sf.rkind == kLen {
		r = bf.lenOf(resV)
	} else {
		r = bterm{bnode{bf.canon(resV), kVal}, 0, true}
	}
	if sf.lower {
		le(fs, bound, r, -sf.c)
	} else {
		le(fs, r, bound, sf.c)
	}
}

// summaryFacts adds the unconditional facts of a module callee at the call, and, with
// ind >= 0, the facts that hold when indicator result ind is ok.
func (bf *boundsFn) summaryFacts(call *ssa.Call, ind int, fs *factSet) {
	f := call.Call.StaticCallee()
	if f == nil || !bf.c.inModule(f) || f.Blocks == nil {
		return
	}
	s := bf.c.boundsSummary(f)
	if s == nil {
		return
	}
	if ind < 0 {
		for _, sf := range s.always {
			bf.applySummary(sf, call, fs)
		}
		return
	}
	for _, sf := range s.whenOK[ind] {
		bf.applySummary(sf, call, fs)
	}
}

// obKeys assigns stable keys: fn|kind|expr#n|clause (n = ordinal of the instruction among
// equal expressions of the function, by position). No line numbers.
func obKeys(c *Ctx, fn *ssa.Function, obs []boundOb) ([]string, []string) {
	sort.SliceStable(obs, func(i, j int) bool { return obs[i].in.Pos() < obs[j].in.Pos() })
	cnt := map[string]int{}
	ord := map[ssa.Instruction]int{}
	keys := make([]string, len(obs))
	nkeys := make([]string, len(obs))
	trunc := func(e string) string {
		if r := []rune(e); len(r) > 140 {
			return string(r[:140]) + "…"
		}
		return e
	}
	for i, o := range obs {
		k := c.fnName(fn) + "|" + o.kind + "|" + trunc(o.expr)
		n, ok := ord[o.in]
		if !ok {
			cnt[k]++
			n = cnt[k]
			ord[o.in] = n
		}
		keys[i] = fmt.Sprintf("%s#%d|%s", k, n, o.why)
		// name-free key: outermost enclosing function (a block moved into a function literal keeps its key),
		// no ordinal (statements may be reordered); the expression text and the clause identify the obligation
		top := fn
		for top.Parent() != nil {
			top = top.Parent()
		}
		nkeys[i] = fmt.Sprintf("%s|%s|%s|%s", c.fnName(top), o.kind, trunc(o.nexpr), o.why)
	}
	return keys, nkeys
}
