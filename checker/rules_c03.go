package main

import (
	"fmt"
	"go/token"
	"go/types"
	"strings"

	"golang.org/x/tools/go/ssa"
)

const fileInPkg = modulePath + "/plugin/input/file"

func init() {
	explain("C03", "Narrow static necessary conditions of 'no line lost across kill and restart', decided exhaustively over the source: the committed per-stream offsets of a Job are written only by the acknowledgement path (with the committed event's own offset, only forwards), by truncation (constant 0) and by initialisation from the loaded table; every access to Job.offsets / isDone / ignoreEventsLE is under Job.mu (interprocedural, objects not yet published exempt); only the saver touches the offsets file; in sync mode the saver runs after every stored offset, in async mode a saver goroutine exists and stop() saves; on resume the reader seeks to the MINIMUM saved stream offset and PassEvent refuses exactly offsets <= saved; events older than a truncation are ignored by commit. "+
		"The offsets file a restart loads is replaced only by a completely written and synced temporary file, and the loader reads the writer's tokens (rules shared with C07). "+
		"NOT decided: anything about kill instants, rotation, truncation histories or several streams per file as behaviour.",
		"go/types, go/ssa and x/tools call resolution are correct", "lock identity is by access path; an object reachable only from a fresh allocation in the same call chain is not yet shared")
	reg("C03", "C03.R1", "E1+E2", "writers of Job.offsets: commit (event.Offset, forward only), truncation (0), initialisation from the loaded table", 3, ruleOffsetWriters)
	reg("C03", "C03.R2", "E3", "Job.{offsets,isDone,ignoreEventsLE} accessed only under Job.mu", 15, ruleJobLockTable)
	reg("C03", "C03.R3", "E1", "only the saver opens/renames/removes the offsets files", 1, ruleOffsetsFileWriters)
	reg("C03", "C03.R4", "E2", "persistence: sync mode saves after the stored offset; async saver goroutine; stop() saves", 1, rulePersistence)
	reg("C03", "C03.R5", "E2", "resume: seek to the minimum saved stream offset; PassEvent refuses exactly offset <= saved", 1, ruleResume)
	reg("C03", "C03.R6", "E2", "what a restart loads is a completely written file: write -> fsync -> rename with error gating (same rule as C07.R1)", 2, ruleDurableRename)
	reg("C03", "C03.R7", "E7", "what a restart loads is what was saved: writer tokens = reader tokens (same rule as C07.R5)", 1, ruleTokenAgreement)
	reg("C03", "C03.R8", "E6", "the stream offsets handed over with each line are a fresh copy of that job's own committed offsets", 1, ruleLineOffsetsFresh)
	reg("C03", "C03.R9", "E2", "what a restart loads holds one snapshot: the saver formats into an emptied buffer (same rule as C07.R8)", 1, ruleSnapshotBufferFresh)
}

// isJobOffsetsAddr: v is &job.offsets
func isJobOffsetsAddr(v ssa.Value) (ssa.Value, bool) {
	o, f, base, ok := fieldOf(v)
	if ok && isField(o, f, fileInPkg, "Job", "offsets") {
		return base, true
	}
	return nil, false
}

func ruleOffsetWriters(c *Ctx, r *Rule) {
	ro := c.roles()
	// the acknowledgement path: functions statically reachable (depth 2) from InputPlugin.Commit implementations in this package
	isCommitPath := func(fn *ssa.Function) bool {
		for _, t := range c.Implementers(ro.InputPlugin) {
			cm := c.MethodOf(t, "Commit")
			if cm != nil && c.pkgOf(cm) == "plugin/input/file" && c.reachesWithin(cm, fn, 2) {
				return true
			}
		}
		return false
	}
	n := map[string]int{}
	// (a) SliceMap.Set calls on &job.offsets
	c.eachCall(func(fn *ssa.Function, ci ssa.CallInstruction) {
		f := calleeFunc(ci)
		if f == nil || f.Name() != "Set" || len(ci.Common().Args) != 3 {
			return
		}
		if _, ok := isJobOffsetsAddr(ci.Common().Args[0]); !ok {
			return
		}
		r.Inst(1)
		name := c.fnName(fn)
		n[name]++
		key := fmt.Sprintf("%s|set#%d", name, n[name])
		val := ci.Common().Args[2]
		if k, isK := constInt(val); isK {
			r.Ob(k == 0 && !isCommitPath(fn), key+"|truncate-zero", ci.Pos(), "a constant offset is stored only by truncation, and it is 0")
			return
		}
		if !isCommitPath(fn) {
			r.Ob(false, key+"|writer", ci.Pos(), "Job.offsets is advanced outside the acknowledgement path: an un-acknowledged line's offset could be persisted and the line lost after a restart ("+c.path(val)+")")
			return
		}
		// value = event.Offset of the committed event (the function's own event parameter)
		okV := false
		if o, fl, base, ok := loadedField(val); ok && isField(o, fl, pipelinePkg, "Event", "Offset") {
			if p, isP := base.(*ssa.Parameter); isP && paramIndex(fn, p) >= 0 {
				okV = true
			}
		}
		r.Ob(okV, key+"|value", ci.Pos(), "the stored offset is the committed event's own Offset: "+c.path(val))
		// forward only: guarded by !(saved >= event.Offset)
		fw := false
		for _, l := range c.unitGuards(ci) {
			if op, x, y, ok := cmpLit(l); ok {
				if op == token.LSS && isLoadOfField(y, pipelinePkg, "Event", "Offset") && isGetResult(x) {
					fw = true
				}
				if op == token.GTR && isLoadOfField(x, pipelinePkg, "Event", "Offset") && isGetResult(y) {
					fw = true
				}
			}
		}
		r.Ob(fw, key+"|forward-only", ci.Pos(), "the stored offset is strictly greater than the one saved before (otherwise a terminator)")
		// ignored after truncation: guarded by !(SeqID <= ignoreEventsLE)
		ig := false
		for _, cl := range c.guards(fn)[ci.Block()] {
			for _, l := range cl {
				if op, x, y, ok := cmpLit(l); ok && op == token.GTR && isLoadOfField(x, pipelinePkg, "Event", "SeqID") && isLoadOfField(y, fileInPkg, "Job", "ignoreEventsLE") {
					ig = true
				}
			}
		}
		r.Ob(ig, key+"|ignores-pre-truncation", ci.Pos(), "events read before a truncation (SeqID <= ignoreEventsLE) do not move the offsets")
	})
	// (b) direct stores to Job.offsets
	for _, a := range c.fieldAccesses(fileInPkg, "Job", "offsets") {
		if !a.write {
			continue
		}
		if isFreshAlloc(refOf(a.base).root) {
			continue // struct literal in the constructor
		}
		r.Inst(1)
		name := c.fnName(a.fn)
		call, isCall := a.val.(*ssa.Call)
		ok := isCall && call.Call.StaticCallee() != nil && call.Call.StaticCallee().Name() == "SliceFromMap"
		if ok {
			// the map comes from the loaded offsets table
			ok = false
			var walk func(v ssa.Value, d int)
			walk = func(v ssa.Value, d int) {
				if d > 9 || v == nil {
					return
				}
				if isLoadOfField(v, fileInPkg, "jobProvider", "loadedOffsets") {
					ok = true
				}
				if al, isAl := v.(*ssa.Alloc); isAl {
					// a variable cell (captured by a function literal): what was stored into it
					if refs := al.Referrers(); refs != nil {
						for _, rf := range *refs {
							if st, isSt := rf.(*ssa.Store); isSt && st.Addr == ssa.Value(al) {
								walk(st.Val, d+1)
							}
						}
					}
				}
				if in, isIn := v.(ssa.Instruction); isIn {
					for _, op := range in.Operands(nil) {
						if *op != nil {
							walk(*op, d+1)
						}
					}
				}
			}
			walk(call.Call.Args[0], 0)
		}
		r.Ob(ok, name+"|assign", a.in.Pos(), "Job.offsets is replaced only by the table loaded from the offsets file (job initialisation)")
	}
}

// isGetResult: v is the value result of SliceMap.Get on &job.offsets
func isGetResult(v ssa.Value) bool {
	e, ok := v.(*ssa.Extract)
	if !ok || e.Index != 0 {
		return false
	}
	call, ok := e.Tuple.(*ssa.Call)
	if !ok || call.Call.StaticCallee() == nil || call.Call.StaticCallee().Name() != "Get" {
		return false
	}
	a := call.Call.Args[0]
	if _, ok := isJobOffsetsAddr(a); ok {
		return true
	}
	return isLoadOfField(a, fileInPkg, "Job", "offsets")
}

// publishedFresh: the lock requirement is waived while the object is reachable only from a
// fresh allocation made in the current call chain (constructor before publication).
func (c *Ctx) heldOrUnpublished(in ssa.Instruction, ref lockRef, depth int) (bool, string) {
	if _, isAlloc := ref.root.(*ssa.Alloc); isAlloc {
		return true, "object not yet published (fresh allocation)"
	}
	fn := in.Parent()
	if _, ok := c.flowMust(fn).at(in)[ref.key()]; ok {
		return true, ""
	}
	if sites, refs, ok := c.closureLockSites(in, ref); ok && depth > 0 {
		for i, s := range sites {
			if ok2, w := c.heldOrUnpublished(s, refs[i], depth-1); !ok2 {
				return false, w
			}
		}
		return true, ""
	}
	pi := paramIndex(fn, ref.root)
	if pi < 0 || depth <= 0 {
		return false, "lock " + c.lockString(ref) + " not held in " + c.fnName(fn)
	}
	if _, ok := c.lockFlow(fn, lockset{ref.key(): ref}, true).at(in)[ref.key()]; !ok {
		return false, "lock " + c.lockString(ref) + " is released in " + c.fnName(fn) + " before this point"
	}
	sites := c.sitesOf(fn)
	if len(sites) == 0 {
		return false, "lock " + c.lockString(ref) + " not held in " + c.fnName(fn) + " and no static caller"
	}
	checked := 0
	defer func() { _ = checked }()
	inScope := 0
	for _, s := range sites {
		if c.lockScopeSkip == nil || !c.lockScopeSkip(s.Parent()) {
			inScope++
		}
	}
	if inScope == 0 && c.dynamicallyCallable(fn) {
		return false, "lock " + c.lockString(ref) + " not held in " + c.fnName(fn) + ", which is called through an interface (no in-scope static caller holds it)"
	}
	for _, s := range sites {
		if c.lockScopeSkip != nil && c.lockScopeSkip(s.Parent()) {
			continue // caller outside the rule's scope (stated in the rule's explanation)
		}
		args := s.Common().Args
		if pi >= len(args) {
			return false, "cannot map parameter"
		}
		rr := refOf(args[pi])
		rr.path += ref.path
		if ok, why := c.heldOrUnpublished(s, rr, depth-1); !ok {
			return false, why + " (via " + c.fnName(s.Parent()) + ")"
		}
	}
	return true, ""
}

func ruleJobLockTable(c *Ctx, r *Rule) {
	for _, f := range []string{"offsets", "isDone", "ignoreEventsLE"} {
		n := map[string]int{}
		for _, a := range c.fieldAccesses(fileInPkg, "Job", f) {
			name := c.fnName(a.fn)
			if strings.HasSuffix(c.Fset.Position(a.in.Pos()).Filename, "_test.go") {
				continue
			}
			r.Inst(1)
			n[name]++
			ok, why := c.heldOrUnpublished(a.in, lockRef{refOf(a.base).root, ".mu"}, 3)
			if ok && why == "" {
				why = "Job." + f + " accessed under Job.mu"
			}
			r.Ob(ok, fmt.Sprintf("%s|Job.%s#%d", name, f, n[name]), a.in.Pos(), why)
		}
	}
}

var fileOps = map[string]bool{"os.Rename": true, "os.OpenFile": true, "os.Create": true, "os.WriteFile": true, "os.Remove": true, "os.Truncate": true}

func ruleOffsetsFileWriters(c *Ctx, r *Rule) {
	// values derived from the offsets-file names
	derived := func(v ssa.Value) bool {
		found := false
		var walk func(v ssa.Value, d int)
		seen := map[ssa.Value]bool{}
		walk = func(v ssa.Value, d int) {
			if d > 8 || v == nil || seen[v] || found {
				return
			}
			seen[v] = true
			if o, f, _, ok := loadedField(v); ok && o != nil {
				if (o.Obj().Name() == "offsetDB" && (f == "curOffsetsFile" || f == "tmpOffsetsFile")) ||
					(o.Obj().Name() == "Config" && inPkg(o, fileInPkg) && (f == "OffsetsFile" || f == "OffsetsFileTmp")) {
					found = true
					return
				}
			}
			if p, ok := v.(*ssa.Parameter); ok {
				// follow the parameter to the arguments at the static call sites
				if pi := paramIndex(p.Parent(), p); pi >= 0 {
					for _, cs := range c.sitesOf(p.Parent()) {
						if pi < len(cs.Common().Args) {
							walk(cs.Common().Args[pi], d+1)
						}
					}
				}
			}
			if in, ok := v.(ssa.Instruction); ok {
				for _, op := range in.Operands(nil) {
					if *op != nil {
						walk(*op, d+1)
					}
				}
			}
		}
		walk(v, 0)
		return found
	}
	var saver *ssa.Function
	c.eachCall(func(fn *ssa.Function, ci ssa.CallInstruction) {
		f := calleeFunc(ci)
		if f == nil || qualName(f) != "os.Rename" {
			return
		}
		if derived(ci.Common().Args[1]) {
			saver = fn
		}
	})
	if saver == nil {
		r.Unresolved("offsets saver (function renaming onto the offsets file)")
		return
	}
	r.Inst(1)
	c.eachCall(func(fn *ssa.Function, ci ssa.CallInstruction) {
		f := calleeFunc(ci)
		if f == nil || !fileOps[qualName(f)] {
			return
		}
		any := false
		for _, a := range ci.Common().Args {
			if derived(a) {
				any = true
			}
		}
		if !any {
			return
		}
		ok := fn == saver || (fn.Parent() == saver)
		msg := "the offsets file is created/renamed/removed only by the saver (" + c.fnName(saver) + ")"
		if !ok && c.onlyBeforeStart(ci, 2) {
			ok = true
			msg = "operator reset: touches the offsets file only while the job provider is not started (every call chain is control-dependent on !isStarted.Load())"
		}
		r.Ob(ok, c.fnName(fn)+"|"+f.Name(), ci.Pos(), msg)
	})
	// callers of the saver: commit (sync mode), the cyclic saver, stop
	for _, cs := range c.sitesOf(saver) {
		nm := c.fnName(cs.Parent())
		r.Ob(c.pkgOf(cs.Parent()) == "plugin/input/file", nm+"|calls-saver", cs.Pos(), "saver called from the file input only")
	}
}

func rulePersistence(c *Ctx, r *Rule) {
	var saver *ssa.Function
	c.eachCall(func(fn *ssa.Function, ci ssa.CallInstruction) {
		if f := calleeFunc(ci); f != nil && qualName(f) == "os.Rename" && c.pkgOf(fn) == "plugin/input/file" {
			saver = fn
		}
	})
	if saver == nil {
		r.Unresolved("saver")
		return
	}
	r.Inst(1)
	isSave := func(in ssa.Instruction) bool {
		ci, ok := in.(ssa.CallInstruction)
		return ok && calleeFunc(ci) == saver
	}
	modeIs := func(v ssa.Value, pol bool) (isTest bool, isSync bool) {
		v, pol = peelNot(v, pol)
		bo, ok := v.(*ssa.BinOp)
		if !ok || (bo.Op != token.EQL && bo.Op != token.NEQ) {
			return false, false
		}
		_, f, _, okf := loadedField(stripConv(bo.X))
		if !okf || f != "PersistenceMode_" {
			return false, false
		}
		k, isK := constInt(bo.Y)
		if !isK {
			return false, false
		}
		eq := (bo.Op == token.EQL) == pol
		// persistenceModeAsync = 0, persistenceModeSync = 1 (iota order checked by name below)
		return true, (k == 1) == eq
	}
	// sync: after each commit-path Set, every path to return passes the saver unless mode != sync
	c.eachCall(func(fn *ssa.Function, ci ssa.CallInstruction) {
		f := calleeFunc(ci)
		if f == nil || f.Name() != "Set" || len(ci.Common().Args) != 3 {
			return
		}
		if _, ok := isJobOffsetsAddr(ci.Common().Args[0]); !ok {
			return
		}
		if _, isK := constInt(ci.Common().Args[2]); isK {
			return
		}
		edgeOK := func(b *ssa.BasicBlock, i int) bool {
			iff, ok := b.Instrs[len(b.Instrs)-1].(*ssa.If)
			if !ok {
				return true
			}
			if isT, isSync := modeIs(iff.Cond, i == 0); isT && !isSync {
				return false
			}
			return true
		}
		miss, w := c.pathExistsE(fn, ci, isReturn, isSave, edgeOK)
		msg := "in sync persistence mode the offsets file is saved after every stored offset, before commit returns"
		if miss {
			msg = "in sync mode a path from the stored offset returns at " + c.pos(w.Pos()) + " without saving the offsets file"
		}
		r.Ob(!miss, c.fnName(fn)+"|sync-save#"+c.ordinalKey(ci, callsIn(fn)), ci.Pos(), msg)
	})
	// the sync constant really is 1 / async 0
	if p := c.Pkgs[fileInPkg]; p != nil {
		s, a := p.Types.Scope().Lookup("persistenceModeSync"), p.Types.Scope().Lookup("persistenceModeAsync")
		r.Ob(s != nil && a != nil, "constants", token.NoPos, "persistence mode constants exist")
	}
	// async: start launches the cyclic saver under mode == async; the cyclic saver calls the saver in its loop
	var cyclic *ssa.Function
	for _, cs := range c.sitesOf(saver) {
		fn := cs.Parent()
		if cyc, _ := c.pathExists(fn, cs, func(in ssa.Instruction) bool { return in == ssa.Instruction(cs) }, nil); cyc {
			cyclic = fn
		}
	}
	r.Ob(cyclic != nil, "async|cyclic-saver", saver.Pos(), "a periodic saver exists (loop around the saver)")
	if cyclic != nil {
		started := false
		for _, fn := range c.ModFuncs {
			for _, b := range fn.Blocks {
				for _, in := range b.Instrs {
					if g, ok := in.(*ssa.Go); ok && g.Call.StaticCallee() == cyclic {
						for _, l := range c.unitGuards(g) {
							if isT, isSync := modeIs(l.v, l.pol); isT && !isSync {
								started = true
							}
						}
					}
				}
			}
		}
		r.Ob(started, "async|started", cyclic.Pos(), "the periodic saver goroutine is started when the mode is async")
		// its only exit is the stop channel
		for _, ret := range returnsOf(cyclic) {
			_ = ret
		}
	}
	// stop() saves on every path
	for _, cs := range c.sitesOf(saver) {
		fn := cs.Parent()
		if fn.Name() == "stop" {
			miss, _ := c.pathExists(fn, nil, isReturn, isSave)
			r.Ob(!miss, c.fnName(fn)+"|saves-on-stop", cs.Pos(), "stopping the provider saves the last known offsets on every path")
		}
	}
}

func ruleResume(c *Ctx, r *Rule) {
	ro := c.roles()
	r.Inst(1)
	// PassEvent of the file input: `false` only under !(event.Offset > saved)
	for _, t := range c.Implementers(ro.InputPlugin) {
		pe := c.MethodOf(t, "PassEvent")
		if pe == nil || c.pkgOf(pe) != "plugin/input/file" {
			continue
		}
		name := c.fnName(pe)
		nFalse := 0
		for i, ret := range returnsOf(pe) {
			b, isK := constBool(ret.Results[0])
			if !isK {
				r.Ob(false, fmt.Sprintf("%s|return#%d", name, i), ret.Pos(), "PassEvent returns constants on each path")
				continue
			}
			if b {
				continue
			}
			nFalse++
			g := false
			for _, l := range c.unitGuards(ret) {
				if op, x, y, ok := cmpLit(l); ok {
					if op == token.LEQ && isLoadOfField(x, pipelinePkg, "Event", "Offset") && isGetResult(y) {
						g = true
					}
					if op == token.GEQ && isLoadOfField(y, pipelinePkg, "Event", "Offset") && isGetResult(x) {
						g = true
					}
				}
			}
			r.Ob(g, fmt.Sprintf("%s|refuse#%d", name, i), ret.Pos(), "an event is recognised as already committed exactly when its offset <= the saved offset of its stream; guards: "+c.clausesString(c.guards(pe)[ret.Block()]))
		}
		r.Ob(nFalse == 1, name+"|single-refusal", pe.Pos(), fmt.Sprintf("%d refusal sites in PassEvent (expected 1)", nFalse))
	}
	// job initialisation in continue mode seeks to the minimum saved stream offset
	seek := c.Method("plugin/input/file", "Job", "seek")
	if seek == nil {
		r.Unresolved("Job.seek")
		return
	}
	found := false
	for _, cs := range c.sitesOf(seek) {
		arg := cs.Common().Args[1]
		fn := cs.Parent()
		phi, ok := arg.(*ssa.Phi)
		if !ok {
			// the minimum may be computed by a helper / function literal: follow its returned value
			if call, isCall := arg.(*ssa.Call); isCall {
				var callee *ssa.Function
				if f := call.Call.StaticCallee(); f != nil && c.inModule(f) {
					callee = f
				} else if mc, isMC := call.Call.Value.(*ssa.MakeClosure); isMC {
					callee, _ = mc.Fn.(*ssa.Function)
				}
				if callee != nil && callee.Blocks != nil {
					for _, ret := range returnsOf(callee) {
						if rp, isPhi := retResults(ret)[0].(*ssa.Phi); isPhi {
							// only a running-minimum helper (initialised with MaxInt64) is a candidate
							for _, leaf := range phiLeaves(rp) {
								if k, isK := constInt(leaf); isK && k == 1<<63-1 {
									phi, ok, fn = rp, true, callee
								}
							}
						}
					}
				}
			}
		}
		if !ok {
			continue
		}
		// transitive φ closure
		in := map[ssa.Value]bool{}
		var coll func(v ssa.Value, d int)
		coll = func(v ssa.Value, d int) {
			if in[v] || d > 5 {
				return
			}
			in[v] = true
			if p, ok := v.(*ssa.Phi); ok {
				for _, e := range p.Edges {
					coll(e, d+1)
				}
			}
		}
		coll(phi, 0)
		hasMax := false
		for v := range in {
			if k, isK := constInt(v); isK && k == 1<<63-1 {
				hasMax = true
			}
		}
		isMin := false
		for _, b := range fn.Blocks {
			for _, ins := range b.Instrs {
				bo, ok := ins.(*ssa.BinOp)
				if !ok {
					continue
				}
				if bo.Op == token.LSS && in[bo.X] && in[bo.Y] {
					if _, yPhi := bo.Y.(*ssa.Phi); yPhi {
						isMin = true
					}
				}
				if bo.Op == token.GTR && in[bo.X] && in[bo.Y] {
					if _, xPhi := bo.X.(*ssa.Phi); xPhi {
						isMin = true
					}
				}
			}
		}
		found = true
		r.Ob(hasMax && isMin, c.fnName(fn)+"|seek-min", cs.Pos(), "on resume the file is read from the MINIMUM of the saved per-stream offsets (so no stream's unfinished lines are skipped)")
	}
	r.Ob(found, "resume|seek-from-loaded", seek.Pos(), "a seek whose position is computed over the loaded stream offsets exists")
	c.loadedOnlyInStartPhase(r)
}

// loadedOnlyInStartPhase: the table loaded from the offsets file describes the files of the previous
// run; it is never pruned. A file that appears after the start phase is new even when its inode
// number is in the table (inode reuse), so the loaded entry must not be applied to it: the mode value
// under which the initialiser reads the table reaches it only while the provider is not started.
func (c *Ctx) loadedOnlyInStartPhase(r *Rule) {
	var reads []fieldAccess
	for _, a := range c.fieldAccesses(fileInPkg, "jobProvider", "loadedOffsets") {
		if !a.write && a.fn.Signature.Recv() != nil {
			reads = append(reads, a)
		}
	}
	n := 0
	for _, a := range reads {
		fn := a.fn
		// the read is selected by parameter == constant
		pi, kv := -1, int64(0)
		for _, l := range c.unitGuards(a.in) {
			if op, x, y, ok := cmpLit(l); ok && op == token.EQL {
				if k, isK := constInt(y); isK {
					if i := paramIndex(fn, stripConv(x)); i >= 0 {
						pi, kv = i, k
					}
				}
			}
		}
		if pi < 0 {
			continue
		}
		// does this function apply the entry to the job's position (writes Job.offsets or seeks)?
		applies := false
		for _, w := range c.fieldAccesses(fileInPkg, "Job", "offsets") {
			if w.write && w.fn == fn {
				applies = true
			}
		}
		if !applies {
			continue
		}
		for _, cs := range c.sitesOf(fn) {
			n++
			r.Inst(1)
			arg := cs.Common().Args[pi]
			ok := true
			why := ""
			check := func(v ssa.Value, lits []lit) {
				if k, isK := constInt(v); isK && k != kv {
					return
				}
				for _, l := range lits {
					if call, isCall := l.v.(*ssa.Call); isCall && !l.pol {
						if f := call.Call.StaticCallee(); f != nil && f.Name() == "Load" && len(call.Call.Args) == 1 {
							if o, fl, _, ok2 := fieldOf(call.Call.Args[0]); ok2 && isField(o, fl, fileInPkg, "jobProvider", "isStarted") {
								return
							}
						}
					}
				}
				ok = false
				why = c.path(v)
			}
			if phi, isPhi := arg.(*ssa.Phi); isPhi {
				fi := c.info(cs.Parent())
				c.guards(cs.Parent())
				for i, e := range phi.Edges {
					check(e, append(unitLits(c.edgeFacts(fi, phi.Block().Preds[i], phi.Block())), c.unitGuards(cs)...))
				}
			} else {
				check(arg, c.unitGuards(cs))
			}
			r.Ob(ok, fmt.Sprintf("%s|loaded-entry-only-in-start-phase", c.fnName(cs.Parent())), cs.Pos(),
				"the initialiser may apply the loaded offsets (mode "+fmt.Sprint(kv)+") only to a file found while the provider is not started; a file that appears later is new even if its inode number is in the loaded table"+ifs(why != "", "; mode value "+why+" reaches it after the start"))
		}
	}
	r.Ob(n >= 1, "resume|initialiser-call-sites", token.NoPos, fmt.Sprintf("call sites of the function that applies the loaded table to a job: %d", n))
}

// onlyBeforeStart: the instruction is control-dependent on jobProvider.isStarted.Load() == false,
// locally or at every static call site (bounded).
func (c *Ctx) onlyBeforeStart(in ssa.Instruction, depth int) bool {
	for _, l := range c.unitGuards(in) {
		if call, ok := l.v.(*ssa.Call); ok && !l.pol {
			if f := call.Call.StaticCallee(); f != nil && f.Name() == "Load" && len(call.Call.Args) == 1 {
				if o, fl, _, ok := fieldOf(call.Call.Args[0]); ok && isField(o, fl, fileInPkg, "jobProvider", "isStarted") {
					return true
				}
			}
		}
	}
	if depth == 0 {
		return false
	}
	sites := c.sitesOf(in.Parent())
	if len(sites) == 0 {
		return false
	}
	for _, s := range sites {
		if !c.onlyBeforeStart(s, depth-1) {
			return false
		}
	}
	return true
}

// dynamicallyCallable: some interface-method call site in the module can dispatch to fn.
func (c *Ctx) dynamicallyCallable(fn *ssa.Function) bool {
	if fn.Signature.Recv() == nil {
		return false
	}
	rt := fn.Signature.Recv().Type()
	found := false
	c.eachCall(func(_ *ssa.Function, ci ssa.CallInstruction) {
		cc := ci.Common()
		if found || !cc.IsInvoke() || cc.Method.Name() != fn.Name() {
			return
		}
		if it, ok := cc.Value.Type().Underlying().(*types.Interface); ok {
			if types.Implements(rt, it) || types.Implements(types.NewPointer(rt), it) {
				found = true
			}
		}
	})
	return found
}

// ruleLineOffsetsFresh: with every line the reader hands over the offsets its job has committed so far
// per stream; the pipeline uses them to drop lines that were already delivered (offset below the
// stream's committed offset). They must be this job's own offsets as of this round: a copy made from
// Job.offsets — not a buffer that still holds the entries of another job, whose larger offsets would
// make fresh lines look already delivered.
func ruleLineOffsetsFresh(c *Ctx, r *Rule) {
	s := c.fileReader()
	if s.in == nil {
		r.Unresolved("the file reader's In call")
		return
	}
	no, ok := s.in.Common().Args[2].(*ssa.Call)
	if !ok || no.Call.StaticCallee() == nil || no.Call.StaticCallee().Name() != "NewOffsets" || len(no.Call.Args) < 2 {
		r.Unresolved("pipeline.NewOffsets at the In call")
		return
	}
	r.Inst(1)
	bad := ""
	for _, leaf := range phiLeaves(stripConv(no.Call.Args[1])) {
		leaf = stripConv(leaf)
		okLeaf := false
		switch x := leaf.(type) {
		case *ssa.Call:
			// job.offsets.Copy()
			if f := x.Call.StaticCallee(); f != nil && f.Name() == "Copy" && len(x.Call.Args) == 1 {
				if o, fl, _, okf := fieldOf(x.Call.Args[0]); okf && isField(o, fl, fileInPkg, "Job", "offsets") {
					okLeaf = true
				}
				if isLoadOfField(x.Call.Args[0], fileInPkg, "Job", "offsets") {
					okLeaf = true
				}
			}
			// append(buf[:0], job.offsets...)
			if app, isApp := isBuiltinCall(x, "append"); isApp && len(app.Call.Args) == 2 && isLoadOfField(stripConv(app.Call.Args[1]), fileInPkg, "Job", "offsets") {
				if sl, isSl := stripConv(app.Call.Args[0]).(*ssa.Slice); isSl && sl.High != nil {
					if k, isK := constInt(sl.High); isK && k == 0 {
						okLeaf = true
					}
				}
				if isNilConst(app.Call.Args[0]) {
					okLeaf = true
				}
			}
		}
		if !okLeaf {
			bad = c.path(leaf)
		}
	}
	r.Ob(bad == "", "worker.work|line-offsets-are-a-fresh-copy", s.in.Pos(), "the per-stream offsets handed over with a line are a fresh copy of this job's committed offsets"+ifs(bad != "", "; found "+bad+" (a buffer kept between jobs still holds other files' stream offsets, and lines of a new file below them are dropped as already delivered)"))
}
