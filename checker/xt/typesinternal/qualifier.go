// Copyright 2024 The Go Authors. All rights reserved.
// Use of this source code is governed by a BSD-style
// license that can be found in the LICENSE file.

package typesinternal

import (
	"go/ast"
	"go/types"
	"strconv"
)

// FileQualifier returns a [types.Qualifier] function that qualifies
// imported symbols appropriately based on the import environment of a given
// file.
// If the same package is imported multiple times, the last appearance is
// recorded.
func FileQualifier(f *ast.File, pkg *types.Package) types.Qualifier {
	// Construct mapping of import paths to their defined names.
	// It is only necessary to look at renaming imports.
	imports := make(map[string]string)
	for _, imp := range f.Imports {
		if imp.Name != nil && imp.Name.Name != "_" {
			path, _ := strconv.Unquote(imp.Path.Value)
			imports[path] = imp.Name.Name
		}
	}

	// Define qualifier to replace full package paths with names of the imports.
	return func(p *types.Package) string {
		if p == nil || p == pkg {
			return ""
		}

		if name, ok := imports[p.Path()]; ok {
			if name == "." {
				return ""
			} else {
				return name
			}
		}

		// If there is no local renaming, fall back to the package name.
		return p.Name()
	}
}
