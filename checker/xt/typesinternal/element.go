// Copyright 2024 The Go Authors. All rights reserved.
// Use of this source code is governed by a BSD-style
// license that can be found in the LICENSE file.

package typesinternal

import (
	"fmt"
	"go/types"

	"golang.org/x/tools/go/types/typeutil"
)

// ForEachElement calls f for type T and each type reachable from its
// type through reflection. It does this by recursively stripping off
// type constructors; in addition, for each named type N, the type *N
// is added to the result as it may have additional methods.
//
// The caller must provide an initially empty set used to de-duplicate
// identical types, potentially across multiple calls to ForEachElement.
// (Its final value holds all the elements seen, matching the arguments
// passed to f.)
//
// TODO(adonovan): share/harmonize with go/callgraph/rta.
func ForEachElement(rtypes *typeutil.Map, msets *typeutil.MethodSetCache, T types.Type, f func(types.Type)) {
	var visit func(T types.Type, skip bool)
	visit = func(T types.Type, skip bool) {
		if !skip {
			if seen, _ := rtypes.Set(T, true).(bool); seen {
				return // de-dup
			}

			f(T) // notify caller of new element type
		}

		// Recursion over signatures of each method.
		tmset := msets.MethodSet(T)
		for i := 0; i < tmset.Len(); i++ {
			sig := tmset.At(i).Type().(*types.Signature)
			// It is tempting to call visit(sig, false)
			// but, as noted in golang.org/cl/65450043,
			// the Signature.Recv field is ignored by
			// types.Identical and typeutil.Map, which
			// is confusing at best.
			//
			// More importantly, the true signature rtype
			// reachable from a method using reflection
			// has no receiver but an extra ordinary parameter.
			// For the Read method of io.Reader we want:
			//   func(Reader, []byte) (int, error)
			// but here sig is:
			//   func([]byte) (int, error)
			// with .Recv = Reader (though it is hard to
			// notice because it doesn't affect Signature.String
			// or types.Identical).
			//
			// TODO(adonovan): construct and visit the correct
			// non-method signature with an extra parameter
			// (though since unnamed func types have no methods
			// there is essentially no actual demand for this).
			//
			// TODO(adonovan): document whether or not it is
			// safe to skip non-exported methods (as RTA does).
			visit(sig.Params(), true)  // skip the Tuple
			visit(sig.Results(), true) // skip the Tuple
		}

		switch T := T.(type) {
		case *types.Alias:
			visit(types.Unalias(T), skip) // emulates the pre-Alias behavior

		case *types.Basic:
			// nop

		case *types.Interface:
			// nop---handled by recursion over method set.

		case *types.Pointer:
			visit(T.Elem(), false)

		case *types.Slice:
			visit(T.Elem(), false)

		case *types.Chan:
			visit(T.Elem(), false)

		case *types.Map:
			visit(T.Key(), false)
			visit(T.Elem(), false)

		case *types.Signature:
			if T.Recv() != nil {
				panic(fmt.Sprintf("Signature %s has Recv %s", T, T.Recv()))
			}
			visit(T.Params(), true)  // skip the Tuple
			visit(T.Results(), true) // skip the Tuple

		case *types.Named:
			// A pointer-to-named type can be derived from a named
			// type via reflection.  It may have methods too.
			visit(types.NewPointer(T), false)

			// Consider 'type T struct{S}' where S has methods.
			// Reflection provides no way to get from T to struct{S},
			// only to S, so the method set of struct{S} is unwanted,
			// so set 'skip' flag during recursion.
			visit(T.Underlying(), true) // skip the unnamed type

		case *types.Array:
			visit(T.Elem(), false)

		case *types.Struct:
			for i, n := 0, T.NumFields(); i < n; i++ {
				// TODO(adonovan): document whether or not
				// it is safe to skip non-exported fields.
				visit(T.Field(i).Type(), false)
			}

		case *types.Tuple:
			for i, n := 0, T.Len(); i < n; i++ {
				visit(T.At(i).Type(), false)
			}

		case *types.TypeParam, *types.Union:
			// forEachReachable must not be called on parameterized types.
			panic(T)

		default:
			panic(T)
		}
	}
	visit(T, false)
}
