// Copyright 2024 The Go Authors. All rights reserved.
// Use of this source code is governed by a BSD-style
// license that can be found in the LICENSE file.

package aliases

import (
	"go/token"
	"go/types"
)

// Package aliases defines backward compatible shims
// for the types.Alias type representation added in 1.22.
// This defines placeholders for x/tools until 1.26.

// NewAlias creates a new TypeName in Package pkg that
// is an alias for the type rhs.
//
// The enabled parameter determines whether the resulting [TypeName]'s
// type is an [types.Alias]. Its value must be the result of a call to
// [Enabled], which computes the effective value of
// GODEBUG=gotypesalias=... by invoking the type checker. The Enabled
// function is expensive and should be called once per task (e.g.
// package import), not once per call to NewAlias.
//
// Precondition: enabled || len(tparams)==0.
// If materialized aliases are disabled, there must not be any type parameters.
func NewAlias(enabled bool, pos token.Pos, pkg *types.Package, name string, rhs types.Type, tparams []*types.TypeParam) *types.TypeName {
	if enabled {
		tname := types.NewTypeName(pos, pkg, name, nil)
		SetTypeParams(types.NewAlias(tname, rhs), tparams)
		return tname
	}
	if len(tparams) > 0 {
		panic("cannot create an alias with type parameters when gotypesalias is not enabled")
	}
	return types.NewTypeName(pos, pkg, name, rhs)
}
