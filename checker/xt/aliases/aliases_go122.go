// Copyright 2024 The Go Authors. All rights reserved.
// Use of this source code is governed by a BSD-style
// license that can be found in the LICENSE file.

package aliases

import (
	"go/ast"
	"go/parser"
	"go/token"
	"go/types"
)

// Rhs returns the type on the right-hand side of the alias declaration.
func Rhs(alias *types.Alias) types.Type {
	if alias, ok := any(alias).(interface{ Rhs() types.Type }); ok {
		return alias.Rhs() // go1.23+
	}

	// go1.22's Alias didn't have the Rhs method,
	// so Unalias is the best we can do.
	return types.Unalias(alias)
}

// TypeParams returns the type parameter list of the alias.
func TypeParams(alias *types.Alias) *types.TypeParamList {
	if alias, ok := any(alias).(interface{ TypeParams() *types.TypeParamList }); ok {
		return alias.TypeParams() // go1.23+
	}
	return nil
}

// SetTypeParams sets the type parameters of the alias type.
func SetTypeParams(alias *types.Alias, tparams []*types.TypeParam) {
	if alias, ok := any(alias).(interface {
		SetTypeParams(tparams []*types.TypeParam)
	}); ok {
		alias.SetTypeParams(tparams) // go1.23+
	} else if len(tparams) > 0 {
		panic("cannot set type parameters of an Alias type in go1.22")
	}
}

// TypeArgs returns the type arguments used to instantiate the Alias type.
func TypeArgs(alias *types.Alias) *types.TypeList {
	if alias, ok := any(alias).(interface{ TypeArgs() *types.TypeList }); ok {
		return alias.TypeArgs() // go1.23+
	}
	return nil // empty (go1.22)
}

// Origin returns the generic Alias type of which alias is an instance.
// If alias is not an instance of a generic alias, Origin returns alias.
func Origin(alias *types.Alias) *types.Alias {
	if alias, ok := any(alias).(interface{ Origin() *types.Alias }); ok {
		return alias.Origin() // go1.23+
	}
	return alias // not an instance of a generic alias (go1.22)
}

// Enabled reports whether [NewAlias] should create [types.Alias] types.
//
// This function is expensive! Call it sparingly.
func Enabled() bool {
	// The only reliable way to compute the answer is to invoke go/types.
	// We don't parse the GODEBUG environment variable, because
	// (a) it's tricky to do so in a manner that is consistent
	//     with the godebug package; in particular, a simple
	//     substring check is not good enough. The value is a
	//     rightmost-wins list of options. But more importantly:
	// (b) it is impossible to detect changes to the effective
	//     setting caused by os.Setenv("GODEBUG"), as happens in
	//     many tests. Therefore any attempt to cache the result
	//     is just incorrect.
	fset := token.NewFileSet()
	f, _ := parser.ParseFile(fset, "a.go", "package p; type A = int", parser.SkipObjectResolution)
	pkg, _ := new(types.Config).Check("p", fset, []*ast.File{f}, nil)
	_, enabled := pkg.Scope().Lookup("A").Type().(*types.Alias)
	return enabled
}
