package main

import (
	"go/token"
	"go/types"

	"golang.org/x/tools/go/ssa"
)

// Roles: slots of the rule templates, filled from the repository by role.
type roles struct {
	done bool

	InputPlugin, OutputPlugin, ActionPlugin                                    *types.Named
	InputCtl, OutputCtl, ActionCtl                                             *types.Named
	inCommit, outCommit, outOut, ctlIn, actDo, actPropagate, inPass, ctlSpread *types.Func

	notifySites []ssa.CallInstruction // invoke sites of InputPlugin.Commit outside implementations of it
	ackSites    []ssa.CallInstruction // invoke sites of OutputPluginController.Commit
}

func (c *Ctx) roles() *roles {
	if c.r != nil {
		return c.r
	}
	r := &roles{}
	c.r = r
	r.InputPlugin = c.Named("pipeline", "InputPlugin")
	r.OutputPlugin = c.Named("pipeline", "OutputPlugin")
	r.ActionPlugin = c.Named("pipeline", "ActionPlugin")
	r.InputCtl = c.Named("pipeline", "InputPluginController")
	r.OutputCtl = c.Named("pipeline", "OutputPluginController")
	r.ActionCtl = c.Named("pipeline", "ActionPluginController")
	r.inCommit = c.IfaceMethod("pipeline", "InputPlugin", "Commit")
	r.inPass = c.IfaceMethod("pipeline", "InputPlugin", "PassEvent")
	r.outCommit = c.IfaceMethod("pipeline", "OutputPluginController", "Commit")
	r.outOut = c.IfaceMethod("pipeline", "OutputPlugin", "Out")
	r.ctlIn = c.IfaceMethod("pipeline", "InputPluginController", "In")
	r.ctlSpread = c.IfaceMethod("pipeline", "InputPluginController", "UseSpread")
	r.actDo = c.IfaceMethod("pipeline", "ActionPlugin", "Do")
	r.actPropagate = c.IfaceMethod("pipeline", "ActionPluginController", "Propagate")
	if r.InputPlugin == nil || r.inCommit == nil || r.OutputCtl == nil || r.outCommit == nil {
		return r
	}
	c.eachCall(func(fn *ssa.Function, ci ssa.CallInstruction) {
		if invokesMethod(ci, r.inCommit) || c.callsImplOf(ci, r.InputPlugin, r.inCommit) {
			if !c.isImplOf(fn, r.InputPlugin, r.inCommit) {
				r.notifySites = append(r.notifySites, ci)
			}
		}
		if invokesMethod(ci, r.outCommit) || c.callsImplOf(ci, r.OutputCtl, r.outCommit) {
			r.ackSites = append(r.ackSites, ci)
		}
	})
	return r
}

// isImplOf: fn is a concrete method implementing iface method m.
func (c *Ctx) isImplOf(fn *ssa.Function, iface *types.Named, m *types.Func) bool {
	if fn == nil || fn.Signature.Recv() == nil || fn.Name() != m.Name() || iface == nil {
		return false
	}
	rt := fn.Signature.Recv().Type()
	it := iface.Underlying().(*types.Interface)
	return types.Implements(rt, it) || types.Implements(types.NewPointer(rt), it)
}

// callThroughField: the call's function value is loaded from struct field owner.field.
func callThroughField(ci ssa.CallInstruction) (owner *types.Named, field string, base ssa.Value, ok bool) {
	cc := ci.Common()
	if cc.IsInvoke() {
		return nil, "", nil, false
	}
	return loadedField(cc.Value)
}

// invokeOnField: interface-method call whose receiver value is loaded from a struct field.
func invokeOnField(ci ssa.CallInstruction) (owner *types.Named, field string, base ssa.Value, ok bool) {
	cc := ci.Common()
	if !cc.IsInvoke() {
		return nil, "", nil, false
	}
	return loadedField(cc.Value)
}

// recvNamed: the named receiver type of a method (nil for functions).
func recvNamed(fn *ssa.Function) *types.Named {
	if fn == nil || fn.Signature.Recv() == nil {
		return nil
	}
	return namedOf(fn.Signature.Recv().Type())
}

func inPkg(n *types.Named, path string) bool {
	return n != nil && n.Obj().Pkg() != nil && n.Obj().Pkg().Path() == path
}

// cmpLit matches a literal "x OP y" (after applying the literal's polarity) and returns the
// effective operator and operands.
func cmpLit(l lit) (op token.Token, x, y ssa.Value, ok bool) {
	b, isB := l.v.(*ssa.BinOp)
	if !isB {
		return 0, nil, nil, false
	}
	op = b.Op
	if !l.pol {
		switch op {
		case token.EQL:
			op = token.NEQ
		case token.NEQ:
			op = token.EQL
		case token.LSS:
			op = token.GEQ
		case token.LEQ:
			op = token.GTR
		case token.GTR:
			op = token.LEQ
		case token.GEQ:
			op = token.LSS
		default:
			return 0, nil, nil, false
		}
	}
	switch op {
	case token.EQL, token.NEQ, token.LSS, token.LEQ, token.GTR, token.GEQ:
		return op, viaArg(b.X, l.via), viaArg(b.Y, l.via), true
	}
	return 0, nil, nil, false
}

// viaArg: a literal imported from inside a boolean helper speaks about the helper's parameters;
// as an operand of a comparison, a parameter stands for the argument at the call it came through.
func viaArg(v ssa.Value, via *ssa.Call) ssa.Value {
	if via == nil {
		return v
	}
	p, ok := v.(*ssa.Parameter)
	if !ok {
		if cv, isConv := v.(*ssa.Convert); isConv {
			if pp, isP := cv.X.(*ssa.Parameter); isP {
				p, ok = pp, true
			}
		}
		if !ok {
			return v
		}
	}
	f := via.Call.StaticCallee()
	if f == nil {
		if mc, isMC := via.Call.Value.(*ssa.MakeClosure); isMC {
			f, _ = mc.Fn.(*ssa.Function)
		}
	}
	if f == nil || p.Parent() != f {
		return v
	}
	for i, fp := range f.Params {
		if fp == p && i < len(via.Call.Args) {
			return via.Call.Args[i]
		}
	}
	return v
}

// stripConv removes value-preserving conversions.
func stripConv(v ssa.Value) ssa.Value {
	for i := 0; i < 16; i++ {
		switch x := v.(type) {
		case *ssa.UnOp:
			// a load from a variable cell that is written exactly once (a local captured by a function
			// literal, or the captured variable seen from inside the literal) reads that value
			if x.Op == token.MUL {
				if sv := cellValue(x.X); sv != nil {
					v = sv
					continue
				}
			}
			return v
		case *ssa.Convert:
			v = x.X
		case *ssa.ChangeType:
			v = x.X
		case *ssa.MakeInterface:
			v = x.X
		case *ssa.ChangeInterface:
			v = x.X
		case *ssa.Parameter:
			// the parameter of a function literal called where it is made is its argument
			if x.Parent() == nil || x.Parent().Parent() == nil {
				return v
			}
			arg, _ := inPlaceArg(x)
			if arg == nil {
				return v
			}
			v = arg
		default:
			return v
		}
	}
	return v
}

// cellValue: the single value ever stored into the variable cell addr (an Alloc, or a captured
// variable whose cell is an Alloc of the enclosing function bound at the only place the literal is made).
func cellValue(addr ssa.Value) ssa.Value {
	switch a := addr.(type) {
	case *ssa.Alloc:
		return singleStore(a)
	case *ssa.FreeVar:
		lit := a.Parent()
		if lit == nil || lit.Parent() == nil {
			return nil
		}
		idx := -1
		for i, fv := range lit.FreeVars {
			if fv == a {
				idx = i
			}
		}
		var cell ssa.Value
		n := 0
		for _, b := range lit.Parent().Blocks {
			for _, in := range b.Instrs {
				if mc, ok := in.(*ssa.MakeClosure); ok && mc.Fn == ssa.Value(lit) && idx >= 0 && idx < len(mc.Bindings) {
					cell = mc.Bindings[idx]
					n++
				}
			}
		}
		if n != 1 {
			return nil
		}
		return cellValue(cell)
	}
	return nil
}

// isLoadOfField: v == load of owner(pkg.typ).field
func isLoadOfField(v ssa.Value, pkgPath, typ, field string) bool {
	o, f, _, ok := loadedField(stripConv(v))
	return ok && isField(o, f, pkgPath, typ, field)
}

// heldInterproc: is lock ref held before instruction in — in its own function, or, when the
// lock is rooted at a parameter and not touched locally, at every call site of the function
// (bounded depth)? Returns a reason on failure.
func (c *Ctx) heldInterproc(in ssa.Instruction, ref lockRef, depth int) (bool, string) {
	fn := in.Parent()
	flow := c.flowMust(fn)
	if _, ok := flow.at(in)[ref.key()]; ok {
		return true, ""
	}
	// a function literal: a lock rooted at a captured variable is the enclosing function's lock
	if sites, refs, ok := c.closureLockSites(in, ref); ok && depth > 0 {
		for i, s := range sites {
			if ok2, w := c.heldInterproc(s, refs[i], depth-1); !ok2 {
				return false, "lock " + c.lockString(ref) + " not held around the function literal " + c.fnName(fn) + ": " + w
			}
		}
		return true, ""
	}
	pi := paramIndex(fn, ref.root)
	if pi < 0 {
		return false, "lock " + c.lockString(ref) + " not held in " + c.fnName(fn)
	}
	if depth <= 0 {
		return false, "lock " + c.lockString(ref) + " not held in " + c.fnName(fn) + " (caller depth bound reached: undecided)"
	}
	// assume the lock is held on entry: it must still be held at `in` (the function may release it first)
	if _, ok := c.lockFlow(fn, lockset{ref.key(): ref}, true).at(in)[ref.key()]; !ok {
		return false, "lock " + c.lockString(ref) + " is released in " + c.fnName(fn) + " before this point"
	}
	sites := c.sitesOf(fn)
	if len(sites) == 0 {
		return false, "lock " + c.lockString(ref) + " not held in " + c.fnName(fn) + " and no static caller found"
	}
	for _, s := range sites {
		if _, isGo := s.(*ssa.Go); isGo {
			return false, "lock " + c.lockString(ref) + " required by " + c.fnName(fn) + " which is started as a goroutine in " + c.fnName(s.Parent())
		}
		args := s.Common().Args
		if pi >= len(args) {
			return false, "cannot map parameter at call in " + c.fnName(s.Parent())
		}
		r := refOf(args[pi])
		r.path += ref.path
		if ok, why := c.heldInterproc(s, r, depth-1); !ok {
			return false, why + " (via call in " + c.fnName(s.Parent()) + " at " + c.pos(s.Pos()) + ")"
		}
	}
	return true, ""
}

func (c *Ctx) flowMust(fn *ssa.Function) *lockFlowResult {
	if c.flows == nil {
		c.flows = map[*ssa.Function]*lockFlowResult{}
	}
	if f, ok := c.flows[fn]; ok {
		return f
	}
	f := c.lockFlow(fn, lockset{}, true)
	c.flows[fn] = f
	return f
}

// closureLockSites: `in` is inside a function literal and the lock is rooted at one of its captured
// variables and not released before `in`: the call sites of the literal (where it is made and called)
// with the lock expressed in the enclosing function's terms.
func (c *Ctx) closureLockSites(in ssa.Instruction, ref lockRef) ([]ssa.CallInstruction, []lockRef, bool) {
	fn := in.Parent()
	if fn.Parent() == nil {
		return nil, nil, false
	}
	// the lock is named by a value of an enclosing function (field bases are canonicalised through
	// captured-variable cells): it must be held where the literal is called
	if rp := valueParent(ref.root); rp != nil && rp != fn && nestedIn(fn, rp) {
		sites := c.sitesOf(fn)
		if len(sites) == 0 {
			return nil, nil, false
		}
		var refs []lockRef
		for _, s := range sites {
			if _, isGo := s.(*ssa.Go); isGo {
				return nil, nil, false
			}
			if _, isMC := s.Common().Value.(*ssa.MakeClosure); !isMC {
				return nil, nil, false
			}
			refs = append(refs, ref)
		}
		return sites, refs, true
	}
	fv, isFV := ref.root.(*ssa.FreeVar)
	if !isFV {
		return nil, nil, false
	}
	idx := -1
	for i, v := range fn.FreeVars {
		if v == fv {
			idx = i
		}
	}
	if idx < 0 {
		return nil, nil, false
	}
	if _, ok := c.lockFlow(fn, lockset{ref.key(): ref}, true).at(in)[ref.key()]; !ok {
		return nil, nil, false
	}
	sites := c.sitesOf(fn)
	if len(sites) == 0 {
		return nil, nil, false
	}
	var refs []lockRef
	for _, s := range sites {
		if _, isGo := s.(*ssa.Go); isGo {
			return nil, nil, false
		}
		mc, isMC := s.Common().Value.(*ssa.MakeClosure)
		if !isMC || idx >= len(mc.Bindings) {
			return nil, nil, false
		}
		var r lockRef
		if al, isAl := mc.Bindings[idx].(*ssa.Alloc); isAl && singleStore(al) != nil {
			r = refOf(singleStore(al))
		} else {
			r = refOf(mc.Bindings[idx])
		}
		r.path += ref.path
		refs = append(refs, r)
	}
	return sites, refs, true
}

func valueParent(v ssa.Value) *ssa.Function {
	switch x := v.(type) {
	case *ssa.Parameter:
		return x.Parent()
	case *ssa.FreeVar:
		return x.Parent()
	case ssa.Instruction:
		return x.Parent()
	}
	return nil
}

// cellAddr: the variable cell an address denotes: a captured variable is the enclosing function's
// cell bound at the one place the literal is made.
func cellAddr(addr ssa.Value) ssa.Value {
	for i := 0; i < 4; i++ {
		fv, ok := addr.(*ssa.FreeVar)
		if !ok {
			return addr
		}
		lit := fv.Parent()
		if lit == nil || lit.Parent() == nil {
			return addr
		}
		idx := -1
		for j, v := range lit.FreeVars {
			if v == fv {
				idx = j
			}
		}
		var cell ssa.Value
		n := 0
		for _, b := range lit.Parent().Blocks {
			for _, in := range b.Instrs {
				if mc, isMC := in.(*ssa.MakeClosure); isMC && mc.Fn == ssa.Value(lit) && idx >= 0 && idx < len(mc.Bindings) {
					cell = mc.Bindings[idx]
					n++
				}
			}
		}
		if n != 1 {
			return addr
		}
		addr = cell
	}
	return addr
}
