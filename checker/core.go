package main

import (
	"encoding/json"
	"fmt"
	"go/token"
	"os"
	"path/filepath"
	"sort"
	"strings"
	"time"

	"golang.org/x/tools/go/ssa"
)

// A Finding is one violated obligation. Key = "<rule>|<construct>" and never
// contains a line number: it is what known_findings.json matches on.
type Finding struct {
	Rule string `json:"rule"`
	Key  string `json:"key"`
	NKey string `json:"nkey,omitempty"` // name-free form of the key (see Ctx.normPath)
	Pos  string `json:"pos"`
	Msg  string `json:"msg"`
}

// Rule collects what one rule did on this run.
type Rule struct {
	ID          string    `json:"id"`
	Engine      string    `json:"engine"`
	Desc        string    `json:"desc"`
	Instances   int       `json:"instances_found"`
	Floor       int       `json:"floor"`
	Obligations int       `json:"obligations"`
	Discharged  int       `json:"discharged"`
	Reviewed    int       `json:"reviewed"`
	Known       int       `json:"known_findings"`
	Violations  []Finding `json:"violations"`
	Samples     []string  `json:"samples,omitempty"`
	Notes       []string  `json:"notes,omitempty"`

	ctx  *Ctx
	keys map[string]bool
}

// Ob records one obligation. ok=false makes it a finding.
func (r *Rule) Ob(ok bool, construct string, pos token.Pos, msg string) {
	r.Obligations++
	key := r.ID + "|" + construct
	r.keys[key] = true
	if dumpKeys != nil {
		dumpKeys = append(dumpKeys, fmt.Sprintf("%s\t%v", key, ok))
	}
	p := r.ctx.pos(pos)
	if ok {
		r.Discharged++
		if len(r.Samples) < 6 {
			r.Samples = append(r.Samples, fmt.Sprintf("%s: ok %s: %s", p, key, msg))
		}
		return
	}
	r.Violations = append(r.Violations, Finding{Rule: r.ID, Key: key, Pos: p, Msg: msg})
}

// ObN: an obligation that also has a name-free key; the reviewed table and the known findings match
// either form, so a renamed local or a rewritten loop does not turn a reviewed obligation into an alarm.
func (r *Rule) ObN(ok bool, construct, nconstruct string, pos token.Pos, msg string) {
	r.Ob(ok, construct, pos, msg)
	if !ok && len(r.Violations) > 0 {
		r.Violations[len(r.Violations)-1].NKey = r.ID + "|" + nconstruct
	}
}

// Inst counts one matched instance of the rule's template (for the floor).
func (r *Rule) Inst(n int) { r.Instances += n }

// Unresolved: a slot of the rule template could not be filled.
func (r *Rule) Unresolved(what string) {
	r.Obligations++
	r.Violations = append(r.Violations, Finding{Rule: r.ID, Key: r.ID + "|UNRESOLVED-ANCHOR|" + what, Pos: "-", Msg: "UNRESOLVED-ANCHOR: " + what})
}

func (r *Rule) Note(format string, a ...any) { r.Notes = append(r.Notes, fmt.Sprintf(format, a...)) }

// dumpKeys (FDCHECK_DUMP_KEYS=<file>): every obligation key with its verdict, for comparing runs.
var dumpKeys []string

type ruleFn func(c *Ctx, r *Rule)

type ruleDef struct {
	id     string
	engine string
	desc   string
	floor  int
	fn     ruleFn
}

var registry = map[string][]ruleDef{}

func reg(prop, id, engine, desc string, floor int, fn ruleFn) {
	registry[prop] = append(registry[prop], ruleDef{id, engine, desc, floor, fn})
}

type knownFinding struct {
	Property string `json:"property"`
	Key      string `json:"key"`
	NKey     string `json:"nkey,omitempty"`
	Status   string `json:"status"` // "known" | "fixed"
	Commit   string `json:"commit,omitempty"`
	What     string `json:"what"`
}

type reviewedEntry struct {
	Property string `json:"property"`
	Key      string `json:"key"` // "<rule>|<construct>"
	NKey     string `json:"nkey,omitempty"`
	Reason   string `json:"reason"`
}

func verifDir() string {
	if d := os.Getenv("VERIF_DIR"); d != "" {
		return d
	}
	exe, err := os.Executable()
	if err == nil {
		d := filepath.Dir(filepath.Dir(exe))
		if _, err := os.Stat(filepath.Join(d, "properties.jsonl")); err == nil {
			return d
		}
	}
	return "/verif"
}

func loadKnown() ([]knownFinding, error) {
	var out []knownFinding
	b, err := os.ReadFile(filepath.Join(verifDir(), "known_findings.json"))
	if err != nil {
		if os.IsNotExist(err) {
			return nil, nil
		}
		return nil, err
	}
	if err := json.Unmarshal(b, &out); err != nil {
		return nil, err
	}
	return out, nil
}

func loadReviewed() (map[string]string, error) {
	out := map[string]string{}
	b, err := os.ReadFile(filepath.Join(verifDir(), "reviewed_obligations.json"))
	if err != nil {
		if os.IsNotExist(err) {
			return out, nil
		}
		return nil, err
	}
	var l []reviewedEntry
	if err := json.Unmarshal(b, &l); err != nil {
		return nil, err
	}
	for _, e := range l {
		out[e.Key] = e.Reason
		if e.NKey != "" {
			if _, dup := out["~"+e.NKey]; !dup {
				out["~"+e.NKey] = e.Reason
			}
		}
	}
	return out, nil
}

// runProperty runs every rule of a property and returns the rules.
func runProperty(c *Ctx, prop string) []*Rule {
	defs := registry[prop]
	var out []*Rule
	for _, d := range defs {
		r := &Rule{ID: d.id, Engine: d.engine, Desc: d.desc, Floor: d.floor, ctx: c, keys: map[string]bool{}}
		func() {
			defer func() {
				if e := recover(); e != nil {
					if os.Getenv("FDCHECK_DEBUG") != "" {
						panic(e)
					}
					r.Obligations++
					r.Violations = append(r.Violations, Finding{Rule: r.ID, Key: r.ID + "|ANALYZER-PANIC", Pos: "-", Msg: fmt.Sprintf("analyzer panic: %v", e)})
				}
			}()
			d.fn(c, r)
		}()
		if r.Instances < r.Floor {
			r.Obligations++
			r.Violations = append(r.Violations, Finding{Rule: r.ID, Key: r.ID + "|VACUOUS", Pos: "-",
				Msg: fmt.Sprintf("VACUOUS rule=%s found=%d floor=%d: the rule template matched fewer instances than confirmed by hand", r.ID, r.Instances, r.Floor)})
		}
		out = append(out, r)
	}
	return out
}

type evidence struct {
	PropertyID  string         `json:"property_id"`
	Tier        string         `json:"tier"`
	Seed        int            `json:"seed"`
	Level       string         `json:"level"`
	Coverage    map[string]any `json:"coverage"`
	Assumptions []string       `json:"assumptions"`
	WallS       float64        `json:"wall_s"`
	Violations  int            `json:"violations"`
}

var explanations = map[string]string{}
var assumptions = map[string][]string{}

func explain(prop, text string, assume ...string) {
	explanations[prop] = text
	assumptions[prop] = assume
}

// finish applies the reviewed table and the known findings, writes the evidence and the
// violations file, prints the report and returns the exit code.
func finish(c *Ctx, prop, tier string, seed int, rules []*Rule, selftest map[string]any, start time.Time) int {
	known, err := loadKnown()
	if err != nil {
		fmt.Printf("cannot read known_findings.json: %v\n", err)
		return 2
	}
	reviewed, err := loadReviewed()
	if err != nil {
		fmt.Printf("cannot read reviewed_obligations.json: %v\n", err)
		return 2
	}
	var unlisted []Finding
	var knownLines []string
	totalOb, totalDis, totalRev, totalKnown := 0, 0, 0, 0
	keys := map[string]bool{}
	var samples []string
	for _, r := range rules {
		var keep []Finding
		for _, f := range r.Violations {
			reason, ok := reviewed[f.Key]
			if !ok && f.NKey != "" {
				reason, ok = reviewed["~"+f.NKey]
			}
			if ok {
				r.Reviewed++
				if len(r.Samples) < 8 {
					r.Samples = append(r.Samples, fmt.Sprintf("%s: reviewed %s: %s [%s]", f.Pos, f.Key, f.Msg, reason))
				}
				continue
			}
			isKnown := false
			for _, k := range known {
				if k.Status == "known" && k.Property == prop && (k.Key == f.Key || (k.NKey != "" && k.NKey == f.NKey)) {
					isKnown = true
					knownLines = append(knownLines, fmt.Sprintf("KNOWN-FINDING: property=%s %s [%s at %s]", prop, k.What, f.Key, f.Pos))
				}
			}
			if isKnown {
				r.Known++
				continue
			}
			keep = append(keep, f)
		}
		r.Violations = keep
		if r.Violations == nil {
			r.Violations = []Finding{}
		}
		unlisted = append(unlisted, keep...)
		totalOb += r.Obligations
		totalDis += r.Discharged
		totalRev += r.Reviewed
		totalKnown += r.Known
		for k := range r.keys {
			keys[k] = true
		}
		for _, s := range r.Samples {
			if len(samples) < 24 {
				samples = append(samples, s)
			}
		}
	}
	sort.Strings(knownLines)
	knownLines = uniq(knownLines)
	for _, l := range knownLines {
		fmt.Println(l)
	}
	sort.Slice(unlisted, func(i, j int) bool { return unlisted[i].Key < unlisted[j].Key })

	fmt.Printf("property %s tier=%s: %d rules, %d obligations, %d discharged, %d reviewed, %d known findings, %d violations; %d packages, %d module functions; %.1fs\n",
		prop, tier, len(rules), totalOb, totalDis, totalRev, totalKnown, len(unlisted), c.NPkgs, len(c.ModFuncs), time.Since(start).Seconds())
	for _, r := range rules {
		fmt.Printf("  rule %-9s [%s] instances=%d floor=%d obligations=%d discharged=%d reviewed=%d known=%d violations=%d  %s\n",
			r.ID, r.Engine, r.Instances, r.Floor, r.Obligations, r.Discharged, r.Reviewed, r.Known, len(r.Violations), r.Desc)
	}
	for _, f := range unlisted {
		fmt.Printf("%s: rule %s: %s  [key %s]\n", f.Pos, f.Rule, f.Msg, f.Key)
	}

	evDir := filepath.Join(verifDir(), "evidence")
	_ = os.MkdirAll(evDir, 0o755)
	violPath := filepath.Join(evDir, prop+".violations.json")
	if os.Getenv("FDCHECK_NO_EVIDENCE") == "" {
		if len(unlisted) > 0 {
			b, _ := json.MarshalIndent(unlisted, "", " ")
			_ = os.WriteFile(violPath, b, 0o644)
		} else {
			_ = os.Remove(violPath)
		}
	}
	if samples == nil {
		samples = []string{}
	}
	cov := map[string]any{
		"explanation":         explanations[prop],
		"rules":               rules,
		"packages":            c.NPkgs,
		"functions_analysed":  len(c.ModFuncs),
		"callgraph":           c.CGKind,
		"toolchain":           c.Toolchain,
		"obligations":         totalOb,
		"discharged":          totalDis,
		"reviewed":            totalRev,
		"known_findings":      totalKnown,
		"evaluations":         totalOb,
		"distinct_nontrivial": len(keys),
		"rule":                "one obligation per (rule, construct) instance found in /repo's current source; distinct = distinct rule|construct keys; every obligation is non-trivial (it names a call site, field writer, CFG path or index expression)",
		"samples":             samples,
		"exhaustive":          true,
		"checker_cmd":         fmt.Sprintf("./bin/fdcheck -prop %s -tier %s", prop, tier),
	}
	if selftest != nil {
		cov["selftest"] = selftest
	}
	if len(c.NormNotes) > 0 {
		cov["normal_form"] = c.NormNotes
		for _, n := range c.NormNotes {
			fmt.Println(n)
		}
	}
	ev := evidence{PropertyID: prop, Tier: tier, Seed: seed, Level: "other", Coverage: cov,
		Assumptions: assumptions[prop], WallS: time.Since(start).Seconds(), Violations: len(unlisted)}
	if ev.Assumptions == nil {
		ev.Assumptions = []string{}
	}
	b, _ := json.MarshalIndent(ev, "", " ")
	if f := os.Getenv("FDCHECK_DUMP_KEYS"); f != "" {
		sort.Strings(dumpKeys)
		_ = os.WriteFile(f, []byte(strings.Join(dumpKeys, "\n")+"\n"), 0o644)
	}
	if os.Getenv("FDCHECK_NO_EVIDENCE") == "" {
		if err := os.WriteFile(filepath.Join(evDir, prop+".json"), b, 0o644); err != nil {
			fmt.Printf("cannot write evidence: %v\n", err)
			return 2
		}
	}
	if len(unlisted) > 0 {
		fmt.Printf("VIOLATION property=%s replay=%s\n", prop, violPath)
		return 1
	}
	return 0
}

func uniq(s []string) []string {
	var out []string
	for i, x := range s {
		if i == 0 || x != s[i-1] {
			out = append(out, x)
		}
	}
	return out
}

func (c *Ctx) pos(p token.Pos) string {
	if !p.IsValid() {
		return "-"
	}
	pp := c.Fset.Position(p)
	f := pp.Filename
	if rel, err := filepath.Rel(c.RepoDir, f); err == nil && !strings.HasPrefix(rel, "..") {
		f = rel
	}
	return fmt.Sprintf("%s:%d", f, pp.Line)
}

// fnName is the stable construct name of a function: pkg-relative, no line numbers.
func (c *Ctx) fnName(f *ssa.Function) string {
	if f == nil {
		return "<nil>"
	}
	s := f.String()
	s = strings.ReplaceAll(s, c.ModPath+"/", "")
	return s
}
