package main

import (
	"fmt"
	"go/token"

	"golang.org/x/tools/go/ssa"
)

// C07.R9 / C03.R10 — every stream of a job that is written is written with its name and offset.
//
// The offsets file is the only memory of a restart: a stream left out of a saved job is resumed from
// the default, and a job saved without any stream cannot be initialised at all (initJobOffset takes the
// minimum of an empty table). The saver must therefore format every element of job.offsets it visits:
// inside the loop over Job.offsets, every path from the element read to the next iteration passes
// through the formatting of the element's Stream and of its Offset (no filtering `continue`, no
// conditional formatting of either part).
func init() {
	reg("C07", "C07.R9", "E2", "the saver formats every stream of a job it writes: name and offset of each element of Job.offsets, on every path through the loop body", 1, ruleEveryStreamSaved)
	reg("C03", "C03.R10", "E2", "a restart finds every stream of a saved job: the saver skips no element of Job.offsets (same rule as C07.R9)", 1, ruleEveryStreamSaved)
}

// dependsOnField: does the value depend (through operands, depth-bounded) on field `name` of a value
// derived from root?
func dependsOnField(v ssa.Value, root ssa.Value, name string, depth int, seen map[ssa.Value]bool) bool {
	if v == nil || depth > 12 || seen[v] {
		return false
	}
	seen[v] = true
	switch x := v.(type) {
	case *ssa.Field:
		if _, f, _, ok := fieldOf(x); ok && f == name && derivesFrom(x.X, root, 0) {
			return true
		}
	case *ssa.FieldAddr:
		if _, f, _, ok := fieldOf(x); ok && f == name && derivesFrom(x.X, root, 0) {
			return true
		}
	}
	in, ok := v.(ssa.Instruction)
	if !ok {
		return false
	}
	for _, op := range in.Operands(nil) {
		if op != nil && *op != nil && dependsOnField(*op, root, name, depth+1, seen) {
			return true
		}
	}
	return false
}

func derivesFrom(v, root ssa.Value, depth int) bool {
	if v == root {
		return true
	}
	if depth > 6 {
		return false
	}
	switch x := v.(type) {
	case *ssa.UnOp:
		return derivesFrom(x.X, root, depth+1)
	case *ssa.Convert:
		return derivesFrom(x.X, root, depth+1)
	case *ssa.ChangeType:
		return derivesFrom(x.X, root, depth+1)
	case *ssa.Alloc:
		// a local copy of the element (`for _, e := range s` before lifting, or an address-taken copy)
		if refs := x.Referrers(); refs != nil {
			for _, rf := range *refs {
				if st, ok := rf.(*ssa.Store); ok && st.Addr == x && derivesFrom(st.Val, root, depth+1) {
					return true
				}
			}
		}
	case *ssa.Phi:
		for _, e := range x.Edges {
			if derivesFrom(e, root, depth+1) {
				return true
			}
		}
	}
	return false
}

func ruleEveryStreamSaved(c *Ctx, r *Rule) {
	saver := c.Method("plugin/input/file", "offsetDB", "save")
	if saver == nil {
		r.Unresolved("offsetDB.save")
		return
	}
	name := c.fnName(saver)
	loops := 0
	for _, fn := range append([]*ssa.Function{saver}, allAnon(saver)...) {
		// element reads of Job.offsets, grouped by the innermost loop around them
		group := map[*ssa.BasicBlock][]ssa.Value{}
		var order []*ssa.BasicBlock
		for _, b := range fn.Blocks {
			for _, in := range b.Instrs {
				var elem ssa.Value
				var x ssa.Value
				switch e := in.(type) {
				case *ssa.IndexAddr:
					elem, x = e, e.X
				case *ssa.Index:
					elem, x = e, e.X
				default:
					continue
				}
				o, f, _, ok := loadedField(stripConv(x))
				if !ok || !isField(o, f, fileInPkg, "Job", "offsets") {
					continue
				}
				var header *ssa.BasicBlock
				for h := b; h != nil && header == nil; h = h.Idom() {
					for _, p := range h.Preds {
						if h.Dominates(p) && reaches(b, p) {
							header = h
						}
					}
				}
				if header == nil {
					continue
				}
				if _, seen := group[header]; !seen {
					order = append(order, header)
				}
				group[header] = append(group[header], elem)
			}
		}
		for _, header := range order {
			elems := group[header]
			loops++
			r.Inst(1)
			pos := elems[0].Pos()
			inLoop := func(bb *ssa.BasicBlock) bool { return header.Dominates(bb) && reaches(bb, header) }
			dep := func(v ssa.Value, field string) bool {
				for _, e := range elems {
					if dependsOnField(v, e, field, 0, map[ssa.Value]bool{}) {
						return true
					}
				}
				return false
			}
			// formatting sites of the element inside the loop: an append / strconv.Append* / call of a
			// module function (loggers excluded) that takes a value of the element's field, or a store of
			// such a value into the snapshot buffer
			var nameSites, offSites []ssa.Instruction
			for _, bb := range fn.Blocks {
				if !inLoop(bb) {
					continue
				}
				for _, j := range bb.Instrs {
					var vals []ssa.Value
					switch y := j.(type) {
					case *ssa.Store:
						if o2, f2, _, ok2 := fieldOf(y.Addr); ok2 && isField(o2, f2, fileInPkg, "offsetDB", "buf") {
							vals = append(vals, y.Val)
						}
					case *ssa.Call:
						if _, isApp := isBuiltinCall(y, "append"); isApp {
							vals = append(vals, y.Call.Args...)
						} else if cf := calleeFunc(y); cf != nil && cf.Pkg != nil {
							pp := cf.Pkg.Pkg.Path()
							if (pp == "strconv" && len(cf.Name()) > 6 && cf.Name()[:6] == "Append") || (c.inModule(cf) && pp != modulePath+"/logger") {
								vals = append(vals, y.Call.Args...)
							}
						}
					}
					for _, v := range vals {
						if dep(v, "Stream") {
							nameSites = append(nameSites, j)
						}
						if dep(v, "Offset") {
							offSites = append(offSites, j)
						}
					}
				}
			}
			toHeader := func(i ssa.Instruction) bool { return i.Block() == header && instrIndex(i) == 0 }
			stay := func(bb *ssa.BasicBlock, i int) bool { return inLoop(bb.Succs[i]) }
			from := header.Instrs[len(header.Instrs)-1]
			check := func(sites []ssa.Instruction, what string) {
				if len(sites) == 0 {
					r.Ob(false, name+"|stream-"+what+"-formatted", pos, "the loop over Job.offsets formats the "+what+" of the element into the snapshot buffer")
					return
				}
				isSite := func(i ssa.Instruction) bool {
					for _, s := range sites {
						if s == i {
							return true
						}
					}
					return false
				}
				skip, _ := c.pathExistsE(fn, from, toHeader, isSite, stay)
				r.Ob(!skip, name+"|stream-"+what+"-on-every-path", pos, fmt.Sprintf("every path through the body of the loop over Job.offsets formats the stream's %s (%d formatting sites): a stream filtered out of a saved job is resumed from the default, and a job saved without streams cannot be initialised after a restart", what, len(sites)))
			}
			check(nameSites, "name")
			check(offSites, "offset")
		}
	}
	r.Ob(loops >= 1, name+"|stream-loop", saver.Pos(), fmt.Sprintf("the saver iterates over Job.offsets (%d loops)", loops))
	_ = token.NoPos
}

// reaches: CFG reachability a ->* b (a == b counts only through a cycle or identity).
func reaches(a, b *ssa.BasicBlock) bool {
	if a == b {
		return true
	}
	seen := map[*ssa.BasicBlock]bool{}
	work := []*ssa.BasicBlock{a}
	for len(work) > 0 {
		x := work[len(work)-1]
		work = work[:len(work)-1]
		if seen[x] {
			continue
		}
		seen[x] = true
		for _, s := range x.Succs {
			if s == b {
				return true
			}
			work = append(work, s)
		}
	}
	return false
}
