package main

import (
	"fmt"
	"go/token"
	"go/types"
	"sort"
	"strings"

	"golang.org/x/tools/go/ssa"
)

const antispamPkg = modulePath + "/pipeline/antispam"

func init() {
	explain("C20", "Static necessary conditions of admission control, decided exhaustively over the source: the set of refusal returns of In and its streaming helper is exactly the documented reasons (not-ok input bytes, CRI decode error, already-committed offset, IsSpam, decoder error, PassEvent refusal), each control-dependent on its reason; checkInputBytes refuses only empty input or oversize-with-cut-off-disabled, cuts only under the cut-off setting to bytes[:MaxEventSize] (+newline iff the record had one) and returns in-limit input unchanged; IsSpam is consulted only when the threshold is enabled and the row is not partial; inside IsSpam a disabled antispam, a matching exception, an unlimited rule and a new source all return false, a 'true' constant is returned only for a blocked threshold, and the counting verdict is counter >= threshold. "+
		"NOT decided: counter/ban/unban arithmetic over arrival histories, the exact cut size under append aliasing.",
		"go/types, go/ssa and x/tools call resolution are correct")
	reg("C20", "C20.R1", "E2", "refusal returns of In/streamEvent = exactly the documented reasons", 6, ruleRefusalSites)
	reg("C20", "C20.R2", "E2", "checkInputBytes: refusal, cut and pass-through branches", 4, ruleCheckInputBytes)
	reg("C20", "C20.R4", "E7", "ban value and maintenance cap are unbanIterations x the source's own threshold (the one its counter decays by)", 2, ruleBanCapAgreement)
	reg("C20", "C20.R3", "E2", "antispam gating in In and the constant verdicts inside IsSpam", 1, ruleAntispamGating)
	reg("C20", "C20.R5", "E7", "antispam exceptions use match rules: a value is rejected by length only when shorter than the shortest configured value (same rule as C17.R5)", 2, ruleMatchRuleLengthGate)
	reg("C20", "C20.R6", "E2", "antispam exceptions use match rules: event data is lower-cased whenever the rule is case-insensitive (same rule as C17.R6)", 2, ruleMatchRuleCaseFold)
	reg("C20", "C20.R7", "E2", "the antispam maintenance loop is started unconditionally by Pipeline.Start and runs until the pipeline stops", 1, ruleAntispamMaintenanceRuns)
}

// reasonOf classifies a guard literal of In/streamEvent into a refusal reason.
func (c *Ctx) refusalReason(l lit, fn *ssa.Function) string {
	ro := c.roles()
	v := l.v
	// !ok of checkInputBytes
	if e, ok := v.(*ssa.Extract); ok && !l.pol {
		if call, ok := e.Tuple.(*ssa.Call); ok && call.Call.StaticCallee() != nil && e.Index == 2 {
			f := call.Call.StaticCallee()
			if c.pkgOf(f) == "pipeline" && f.Signature.Results().Len() == 3 {
				return "input-bytes-not-ok"
			}
		}
	}
	if op, x, y, ok := cmpLit(l); ok {
		// err != nil
		if op == token.NEQ && (isNilConst(y) || isNilConst(x)) {
			e := x
			if isNilConst(x) {
				e = y
			}
			if ex, isE := e.(*ssa.Extract); isE {
				if call, ok := ex.Tuple.(*ssa.Call); ok && call.Call.StaticCallee() != nil && call.Call.StaticCallee().Name() == "DecodeCRI" {
					return "cri-decode-error"
				}
			}
			if types.Identical(e.Type(), types.Universe.Lookup("error").Type()) {
				// decoder error: every non-nil source of the value is the result of a decoder call — directly, through
				// a φ, or through a helper / function literal of the module whose returned errors are such values
				if _, isNil := e.(*ssa.Const); !isNil && c.decoderErr(e, 0) {
					return "decoder-error"
				}
			}
		}
		// currentOffset < streamOffset
		if op == token.LSS || op == token.GTR {
			a, b := x, y
			if op == token.GTR {
				a, b = y, x
			}
			if isFieldOfParamStruct(a, "Offsets", "current") {
				if call, ok := b.(*ssa.Call); ok && call.Call.StaticCallee() != nil && call.Call.StaticCallee().Name() == "ByStream" {
					return "already-committed"
				}
			}
		}
	}
	if call, ok := v.(*ssa.Call); ok {
		if f := call.Call.StaticCallee(); f != nil && f.Name() == "IsSpam" && l.pol && c.pkgOf(f) == "pipeline/antispam" {
			return "antispam"
		}
		if call.Call.IsInvoke() && ro.inPass != nil && call.Call.Method == ro.inPass && !l.pol {
			return "input-refused"
		}
	}
	return ""
}

func isFieldOfParamStruct(v ssa.Value, typ, field string) bool {
	v = stripConv(v)
	if f, ok := v.(*ssa.Field); ok {
		o, fl, _, ok2 := fieldOf(f)
		return ok2 && isField(o, fl, pipelinePkg, typ, field)
	}
	return isLoadOfField(v, pipelinePkg, typ, field)
}

func ruleRefusalSites(c *Ctx, r *Rule) {
	in := c.inImpl()
	if in == nil {
		r.Unresolved("In implementation")
		return
	}
	fns := []*ssa.Function{in}
	for _, ret := range returnsOf(in) {
		if call, ok := ret.Results[0].(*ssa.Call); ok && call.Call.StaticCallee() != nil && c.inModule(call.Call.StaticCallee()) {
			fns = append(fns, call.Call.StaticCallee())
		}
	}
	seen := map[string]int{}
	for _, fn := range fns {
		name := c.fnName(fn)
		n := 0
		for _, ret := range returnsOf(fn) {
			k, isK := constInt(ret.Results[0])
			if !isK || k != 0 {
				continue
			}
			n++
			var reasons []string
			for _, l := range c.unitGuards(ret) {
				if rs := c.refusalReason(l, fn); rs != "" {
					reasons = append(reasons, rs)
				}
			}
			sort.Strings(reasons)
			reasons = uniq(reasons)
			// the innermost reason is the one that decides; earlier reasons are passed checks and do not appear as positive literals
			ok := len(reasons) >= 1
			rs := strings.Join(reasons, "+")
			if ok {
				seen[reasons[len(reasons)-1]]++
				r.Inst(1)
			}
			r.Ob(ok, fmt.Sprintf("%s|refusal#%d|%s", name, n, rs), ret.Pos(),
				"a record is refused (return 0) only for a documented reason; guards: "+c.clausesString(c.guards(fn)[ret.Block()]))
		}
	}
	for _, want := range []string{"input-bytes-not-ok", "cri-decode-error", "already-committed", "antispam", "decoder-error", "input-refused"} {
		r.Ob(seen[want] >= 1, "reason|"+want, in.Pos(), "the documented refusal reason '"+want+"' has a return site")
	}
	// the CRI error refusal happens only for the CRI decoder
	for _, ret := range returnsOf(in) {
		for _, l := range c.unitGuards(ret) {
			if c.refusalReason(l, in) == "cri-decode-error" {
				g := false
				for _, l2 := range c.unitGuards(ret) {
					if op, _, y, ok := cmpLit(l2); ok && op == token.EQL {
						if _, isK := constInt(y); isK && typeIs(y.Type(), modulePath+"/decoder", "Type") {
							g = true
						}
					}
				}
				r.Ob(g, c.fnName(in)+"|cri-only-for-cri", ret.Pos(), "the CRI pre-decode (and its refusal) applies only when the decoder is CRI")
			}
		}
	}
}

func ruleCheckInputBytes(c *Ctx, r *Rule) {
	in := c.inImpl()
	if in == nil {
		r.Unresolved("In implementation")
		return
	}
	var chk *ssa.Function
	for _, ci := range callsIn(in) {
		if f := calleeFunc(ci); f != nil && c.pkgOf(f) == "pipeline" && f.Signature.Results().Len() == 3 && len(f.Params) >= 2 {
			if _, ok := f.Signature.Results().At(0).Type().Underlying().(*types.Slice); ok {
				chk = f
			}
		}
	}
	if chk == nil {
		r.Unresolved("input-bytes check (3-result helper called by In)")
		return
	}
	name := c.fnName(chk)
	var bytesParam *ssa.Parameter
	for _, p := range chk.Params {
		if _, ok := p.Type().Underlying().(*types.Slice); ok && bytesParam == nil {
			bytesParam = p
		}
	}
	set := func(v ssa.Value, f string) bool {
		return isLoadOfField(stripConv(v), pipelinePkg, "Settings", f)
	}
	isLenBytes := func(v ssa.Value) bool {
		call, ok := stripConv(v).(*ssa.Call)
		if !ok {
			return false
		}
		b, ok := call.Call.Value.(*ssa.Builtin)
		return ok && b.Name() == "len" && call.Call.Args[0] == ssa.Value(bytesParam)
	}
	for i, ret := range returnsOf(chk) {
		r.Inst(1)
		res := ret.Results
		okv, isK := constBool(res[2])
		cut, isK2 := constBool(res[1])
		key := fmt.Sprintf("%s|return#%d", name, i)
		if !isK || !isK2 {
			r.Ob(false, key+"|const-flags", ret.Pos(), "the (cutoff, ok) results are constants on each path")
			continue
		}
		var over, cutOn, cutOff, limitSet, empty bool
		for _, cl := range c.guards(chk)[ret.Block()] {
			for _, l := range cl {
				if op, x, y, ok := cmpLit(l); ok {
					if (op == token.GTR && isLenBytes(x) && set(y, "MaxEventSize")) || (op == token.LSS && set(x, "MaxEventSize") && isLenBytes(y)) {
						if len(cl) == 1 {
							over = true
						}
					}
					if op == token.NEQ && set(x, "MaxEventSize") && len(cl) == 1 {
						limitSet = true
					}
					if op == token.EQL && isLenBytes(x) {
						if k, isK := constInt(y); isK && (k == 0 || k == 1) {
							empty = true
						}
					}
				}
				if set(l.v, "CutOffEventByLimit") && len(cl) == 1 {
					if l.pol {
						cutOn = true
					} else {
						cutOff = true
					}
				}
			}
		}
		g := c.clausesString(c.guards(chk)[ret.Block()])
		switch {
		case !okv:
			r.Ob(!cut && (empty || (over && limitSet && cutOff)), key+"|refuse", ret.Pos(), "a record is refused only if it is empty or (over max_event_size with cutting disabled); guards: "+g)
			r.Ob(res[0] == ssa.Value(bytesParam), key+"|refuse-unchanged", ret.Pos(), "a refused record is returned unchanged")
		case okv && cut:
			r.Ob(over && limitSet && cutOn, key+"|cut-guard", ret.Pos(), "cutting happens only when the record exceeds a configured max_event_size and cut-off is enabled; guards: "+g)
			// result is bytes[:MaxEventSize] or append(bytes[:MaxEventSize], '\n') under wasNewLine
			okShape := c.isCutResult(res[0], bytesParam, set)
			r.Ob(okShape, key+"|cut-shape", ret.Pos(), "the cut record is bytes[:max_event_size], plus a newline iff the original ended with one: "+c.path(res[0]))
		default:
			r.Ob(res[0] == ssa.Value(bytesParam), key+"|pass-unchanged", ret.Pos(), "a record within the limit is passed on unaltered")
			r.Ob(!over || !limitSet, key+"|pass-guard", ret.Pos(), "the pass-through branch is not under the oversize condition; guards: "+g)
		}
	}
	// In uses the checked bytes and the cut flag
	for _, ci := range callsIn(in) {
		if calleeFunc(ci) == chk {
			r.Ob(len(ci.Common().Args) >= 2, c.fnName(in)+"|uses-check", ci.Pos(), "In applies the input-bytes check first")
			first := true
			for _, cj := range callsIn(in) {
				if cj != ci && instrDominates(cj, ci) {
					first = false
				}
			}
			r.Ob(first, c.fnName(in)+"|check-first", ci.Pos(), "nothing is done with the record before the input-bytes check")
		}
	}
}

// isCutResult: v is φ/slice/append shape of  bytes[:Max]  [+ '\n' under the was-newline test].
func (c *Ctx) isCutResult(v ssa.Value, bytesParam *ssa.Parameter, set func(ssa.Value, string) bool) bool {
	isCutSlice := func(v ssa.Value) bool {
		sl, ok := v.(*ssa.Slice)
		return ok && sl.X == ssa.Value(bytesParam) && sl.Low == nil && sl.High != nil && set(sl.High, "MaxEventSize")
	}
	isAppendNL := func(v ssa.Value) bool {
		call, ok := v.(*ssa.Call)
		if !ok {
			return false
		}
		b, ok := call.Call.Value.(*ssa.Builtin)
		if !ok || b.Name() != "append" || !isCutSlice(call.Call.Args[0]) {
			return false
		}
		// appended element '\n'; control-dependent on bytes[len-1] == '\n'
		g := false
		for _, l := range c.unitGuards(call) {
			if op, x, y, ok := cmpLit(l); ok && op == token.EQL {
				if k, isK := constInt(y); isK && k == '\n' {
					if u, ok := x.(*ssa.UnOp); ok && u.Op == token.MUL {
						if ia, ok := u.X.(*ssa.IndexAddr); ok && ia.X == ssa.Value(bytesParam) {
							g = true
						}
					}
				}
			}
		}
		return g
	}
	if isCutSlice(v) || isAppendNL(v) {
		return true
	}
	if phi, ok := v.(*ssa.Phi); ok {
		for _, e := range phi.Edges {
			if !isCutSlice(e) && !isAppendNL(e) {
				return false
			}
		}
		return len(phi.Edges) > 0
	}
	return false
}

func ruleAntispamGating(c *Ctx, r *Rule) {
	in := c.inImpl()
	isSpam := c.Method("pipeline/antispam", "Antispammer", "IsSpam")
	if in == nil || isSpam == nil {
		r.Unresolved("In / Antispammer.IsSpam")
		return
	}
	r.Inst(1)
	c.firstMatchingRuleDecides(r, isSpam)
	for _, ci := range callsIn(in) {
		if calleeFunc(ci) != isSpam {
			continue
		}
		var thr, notPartial bool
		for _, l := range c.unitGuards(ci) {
			if op, x, y, ok := cmpLit(l); ok && op == token.GEQ {
				if k, isK := constInt(y); isK && k == 0 && isLoadOfField(stripConv(x), pipelinePkg+"/antispam", "", "") {
					thr = true
				}
				if k, isK := constInt(y); isK && k == 0 {
					if _, f, _, okf := loadedField(stripConv(x)); okf && f == "Threshold" {
						thr = true
					}
				}
			}
			if !l.pol {
				if _, f, _, okf := loadedField(l.v); okf && f == "IsPartial" {
					notPartial = true
				}
				if fl, ok := l.v.(*ssa.Field); ok {
					if _, f, _, okf := fieldOf(fl); okf && f == "IsPartial" {
						notPartial = true
					}
				}
			}
		}
		r.Ob(thr, c.fnName(in)+"|antispam-enabled", ci.Pos(), "IsSpam is consulted only when the antispam threshold is enabled (>= 0): a disabled antispam never drops; guards: "+c.clausesString(c.guards(in)[ci.Block()]))
		r.Ob(notPartial, c.fnName(in)+"|not-partial", ci.Pos(), "IsSpam is not consulted for partial CRI rows")
		// ... and under no other condition: IsSpam also does the per-source bookkeeping (a new source resets
		// its counter there), so skipping the call for some records changes later verdicts
		extra := ""
		for _, l := range c.unitGuards(ci) {
			if op, x, y, ok := cmpLit(l); ok && op == token.GEQ {
				if k, isK := constInt(y); isK && k == 0 {
					if _, f, _, okf := loadedField(stripConv(x)); okf && f == "Threshold" {
						continue
					}
				}
			}
			if !l.pol {
				if _, f, _, okf := loadedField(l.v); okf && f == "IsPartial" {
					continue
				}
				if fl, ok := l.v.(*ssa.Field); ok {
					if _, f, _, okf := fieldOf(fl); okf && f == "IsPartial" {
						continue
					}
				}
			}
			if ex, ok := l.v.(*ssa.Extract); ok {
				if call, isCall := ex.Tuple.(*ssa.Call); isCall && call.Call.StaticCallee() != nil && call.Call.StaticCallee().Name() == "checkInputBytes" {
					continue // the record passed the size check (its own refusal reason)
				}
			}
			extra = c.litString(l)
		}
		r.Ob(extra == "", c.fnName(in)+"|antispam-always-consulted", ci.Pos(), "every complete record of an antispam-enabled pipeline goes through IsSpam (no further condition)"+ifs(extra != "", "; also requires "+extra))
	}
	name := c.fnName(isSpam)
	// constant verdicts
	nTrue := 0
	for i, ret := range returnsOf(isSpam) {
		key := fmt.Sprintf("%s|return#%d", name, i)
		v := ret.Results[0]
		if b, isK := constBool(v); isK {
			if b {
				nTrue++
				// only under threshold == blocked(0)
				g := false
				for _, l := range c.unitGuards(ret) {
					if op, _, y, ok := cmpLit(l); ok && op == token.EQL {
						if k, isK := constInt(y); isK && k == 0 {
							g = true
						}
					}
				}
				r.Ob(g, key+"|true-only-when-blocked", ret.Pos(), "a constant 'spam' verdict is returned only for a blocked (0) threshold; guards: "+c.clausesString(c.guards(isSpam)[ret.Block()]))
			}
			continue
		}
		// the counting verdict
		bo, ok := v.(*ssa.BinOp)
		okCmp := ok && (bo.Op == token.GEQ)
		if okCmp {
			// threshold side is the (converted) threshold variable itself, not an arithmetic expression of it
			_, isArith := stripConv(bo.Y).(*ssa.BinOp)
			_, isArithX := stripConv(bo.X).(*ssa.BinOp)
			okCmp = !isArith && !isArithX
		}
		r.Ob(okCmp, key+"|counting-verdict", ret.Pos(), "the counting verdict is counter >= threshold: "+c.path(v))
	}
	// each exception is matched against its own subject: the event, or the source name when the
	// exception says so — chosen inside the iteration, never carried over from the previous exception
	for _, ci := range callsIn(isSpam) {
		f := calleeFunc(ci)
		if f == nil || f.Name() != "Match" || len(ci.Common().Args) != 2 {
			continue
		}
		head := loopHeadOf(ci)
		if head == nil {
			continue
		}
		subj := ci.Common().Args[1]
		carried := false
		okLeaves := true
		seen := map[ssa.Value]bool{}
		var walk func(v ssa.Value)
		walk = func(v ssa.Value) {
			if seen[v] {
				return
			}
			seen[v] = true
			if p, ok := v.(*ssa.Phi); ok {
				if p.Block() == head {
					carried = true
					return
				}
				for _, e := range p.Edges {
					walk(e)
				}
				return
			}
			switch x := v.(type) {
			case *ssa.Parameter:
			case *ssa.Convert:
				if _, isP := stripConv(x.X).(*ssa.Parameter); !isP {
					okLeaves = false
				}
			default:
				if _, isP := stripConv(v).(*ssa.Parameter); !isP {
					okLeaves = false
				}
			}
		}
		walk(subj)
		r.Ob(!carried && okLeaves, name+"|exception-subject", ci.Pos(), "an exception is matched against the event bytes or the source name, chosen for this exception alone"+ifs(carried, " (the subject is carried over from the previous exception)"))
	}
	// exception match => false ; new source => false ; disabled => false
	want := map[string]bool{"exception-match": false, "new-source": false, "disabled": false}
	for _, ret := range returnsOf(isSpam) {
		b, isK := constBool(ret.Results[0])
		if !isK || b {
			// a non-false return under an exception match is a violation
			for _, l := range c.unitGuards(ret) {
				if call, ok := l.v.(*ssa.Call); ok && l.pol && call.Call.StaticCallee() != nil && call.Call.StaticCallee().Name() == "Match" {
					r.Ob(false, name+"|exception-returns-false", ret.Pos(), "a matching exception must return 'not spam'")
				}
			}
			continue
		}
		for _, l := range c.unitGuards(ret) {
			if call, ok := l.v.(*ssa.Call); ok && l.pol && call.Call.StaticCallee() != nil && call.Call.StaticCallee().Name() == "Match" {
				want["exception-match"] = true
			}
			if p, ok := l.v.(*ssa.Parameter); ok && l.pol && paramIndex(isSpam, p) >= 0 {
				want["new-source"] = true
			}
			if op, x, y, ok := cmpLit(l); ok && op == token.EQL {
				if k, isK := constInt(y); isK && k == -1 && isLoadOfField(x, antispamPkg, "Antispammer", "threshold") {
					want["disabled"] = true
				}
			}
		}
	}
	// once an exception matched, the only reachable verdict is the constant false
	for _, b := range isSpam.Blocks {
		iff, ok := b.Instrs[len(b.Instrs)-1].(*ssa.If)
		if !ok {
			continue
		}
		v, pol := peelNot(iff.Cond, true)
		call, ok := v.(*ssa.Call)
		if !ok || call.Call.StaticCallee() == nil || call.Call.StaticCallee().Name() != "Match" {
			continue
		}
		idx := 0
		if !pol {
			idx = 1
		}
		start := b.Succs[idx].Instrs[0]
		notFalse := func(in ssa.Instruction) bool {
			ret, ok := in.(*ssa.Return)
			if !ok {
				return false
			}
			k, isK := constBool(ret.Results[0])
			return !isK || k
		}
		bad := notFalse(start)
		var w ssa.Instruction = start
		if !bad {
			bad, w = c.pathExists(isSpam, start, notFalse, nil)
		}
		msg := "after an exception matched every path returns 'not spam'"
		if bad {
			msg = "after an exception matched a path reaches the verdict at " + c.pos(w.Pos()) + " that is not the constant false: a matching exception can still be counted / banned"
		}
		r.Ob(!bad, name+"|exception-exempts", iff.Pos(), msg)
	}
	for _, k := range []string{"disabled", "exception-match", "new-source"} {
		r.Ob(want[k], name+"|false-on-"+k, isSpam.Pos(), "IsSpam returns false on "+k)
	}
	// exceptions are checked before any counting: the Match calls dominate the counter update
	var inc ssa.CallInstruction
	for _, ci := range callsIn(isSpam) {
		if f := calleeFunc(ci); f != nil && f.Name() == "Inc" {
			inc = ci
		}
	}
	r.Ob(inc != nil, name+"|counts", isSpam.Pos(), "the per-source counter is incremented")
	if inc != nil {
		for _, ret := range returnsOf(isSpam) {
			if b, isK := constBool(ret.Results[0]); isK && !b {
				r.Ob(!instrDominates(inc, ret), name+"|no-count-on-false-const", ret.Pos(), "exceptions / disabled / new-source verdicts are given before the counter is touched")
			}
		}
	}
}

// ruleBanCapAgreement: wherever the antispammer multiplies by unbanIterations, the other factor is
// the per-source threshold: in Maintenance the value looked up in sourcesThresholds (which is also
// what the counter is decremented by), in IsSpam the threshold that is stored into sourcesThresholds.
func ruleBanCapAgreement(c *Ctx, r *Rule) {
	n := 0
	for _, fn := range c.ModFuncs {
		if c.pkgOf(fn) != "pipeline/antispam" {
			continue
		}
		// the per-source threshold of this function (and of the function literals it belongs with)
		var perSource []ssa.Value
		top := fn
		for top.Parent() != nil {
			top = top.Parent()
		}
		var family []ssa.Instruction
		for _, f := range append([]*ssa.Function{top}, allAnon(top)...) {
			family = append(family, allInstrs(f)...)
		}
		for _, b := range []int{0} {
			_ = b
			for _, in := range family {
				switch x := in.(type) {
				case *ssa.Lookup:
					if isLoadOfField(x.X, antispamPkg, "Antispammer", "sourcesThresholds") {
						perSource = append(perSource, x)
					}
				case *ssa.MapUpdate:
					if isLoadOfField(x.Map, antispamPkg, "Antispammer", "sourcesThresholds") {
						perSource = append(perSource, x.Value)
					}
				}
			}
		}
		for _, b := range fn.Blocks {
			for _, in := range b.Instrs {
				bo, ok := in.(*ssa.BinOp)
				if !ok || bo.Op != token.MUL {
					continue
				}
				var other ssa.Value
				if isLoadOfField(stripConv(bo.X), antispamPkg, "Antispammer", "unbanIterations") {
					other = bo.Y
				} else if isLoadOfField(stripConv(bo.Y), antispamPkg, "Antispammer", "unbanIterations") {
					other = bo.X
				} else {
					continue
				}
				n++
				ok2 := false
				for _, ps := range perSource {
					if stripConv(other) == ps || stripConv(other) == stripConv(ps) || sameValue(stripConv(other), ps) {
						ok2 = true
					}
					// two reads of the same variable cell (a local captured by a function literal)
					if u1, isU1 := stripConv(other).(*ssa.UnOp); isU1 && u1.Op == token.MUL {
						if u2, isU2 := stripConv(ps).(*ssa.UnOp); isU2 && u2.Op == token.MUL && cellAddr(u1.X) == cellAddr(u2.X) {
							ok2 = true
						}
					}
					if e, isE := stripConv(other).(*ssa.Extract); isE && e.Tuple == ps {
						ok2 = true
					}
				}
				r.Ob(ok2, fmt.Sprintf("%s|unban-factor#%d", c.fnName(fn), n), bo.Pos(),
					"unbanIterations is multiplied by the source's own threshold (the value kept in sourcesThresholds, by which its counter decays each round): with any other factor a silent banned source is not unbanned within unban_iterations+1 rounds: "+c.path(other))
			}
		}
	}
	r.Inst(n)
	// the decay in Maintenance subtracts that same per-source threshold
	m := c.Method("pipeline/antispam", "Antispammer", "Maintenance")
	if m == nil {
		r.Unresolved("Antispammer.Maintenance")
		return
	}
	okDecay := false
	for _, b := range m.Blocks {
		for _, in := range b.Instrs {
			if bo, ok := in.(*ssa.BinOp); ok && bo.Op == token.SUB {
				if lk, ok := stripConv(bo.Y).(*ssa.Lookup); ok && isLoadOfField(lk.X, antispamPkg, "Antispammer", "sourcesThresholds") {
					okDecay = true
				}
			}
		}
	}
	r.Ob(okDecay, c.fnName(m)+"|decay-by-own-threshold", m.Pos(), "each maintenance round lowers a source's counter by that source's own threshold")
}

func (c *Ctx) decoderErr(v ssa.Value, d int) bool {
	if d > 6 {
		return false
	}
	switch x := v.(type) {
	case *ssa.Const:
		return x.IsNil()
	case *ssa.Phi:
		for _, e := range x.Edges {
			if e == v {
				continue
			}
			if !c.decoderErr(e, d+1) {
				return false
			}
		}
		return true
	case *ssa.Call:
		nm := ""
		var callee *ssa.Function
		if x.Call.IsInvoke() {
			nm = x.Call.Method.Name()
		} else if f := x.Call.StaticCallee(); f != nil {
			nm, callee = f.Name(), f
		} else if mc, ok := x.Call.Value.(*ssa.MakeClosure); ok {
			callee, _ = mc.Fn.(*ssa.Function)
		}
		if strings.HasPrefix(nm, "Decode") {
			return true
		}
		if callee != nil && callee.Blocks != nil && c.inModule(callee) {
			any := false
			for _, ret := range returnsOf(callee) {
				for _, rv := range retResults(ret) {
					if types.Identical(rv.Type(), types.Universe.Lookup("error").Type()) {
						any = true
						if !c.decoderErr(rv, d+1) {
							return false
						}
					}
				}
			}
			return any
		}
	case *ssa.Extract:
		return c.decoderErr(x.Tuple, d+1)
	}
	return false
}

// firstMatchingRuleDecides: the rules of the antispam are an ordered list and the FIRST rule whose
// condition holds gives the threshold (documented). Once a rule's check is true, control must leave the
// loop: if it can come back to the check, a later matching rule overrides the first one.
func (c *Ctx) firstMatchingRuleDecides(r *Rule, isSpam *ssa.Function) {
	var checks []ssa.CallInstruction
	scope := append([]*ssa.Function{isSpam}, allAnon(isSpam)...)
	var allCalls []ssa.CallInstruction
	for _, f := range scope {
		allCalls = append(allCalls, callsIn(f)...)
	}
	for _, ci := range allCalls {
		cc := ci.Common()
		isCheck := cc.IsInvoke() && cc.Method.Name() == "Check"
		if f := cc.StaticCallee(); f != nil && f.Name() == "Check" && c.pkgOf(f) == "pipeline/doif" {
			isCheck = true
		}
		if isCheck {
			if cyc, _ := c.pathExists(ci.Parent(), ci, func(in ssa.Instruction) bool { return in == ssa.Instruction(ci) }, nil); cyc {
				checks = append(checks, ci)
			}
		}
	}
	r.Ob(len(checks) == 1, c.fnName(isSpam)+"|rule-loop", isSpam.Pos(), fmt.Sprintf("one loop evaluates the rules' conditions in order (found %d)", len(checks)))
	if len(checks) != 1 {
		return
	}
	chk := checks[0]
	val, _ := chk.(ssa.Value)
	back := false
	var at ssa.Instruction
	loopFn := chk.Parent()
	for _, b := range loopFn.Blocks {
		matched := false
		for _, l := range unitLits(c.guards(loopFn)[b]) {
			if l.v == val && l.pol {
				matched = true
			}
		}
		if !matched || len(b.Instrs) == 0 {
			continue
		}
		if again, _ := c.pathExists(loopFn, b.Instrs[0], func(in ssa.Instruction) bool { return in == ssa.Instruction(chk) }, nil); again {
			back, at = true, b.Instrs[0]
		}
	}
	pos := chk.Pos()
	if at != nil && at.Pos() != token.NoPos {
		pos = at.Pos()
	}
	r.Ob(!back, c.fnName(isSpam)+"|first-match-leaves-loop", pos, "after a rule's condition held, the loop over the rules is left (the first matching rule decides; a path back to the next rule lets a later rule override it)")
}

// ruleAntispamMaintenanceRuns: the per-source counters decay and bans are lifted only by
// Antispammer.Maintenance. Whenever the pipeline consults the antispam at all, the loop that calls it
// must be running: Pipeline.Start starts it unconditionally (a start guarded by some threshold test
// leaves valid configurations — common threshold 0 with per-rule thresholds — with counters that
// never decay: a slow source is banned in the end and never unbanned).
func ruleAntispamMaintenanceRuns(c *Ctx, r *Rule) {
	maint := c.Method("pipeline/antispam", "Antispammer", "Maintenance")
	start := c.Method("pipeline", "Pipeline", "Start")
	if maint == nil || start == nil {
		r.Unresolved("Antispammer.Maintenance / Pipeline.Start")
		return
	}
	// the loop function: a Pipeline method that calls Maintenance in a cycle
	var loop *ssa.Function
	for _, cs := range c.sitesOf(maint) {
		fn := cs.Parent()
		if cyc, _ := c.pathExists(fn, cs, func(in ssa.Instruction) bool { return in == ssa.Instruction(cs) }, nil); cyc && c.pkgOf(fn) == "pipeline" {
			loop = fn
		}
	}
	r.Inst(1)
	r.Ob(loop != nil, "antispam|maintenance-loop", maint.Pos(), "a pipeline function calls Antispammer.Maintenance periodically")
	if loop == nil {
		return
	}
	var goSite *ssa.Go
	for _, b := range start.Blocks {
		for _, in := range b.Instrs {
			if g, ok := in.(*ssa.Go); ok && g.Call.StaticCallee() == loop {
				goSite = g
			}
		}
	}
	if goSite == nil {
		r.Ob(false, c.fnName(start)+"|starts-antispam-maintenance", start.Pos(), "Pipeline.Start starts the antispam maintenance loop")
		return
	}
	// ... whatever the antispam settings are (the other conditions on the way — input and output present,
	// the processor loop finished — hold for every pipeline that starts at all)
	cond := ""
	for _, cl := range c.guards(start)[goSite.Block()] {
		for _, l := range cl {
			if s := c.litString(l); strings.Contains(s, "Antispam") || strings.Contains(s, "antispam") {
				cond = s
			}
		}
	}
	r.Ob(cond == "", c.fnName(start)+"|starts-antispam-maintenance", goSite.Pos(), "Pipeline.Start starts the antispam maintenance loop whatever the antispam settings are"+ifs(cond != "", "; it is started only under "+cond))
	// the loop ends only when the pipeline stops
	for i, ret := range returnsOf(loop) {
		okStop := false
		for _, l := range c.unitGuards(ret) {
			if call, ok := l.v.(*ssa.Call); ok && l.pol && atomicOpOn(call, "Load", "Pipeline", "shouldStop") {
				okStop = true
			}
			if l.pol && isLoadOfField(l.v, pipelinePkg, "Pipeline", "shouldStop") {
				okStop = true
			}
		}
		r.Ob(okStop, fmt.Sprintf("%s|ends-only-on-stop#%d", c.fnName(loop), i), ret.Pos(), "the antispam maintenance loop returns only when the pipeline is stopping")
	}
}
