package main

import (
	"fmt"
	"go/token"

	"golang.org/x/tools/go/ssa"
)

// C12.S — pooled scratch buffers of a decoder start every line empty.
//
// CSVDecoder.Decode takes its record buffer and field-index table from a sync.Pool and hands them back
// by defer on every exit, including the error returns in the middle of a scan. What a rejected line left
// in them must never reach the next line: the `[:0]` reset of each buffer dominates every other store
// into it in Decode (a reset placed before the successful return only is skipped by the error paths).
func init() {
	reg("C12", "C12.S", "E2", "pooled decoder scratch buffers are emptied before the first append of every call (reset dominates all appends), so a line rejected mid-scan leaves nothing for the next one", 2, rulePooledDecoderBuffers)
}

func rulePooledDecoderBuffers(c *Ctx, r *Rule) {
	dec := c.Method("decoder", "CSVDecoder", "Decode")
	if dec == nil {
		r.Unresolved("CSVDecoder.Decode")
		return
	}
	name := c.fnName(dec)
	for _, field := range []string{"recordBuffer", "fieldIndexes"} {
		var resets, appends []ssa.Instruction
		for _, a := range c.fieldAccesses(modulePath+"/decoder", "CSVBuffers", field) {
			if !a.write || !(a.fn == dec || nestedIn(a.fn, dec)) {
				continue
			}
			if sl, ok := stripConv(a.val).(*ssa.Slice); ok && sl.Low == nil && sl.High != nil {
				if k, isK := constInt(sl.High); isK && k == 0 {
					resets = append(resets, a.in)
					continue
				}
			}
			appends = append(appends, a.in)
		}
		r.Inst(1)
		r.Ob(len(appends) >= 1, name+"|"+field+"|appends", dec.Pos(), fmt.Sprintf("Decode fills CSVBuffers.%s (%d stores)", field, len(appends)))
		bad := token.NoPos
		for _, ap := range appends {
			dom := false
			for _, rs := range resets {
				if rs.Parent() == ap.Parent() && instrDominates(rs, ap) {
					dom = true
				}
			}
			if !dom && bad == token.NoPos {
				bad = ap.Pos()
			}
		}
		pos := dec.Pos()
		if bad != token.NoPos {
			pos = bad
		}
		r.Ob(bad == token.NoPos && len(resets) >= 1, name+"|"+field+"|emptied-before-first-append", pos, "CSVBuffers."+field+" is emptied before anything is appended in this call: the buffers go back to the pool on every exit, also from a line rejected half-way, and the next valid line would get the rejected line's fields in front of its own")
	}
}
