package main

import (
	"fmt"

	"golang.org/x/tools/go/ssa"
)

// C03.R11 — what a restart resumes is what the start-up walk announces.
//
// After a restart the file input learns about the files that already exist from one place only: the
// directory walk of watcher.tryAddPath, whose callback hands every entry to watcher.notify (which then
// applies the configured include / exclude patterns and stats the entry itself). An entry the callback
// filters out by anything but "the walk reported an error" or "it is a directory" is never resumed,
// whatever the offsets file says about it (a symlinked log file — the usual k8s layout — is neither a
// directory nor a regular file). Structurally: every guard of the notify call inside a filepath.Walk /
// WalkDir callback of the package is a test of the walk's error or of IsDir.
func init() {
	reg("C03", "C03.R11", "E2", "start-up discovery: the directory walk announces every non-directory entry (guards of the announcement: walk error and IsDir only)", 1, ruleDiscoveryWalk)
}

func ruleDiscoveryWalk(c *Ctx, r *Rule) {
	notify := c.Method("plugin/input/file", "watcher", "notify")
	if notify == nil {
		r.Unresolved("watcher.notify")
		return
	}
	var callbacks []*ssa.Function
	for _, fn := range c.ModFuncs {
		if fn.Pkg == nil || fn.Pkg.Pkg.Path() != fileInPkg {
			continue
		}
		for _, ci := range callsIn(fn) {
			cf := calleeFunc(ci)
			if cf == nil || cf.Pkg == nil || cf.Pkg.Pkg.Path() != "path/filepath" || (cf.Name() != "Walk" && cf.Name() != "WalkDir") {
				continue
			}
			for _, a := range ci.Common().Args {
				switch x := stripConv(a).(type) {
				case *ssa.MakeClosure:
					if f, ok := x.Fn.(*ssa.Function); ok {
						callbacks = append(callbacks, f)
					}
				case *ssa.Function:
					callbacks = append(callbacks, x)
				}
			}
		}
	}
	sites := 0
	for _, cb := range callbacks {
		for _, ci := range callsIn(cb) {
			if calleeFunc(ci) != notify {
				continue
			}
			sites++
			r.Inst(1)
			name := c.fnName(cb)
			okAll, bad := true, ""
			for _, cl := range c.guards(cb)[ci.Block()] {
				for _, l := range cl {
					if !discoveryGuard(l) {
						okAll = false
						if bad == "" {
							bad = c.litString(l)
						}
					}
				}
			}
			msg := "the announcement of a walked entry is guarded only by the walk's error and IsDir"
			if !okAll {
				msg += " (found: " + bad + ")"
			}
			r.Ob(okAll, name+"|announce-every-non-directory", ci.Pos(), msg+": an entry filtered by anything else (file mode, size, name) is not resumed after a restart although its offsets were saved")
		}
	}
	r.Ob(sites >= 1, "watcher|walk-announces", notify.Pos(), fmt.Sprintf("a filepath.Walk callback of the file input announces entries through watcher.notify (%d sites in %d callbacks)", sites, len(callbacks)))
}

func discoveryGuard(l lit) bool {
	// err == nil / err != nil on an error-typed value
	if _, x, y, ok := cmpLit(l); ok {
		if isNilConst(y) && x.Type().String() == "error" {
			return true
		}
		if isNilConst(x) && y.Type().String() == "error" {
			return true
		}
		return false
	}
	if call, ok := l.v.(*ssa.Call); ok {
		if call.Call.IsInvoke() && call.Call.Method.Name() == "IsDir" {
			return true
		}
		if cf := call.Call.StaticCallee(); cf != nil && cf.Name() == "IsDir" {
			return true
		}
	}
	return false
}
