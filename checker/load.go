package main

import (
	"fmt"
	"go/token"
	"go/types"
	"os"
	"path/filepath"
	"runtime"
	"sort"
	"strings"

	"golang.org/x/tools/go/callgraph"
	"golang.org/x/tools/go/callgraph/cha"
	"golang.org/x/tools/go/callgraph/vta"
	"golang.org/x/tools/go/packages"
	"golang.org/x/tools/go/ssa"
	"golang.org/x/tools/go/ssa/ssautil"
)

type Ctx struct {
	RepoDir   string
	ModPath   string
	Fset      *token.FileSet
	Pkgs      map[string]*packages.Package // by import path (module packages only)
	Prog      *ssa.Program
	NPkgs     int
	ModFuncs  []*ssa.Function // every function (incl. closures, methods) of the module, non-test
	CGKind    string
	Toolchain string
	Tier      string

	cg            *callgraph.Graph
	cha           *callgraph.Graph
	fnInfo        map[*ssa.Function]*fnInfo
	NormNotes     []string
	fileShape     *fileReaderShape
	expandedPred  map[*ssa.Call]bool
	deepFacts     bool
	normPath      bool
	predPureCache map[*ssa.Function]bool
	maskSh        *maskShape
	callersOf     map[*ssa.Function][]ssa.CallInstruction
	allFuncs      map[*ssa.Function]bool
	r             *roles
	br            *batcherRoles
	lockScopeSkip func(*ssa.Function) bool
	unstable      map[string]bool
	bfs           map[*ssa.Function]*boundsFn
	bsums         map[*ssa.Function]*boundsSum
	bsumBusy      map[*ssa.Function]bool
	nonNeg        map[string]int
	fNonNeg       map[string]int
	decScope      []*ssa.Function
	actScope      []*ssa.Function
	nilUnsafe     map[*ssa.Function]bool
	flows         map[*ssa.Function]*lockFlowResult
}

const modulePath = "github.com/ozontech/file.d"

// anchor packages that must be present, else the load is considered broken
var anchorPkgs = []string{
	"pipeline", "pipeline/doif", "pipeline/antispam", "decoder", "offset", "cfg", "cfg/matchrule", "fd",
	"plugin/input/file", "plugin/input/k8s", "plugin/input/kafka", "plugin/input/http",
	"plugin/output/elasticsearch", "plugin/output/file", "plugin/output/http", "plugin/output/kafka",
	"plugin/output/splunk", "plugin/output/loki", "plugin/output/gelf", "plugin/output/devnull", "plugin/output/stdout",
	"plugin/action/join", "plugin/action/join_template", "plugin/action/mask", "plugin/action/throttle",
	"plugin/action/keep_fields", "plugin/action/remove_fields",
}

func load(repo string, overlay map[string][]byte, tags string) (*Ctx, error) {
	pkgs, err := loadPkgs(repo, overlay, tags)
	if err != nil {
		return nil, err
	}
	normOv, normNotes, normalized := normalize(repo, overlay, tags, pkgs)
	if normalized {
		pkgs = nil
		runtime.GC()
		pkgs, err = loadPkgs(repo, normOv, tags)
		if err != nil {
			return nil, err
		}
	}
	if d := os.Getenv("FDCHECK_DUMP_NORMAL"); d != "" {
		for f, b := range normOv {
			_ = os.WriteFile(filepath.Join(d, filepath.Base(f)), b, 0o644)
		}
	}
	if len(pkgs) < 85 {
		return nil, fmt.Errorf("only %d packages loaded from %s (expected >= 85)", len(pkgs), repo)
	}
	c := &Ctx{RepoDir: repo, ModPath: modulePath, Pkgs: map[string]*packages.Package{}, NPkgs: len(pkgs),
		fnInfo: map[*ssa.Function]*fnInfo{}, Toolchain: runtime.Version(), NormNotes: normNotes}
	for _, p := range pkgs {
		c.Pkgs[p.PkgPath] = p
		c.Fset = p.Fset
	}
	for _, a := range anchorPkgs {
		if c.Pkgs[modulePath+"/"+a] == nil {
			return nil, fmt.Errorf("anchor package %s missing from the load", a)
		}
	}
	prog, _ := ssautil.AllPackages(pkgs, ssa.InstantiateGenerics)
	prog.Build()
	c.Prog = prog
	c.allFuncs = ssautil.AllFunctions(prog)
	for fn := range c.allFuncs {
		if c.inModule(fn) && fn.Blocks != nil {
			c.ModFuncs = append(c.ModFuncs, fn)
		}
	}
	sort.Slice(c.ModFuncs, func(i, j int) bool {
		a, b := c.ModFuncs[i], c.ModFuncs[j]
		if a.String() != b.String() {
			return a.String() < b.String()
		}
		return a.Pos() < b.Pos()
	})
	if len(c.ModFuncs) < 1500 {
		return nil, fmt.Errorf("only %d module functions found", len(c.ModFuncs))
	}
	return c, nil
}

func (c *Ctx) inModule(fn *ssa.Function) bool {
	p := fn.Pkg
	for f := fn; p == nil && f != nil; f = f.Parent() {
		p = f.Pkg
		if f.Parent() == nil {
			break
		}
	}
	if p == nil {
		if o := fn.Origin(); o != nil && o.Pkg != nil {
			p = o.Pkg
		}
	}
	if p == nil || p.Pkg == nil {
		return false
	}
	pp := p.Pkg.Path()
	if pp != c.ModPath && !strings.HasPrefix(pp, c.ModPath+"/") {
		return false
	}
	if fn.Pos().IsValid() && strings.HasSuffix(c.Fset.Position(fn.Pos()).Filename, "_test.go") {
		return false
	}
	return true
}

// pkgOf returns the module-relative package path of fn ("pipeline", "plugin/input/file").
func (c *Ctx) pkgOf(fn *ssa.Function) string {
	f := fn
	for f.Parent() != nil {
		f = f.Parent()
	}
	p := f.Pkg
	if p == nil && f.Origin() != nil {
		p = f.Origin().Pkg
	}
	if p == nil {
		return ""
	}
	return strings.TrimPrefix(strings.TrimPrefix(p.Pkg.Path(), c.ModPath), "/")
}

func (c *Ctx) ssaPkg(rel string) *ssa.Package {
	p := c.Pkgs[c.ModPath+"/"+rel]
	if p == nil {
		return nil
	}
	return c.Prog.Package(p.Types)
}

// Func finds a package-level function.
func (c *Ctx) Func(pkg, name string) *ssa.Function {
	p := c.ssaPkg(pkg)
	if p == nil {
		return nil
	}
	return p.Func(name)
}

// Method finds method name on named type typ (pointer or value receiver).
func (c *Ctx) Method(pkg, typ, name string) *ssa.Function {
	p := c.ssaPkg(pkg)
	if p == nil {
		return nil
	}
	t := p.Type(typ)
	if t == nil {
		return nil
	}
	for _, recv := range []types.Type{t.Type(), types.NewPointer(t.Type())} {
		sel := c.Prog.MethodSets.MethodSet(recv).Lookup(p.Pkg, name)
		if sel != nil {
			return c.Prog.MethodValue(sel)
		}
	}
	return nil
}

func (c *Ctx) Named(pkg, typ string) *types.Named {
	p := c.Pkgs[c.ModPath+"/"+pkg]
	if p == nil {
		return nil
	}
	o := p.Types.Scope().Lookup(typ)
	if o == nil {
		return nil
	}
	n, _ := o.Type().(*types.Named)
	return n
}

// IfaceMethod returns the *types.Func of method name of interface pkg.typ.
func (c *Ctx) IfaceMethod(pkg, typ, name string) *types.Func {
	n := c.Named(pkg, typ)
	if n == nil {
		return nil
	}
	it, ok := n.Underlying().(*types.Interface)
	if !ok {
		return nil
	}
	for i := 0; i < it.NumMethods(); i++ {
		if it.Method(i).Name() == name {
			return it.Method(i)
		}
	}
	return nil
}

// Implementers: named module types (T or *T) whose method set satisfies the interface.
func (c *Ctx) Implementers(iface *types.Named) []types.Type {
	it := iface.Underlying().(*types.Interface)
	var out []types.Type
	var paths []string
	for p := range c.Pkgs {
		paths = append(paths, p)
	}
	sort.Strings(paths)
	for _, pp := range paths {
		p := c.Pkgs[pp]
		sc := p.Types.Scope()
		for _, nm := range sc.Names() {
			tn, ok := sc.Lookup(nm).(*types.TypeName)
			if !ok || tn.IsAlias() {
				continue
			}
			if _, isIface := tn.Type().Underlying().(*types.Interface); isIface {
				continue
			}
			if strings.HasSuffix(c.Fset.Position(tn.Pos()).Filename, "_test.go") {
				continue
			}
			if types.Implements(types.NewPointer(tn.Type()), it) {
				out = append(out, types.NewPointer(tn.Type()))
			} else if types.Implements(tn.Type(), it) {
				out = append(out, tn.Type())
			}
		}
	}
	return out
}

// MethodOf returns the ssa function for method name of receiver type t.
func (c *Ctx) MethodOf(t types.Type, name string) *ssa.Function {
	ms := c.Prog.MethodSets.MethodSet(t)
	for i := 0; i < ms.Len(); i++ {
		if ms.At(i).Obj().Name() == name {
			return c.Prog.MethodValue(ms.At(i))
		}
	}
	return nil
}

// chaGraph: class-hierarchy call graph (over-approximate); used where a larger scope is the safe direction.
func (c *Ctx) chaGraph() *callgraph.Graph {
	if c.cha == nil {
		c.cha = cha.CallGraph(c.Prog)
	}
	return c.cha
}

func (c *Ctx) callgraph() *callgraph.Graph {
	if c.cg != nil {
		return c.cg
	}
	g := c.chaGraph()
	c.CGKind = "cha"
	if c.Tier == "thorough" {
		g = vta.CallGraph(c.allFuncs, g)
		c.CGKind = "cha+vta"
	}
	c.cg = g
	return g
}
