package main

import (
	"fmt"
	"go/token"
	"go/types"
	"sort"
	"strings"

	"golang.org/x/tools/go/ssa"
)

const decoderPkg = modulePath + "/decoder"

func init() {
	explain("C12", "Static necessary conditions of 'decoders are total and do not touch the caller's buffer outside the line', decided exhaustively over the source: every index and slice expression in the decode path (all non-constructor functions of package decoder reachable from the decoder entry points, plus Pipeline.In's own body and its input-bytes check) is either discharged by a difference-constraint bounds prover over go/ssa (dominating branch facts, executed definitions, library post-conditions, helper summaries, φ per incoming edge; slices checked against cap as the language does) or listed in the reviewed table with its reason; no process-exit call, unchecked type assertion or explicit panic is reachable there outside the reviewed table; every store through / append onto a slice derived from the caller's data parameter is enumerated (reviewed set); mutex-protected decoder scratch state is neither accessed nor aliased outside its lock. "+
		"NOT decided: fidelity of decode/re-encode, 'exactly its fields', valid JSON after cuts.",
		"go/types, go/ssa and x/tools call resolution are correct", "library post-conditions of bytes/strings/utf8 index functions as documented", "struct fields written only by constructors/Start are stable during decoding",
		"reviewed_obligations.json entries were checked by reading the code; each names one expression in one function")
	reg("C12", "C12.B", "E4", "every index/slice in the decode path is in bounds (prover or reviewed table)", 150, ruleDecoderBounds)
	reg("C12", "C12.X", "E5", "no process exit / explicit panic reachable in the decode path outside the reviewed table", 1, ruleDecoderExits)
	reg("C12", "C12.T", "E5", "no unchecked type assertion in the decode path outside the reviewed table", 1, ruleDecoderAsserts)
	reg("C12", "C12.W", "E6", "writes into the caller's buffer are the enumerated, reviewed ones", 1, ruleCallerBuffer)
	reg("C12", "C12.L", "E3", "mutex-protected decoder scratch state: accessed under the lock, no alias used after release", 1, ruleDecoderScratch)
	reg("C12", "C12.D", "E2", "no integer division or remainder by a value that may be zero in the decode path", 1, ruleDecoderDivisions)
	reg("C12", "C12.A", "E6", "decoder results are not unsafe views of pooled or decoder-owned scratch storage", 1, ruleDecoderBufferViews)
	reg("C12", "C12.R", "E2", "Pipeline.In returns the event to the pool on a decode error (same rule as C05.R2)", 1, ruleGetStreamOrBack)
}

// decodeScope: functions of package decoder reachable from the entry points, plus In and its bytes check.
func (c *Ctx) decodeScope() []*ssa.Function {
	if c.decScope != nil {
		return c.decScope
	}
	isCtor := func(fn *ssa.Function) bool {
		for f := fn; f != nil; f = f.Parent() {
			n := f.Name()
			if strings.HasPrefix(n, "New") || strings.HasPrefix(n, "new") || strings.HasPrefix(n, "extract") || n == "init" || n == "anyToInt" || strings.HasPrefix(n, "compile") {
				return true
			}
		}
		return false
	}
	entries := map[*ssa.Function]bool{}
	dec := c.Named("decoder", "Decoder")
	if dec != nil {
		for _, t := range c.Implementers(dec) {
			for _, m := range []string{"Decode", "DecodeToJson"} {
				if f := c.MethodOf(t, m); f != nil && f.Blocks != nil {
					entries[f] = true
				}
			}
		}
	}
	for _, n := range []string{"DecodeCRI", "DecodePostgres", "DecodePostgresToJson"} {
		if f := c.Func("decoder", n); f != nil {
			entries[f] = true
		}
	}
	seen := map[*ssa.Function]bool{}
	var visit func(f *ssa.Function)
	visit = func(f *ssa.Function) {
		if f == nil || seen[f] || f.Blocks == nil || c.pkgOf(f) != "decoder" || isCtor(f) || !c.inModule(f) {
			return
		}
		seen[f] = true
		for _, b := range f.Blocks {
			for _, in := range b.Instrs {
				if ci, ok := in.(ssa.CallInstruction); ok {
					visit(calleeFunc(ci))
					if calleeFunc(ci) == nil {
						// interface method or function value: every candidate of package decoder (CHA)
						if _, isBuiltin := ci.Common().Value.(*ssa.Builtin); !isBuiltin {
							if n := c.chaGraph().Nodes[f]; n != nil {
								for _, e := range n.Out {
									if e.Site == ci && e.Callee.Func != nil {
										visit(e.Callee.Func)
									}
								}
							}
						}
					}
				}
				for _, op := range in.Operands(nil) {
					if *op == nil {
						continue
					}
					if mc, ok := (*op).(*ssa.MakeClosure); ok {
						if g, ok := mc.Fn.(*ssa.Function); ok {
							visit(g)
						}
					}
					if g, ok := (*op).(*ssa.Function); ok {
						visit(g)
					}
				}
			}
		}
	}
	for f := range entries {
		visit(f)
	}
	if in := c.inImpl(); in != nil {
		seen[in] = true
		for _, ci := range callsIn(in) {
			if f := calleeFunc(ci); f != nil && c.pkgOf(f) == "pipeline" && f.Signature.Results().Len() == 3 {
				seen[f] = true // checkInputBytes
			}
		}
	}
	for f := range seen {
		c.decScope = append(c.decScope, f)
	}
	sort.Slice(c.decScope, func(i, j int) bool { return c.fnName(c.decScope[i]) < c.fnName(c.decScope[j]) })
	return c.decScope
}

func (c *Ctx) runBounds(r *Rule, scope []*ssa.Function) {
	for _, fn := range scope {
		bf := c.bounds(fn)
		obs := bf.obligations()
		keys, nkeys := obKeys(c, fn, obs)
		for i, o := range obs {
			r.Inst(1)
			msg := "in bounds (difference-constraint proof)"
			if !o.ok {
				msg = "cannot show " + o.why + " for " + o.expr + ": with a suitable input this " + o.kind + " expression panics and takes the process down"
			}
			r.ObN(o.ok, keys[i], nkeys[i], o.in.Pos(), msg)
		}
	}
}

func ruleDecoderBounds(c *Ctx, r *Rule) {
	scope := c.decodeScope()
	if len(scope) < 20 {
		r.Unresolved(fmt.Sprintf("decode scope (found %d functions)", len(scope)))
		return
	}
	r.Note("scope: %d functions", len(scope))
	c.runBounds(r, scope)
}

// exitsIn reports no-return instructions (process exit / panic) in the scope.
func (c *Ctx) runExits(r *Rule, scope []*ssa.Function) {
	for _, fn := range scope {
		n := 0
		for _, b := range fn.Blocks {
			for _, in := range b.Instrs {
				if !isNoReturn(in) {
					continue
				}
				// a panic inside a deferred recover handler re-raise etc. is still an exit
				n++
				what := "panic"
				if ci, ok := in.(ssa.CallInstruction); ok {
					if f := calleeFunc(ci); f != nil {
						what = f.Name()
					}
				}
				r.Inst(1)
				g := c.clausesString(c.guards(fn)[b])
				if len(g) > 160 {
					g = g[:160] + "…"
				}
				r.Ob(false, fmt.Sprintf("%s|exit|%s#%d", c.fnName(fn), what, n), in.Pos(), "a process-exit / panic call ("+what+") is reachable on the event path; guards: "+g)
			}
		}
	}
}

func ruleDecoderExits(c *Ctx, r *Rule) {
	scope := c.decodeScope()
	c.runExits(r, scope)
	r.Inst(1)
	r.Ob(len(scope) > 0, "scope", token.NoPos, fmt.Sprintf("%d functions scanned for exits", len(scope)))
}

func (c *Ctx) runAsserts(r *Rule, scope []*ssa.Function) {
	for _, fn := range scope {
		n := 0
		for _, b := range fn.Blocks {
			for _, in := range b.Instrs {
				ta, ok := in.(*ssa.TypeAssert)
				if !ok || ta.CommaOk {
					continue
				}
				n++
				r.Inst(1)
				r.Ob(false, fmt.Sprintf("%s|assert|%s#%d", c.fnName(fn), types.TypeString(ta.AssertedType, func(p *types.Package) string { return p.Name() }), n), ta.Pos(),
					"unchecked type assertion "+c.path(ta)+" on the event path panics when the dynamic type differs")
			}
		}
	}
}

func ruleDecoderAsserts(c *Ctx, r *Rule) {
	scope := c.decodeScope()
	c.runAsserts(r, scope)
	r.Inst(1)
	r.Ob(len(scope) > 0, "scope", token.NoPos, fmt.Sprintf("%d functions scanned for unchecked type assertions", len(scope)))
}

// derivedFromParamBuf: v is (a slice of / append onto / φ of) the []byte parameter p.
func derivedFromParamBuf(v ssa.Value, p *ssa.Parameter) bool {
	seen := map[ssa.Value]bool{}
	var walk func(v ssa.Value, d int) bool
	walk = func(v ssa.Value, d int) bool {
		if v == nil || d > 10 || seen[v] {
			return false
		}
		seen[v] = true
		if v == ssa.Value(p) {
			return true
		}
		switch x := v.(type) {
		case *ssa.Slice:
			return walk(x.X, d+1)
		case *ssa.Phi:
			for _, e := range x.Edges {
				if walk(e, d+1) {
					return true
				}
			}
		case *ssa.Call:
			if b, ok := x.Call.Value.(*ssa.Builtin); ok && b.Name() == "append" {
				return walk(x.Call.Args[0], d+1)
			}
			// helpers returning a sub-slice of their argument (bytes.Trim*, module helpers)
			if f := x.Call.StaticCallee(); f != nil && (shrinkFns[qualName(f)]) {
				return walk(x.Call.Args[0], d+1)
			}
		case *ssa.UnOp:
			if al := varOf(x); al != nil {
				for _, ref := range *al.Referrers() {
					if st, ok := ref.(*ssa.Store); ok && st.Addr == ssa.Value(al) && walk(st.Val, d+1) {
						return true
					}
				}
			}
			if fv, ok := x.X.(*ssa.FreeVar); ok {
				// captured variable of the enclosing function
				fn := fv.Parent()
				for i, f := range fn.FreeVars {
					if f != fv || fn.Parent() == nil {
						continue
					}
					for _, b := range fn.Parent().Blocks {
						for _, in := range b.Instrs {
							if mc, ok := in.(*ssa.MakeClosure); ok && mc.Fn == ssa.Value(fn) && i < len(mc.Bindings) {
								if al, ok := mc.Bindings[i].(*ssa.Alloc); ok {
									for _, ref := range *al.Referrers() {
										if st, ok := ref.(*ssa.Store); ok && st.Addr == ssa.Value(al) && walk(st.Val, d+1) {
											return true
										}
									}
								}
							}
						}
					}
				}
			}
		}
		return false
	}
	return walk(v, 0)
}

func ruleCallerBuffer(c *Ctx, r *Rule) {
	scope := c.decodeScope()
	for _, fn := range scope {
		// the caller's buffer: []byte parameters of the function (and of its enclosing function for closures)
		var bufs []*ssa.Parameter
		for f := fn; f != nil; f = f.Parent() {
			for _, p := range f.Params {
				if sl, ok := p.Type().Underlying().(*types.Slice); ok {
					if b, ok := sl.Elem().Underlying().(*types.Basic); ok && b.Kind() == types.Uint8 {
						bufs = append(bufs, p)
					}
				}
			}
		}
		if len(bufs) == 0 {
			continue
		}
		n := 0
		for _, b := range fn.Blocks {
			for _, in := range b.Instrs {
				var target ssa.Value
				what := ""
				switch x := in.(type) {
				case *ssa.Store:
					if ia, ok := x.Addr.(*ssa.IndexAddr); ok {
						target, what = ia.X, "store "+c.path(ia)
					}
				case *ssa.Call:
					if bi, ok := x.Call.Value.(*ssa.Builtin); ok {
						switch bi.Name() {
						case "append":
							target, what = x.Call.Args[0], "append onto "+c.path(x.Call.Args[0])
						case "copy":
							target, what = x.Call.Args[0], "copy into "+c.path(x.Call.Args[0])
						}
					}
				}
				if target == nil {
					continue
				}
				for _, p := range bufs {
					if derivedFromParamBuf(target, p) {
						n++
						r.Inst(1)
						r.Ob(false, fmt.Sprintf("%s|buffer-write#%d|%s", c.fnName(fn), n, strings.SplitN(what, " ", 2)[0]), in.Pos(),
							what+" writes into memory of the caller's "+p.Name()+" buffer: it must stay inside the line (an append onto a prefix that reaches the end of the line overwrites the next record of a shared read buffer)")
						break
					}
				}
			}
		}
	}
	r.Inst(1)
	r.Ob(true, "scope", token.NoPos, fmt.Sprintf("%d functions scanned for writes into the data parameter", len(scope)))
}

func ruleDecoderScratch(c *Ctx, r *Rule) {
	p := c.Pkgs[decoderPkg]
	if p == nil {
		r.Unresolved("package decoder")
		return
	}
	// struct types with a mutex field: every other slice/map field is protected by it
	for _, nm := range p.Types.Scope().Names() {
		tn, ok := p.Types.Scope().Lookup(nm).(*types.TypeName)
		if !ok {
			continue
		}
		named, ok := tn.Type().(*types.Named)
		if !ok {
			continue
		}
		st, ok := named.Underlying().(*types.Struct)
		if !ok {
			continue
		}
		lockField := ""
		for i := 0; i < st.NumFields(); i++ {
			if typeIs(st.Field(i).Type(), "sync", "Mutex") || typeIs(st.Field(i).Type(), "sync", "RWMutex") {
				lockField = st.Field(i).Name()
			}
		}
		if lockField == "" {
			continue
		}
		for i := 0; i < st.NumFields(); i++ {
			f := st.Field(i)
			switch f.Type().Underlying().(type) {
			case *types.Slice, *types.Map:
			default:
				continue
			}
			r.Inst(1)
			n := 0
			for _, a := range c.fieldAccesses(decoderPkg, named.Obj().Name(), f.Name()) {
				if isFreshAlloc(refOf(a.base).root) {
					continue
				}
				n++
				root := refOf(a.base).root
				ref := lockRef{root, "." + lockField}
				flow := c.flowMust(a.fn)
				_, held := flow.at(a.in)[ref.key()]
				key := fmt.Sprintf("%s|%s.%s#%d", c.fnName(a.fn), named.Obj().Name(), f.Name(), n)
				r.Ob(held, key+"|locked", a.in.Pos(), "shared scratch field "+f.Name()+" is accessed with "+lockField+" held")
				// alias escape: the loaded value is not used where the lock is no longer held
				if v, ok := a.in.(ssa.Value); ok && !a.write {
					bad := c.usedWithoutLock(v, flow, ref, 0, map[ssa.Value]bool{})
					msg := "no alias of the shared scratch slice is used after the lock is released"
					if bad != nil {
						msg = "a value loaded from the shared scratch field is used at " + c.pos(bad.Pos()) + " where " + lockField + " is not held: another decoding goroutine refills the same backing array meanwhile"
					}
					r.Ob(bad == nil, key+"|no-alias-after-unlock", a.in.Pos(), msg)
				}
			}
		}
	}
}

// usedWithoutLock follows v through slices/φ/range and returns a use where ref is not held.
func (c *Ctx) usedWithoutLock(v ssa.Value, flow *lockFlowResult, ref lockRef, depth int, seen map[ssa.Value]bool) ssa.Instruction {
	if depth > 6 || seen[v] || v.Referrers() == nil {
		return nil
	}
	seen[v] = true
	for _, u := range *v.Referrers() {
		if _, isDbg := u.(*ssa.DebugRef); isDbg {
			continue
		}
		if u.Parent() != flow.fn {
			continue
		}
		if _, held := flow.at(u)[ref.key()]; !held {
			if _, isRet := u.(*ssa.Return); !isRet {
				return u
			}
		}
		switch x := u.(type) {
		case *ssa.Slice, *ssa.Phi, *ssa.Range, *ssa.IndexAddr, *ssa.ChangeType:
			if bad := c.usedWithoutLock(x.(ssa.Value), flow, ref, depth+1, seen); bad != nil {
				return bad
			}
		case *ssa.Store:
			// stored into a local variable cell: follow its loads
			if al, ok := x.Addr.(*ssa.Alloc); ok && x.Val == v {
				for _, r2 := range *al.Referrers() {
					if ld, ok := r2.(*ssa.UnOp); ok {
						if _, held := flow.at(ld)[ref.key()]; !held {
							return ld
						}
						if bad := c.usedWithoutLock(ld, flow, ref, depth+1, seen); bad != nil {
							return bad
						}
					}
				}
			}
		}
	}
	return nil
}

func ruleDecoderDivisions(c *Ctx, r *Rule) {
	c.runDivisions(r, c.decodeScope())
	r.Inst(1)
	r.Ob(true, "scope", token.NoPos, "integer divisions in the decode scope enumerated")
}

func ruleDecoderBufferViews(c *Ctx, r *Rule) {
	c.runBufferViews(r, c.decodeScope())
	r.Inst(1)
}
