package main

import (
	"fmt"
	"go/token"
	"go/types"
	"strings"

	"golang.org/x/tools/go/ssa"
)

const kafkaInPkg = modulePath + "/plugin/input/kafka"

func init() {
	explain("C10", "Static necessary conditions of the Kafka input's commit contract, decided exhaustively over the source: the pack/unpack pairs for (topic index, partition) and (offset, leader epoch) agree on shift and mask, and the marked offset is unpacked+1; the mark is built only from the committed event's own SourceID/Offset and config.Topics[index]; the topic index packed by the consumer is the position of the topic in the same config.Topics slice; offsets are marked nowhere but in the acknowledgement (InputPlugin.Commit); an input that spreads one source over all processors (UseSpread) must keep ordering state in Commit — a Commit without any store or lock that forwards an event-derived offset to a forward-only head is reported. "+
		"NOT decided: that the marked head never passes an unfinished record under a concrete schedule.",
		"go/types, go/ssa and x/tools call resolution are correct", "kgo.Client.MarkCommitOffsets never rewinds a partition head (franz-go documentation and source)")
	reg("C10", "C10.R1", "E7", "pack/unpack agreement (shift, mask = 2^shift-1) and marked offset = unpacked+1", 2, rulePackUnpack)
	reg("C10", "C10.R2", "E6", "the mark is built from the committed event's own id/offset and config.Topics[index]", 1, ruleMarkProvenance)
	reg("C10", "C10.R3", "E1", "spread routing requires a reordering Commit", 1, ruleSpreadNeedsOrdering)
	reg("C10", "C10.R4", "E7", "topic index = position in config.Topics on both sides", 1, ruleTopicIndex)
	reg("C10", "C10.R5", "E1", "offsets are marked only by InputPlugin.Commit", 1, ruleWhoMarks)
	reg("C10", "C10.R6", "E6", "an event carries the offset and leader epoch of the very record whose value it carries", 1, ruleConsumeIdentity)
	reg("C10", "C10.R8", "E1", "only the output acknowledgement reaches InputPlugin.Commit: discards and holds never mark (same rule as C01.R2)", 4, ruleNotifyCallers)
	reg("C10", "C10.R9", "E2", "what is acknowledged was sent: a batch that contains a deliverable event is handed to the send function (same rule as C19.R5 / C01.R11)", 1, ruleForEachShape)
	reg("C10", "C10.R7", "E1", "only marked offsets reach the broker: AutoCommitMarks, and CommitMarkedOffsets as the only explicit commit", 2, ruleOnlyMarkedCommitted)
}

type packFn struct {
	fn    *ssa.Function
	shift int64
	mask  int64 // unpackers only
	plus1 bool
}

func rulePackUnpack(c *Ctx, r *Rule) {
	var packers, unpackers []packFn
	for _, fn := range c.ModFuncs {
		if c.pkgOf(fn) != "plugin/input/kafka" || fn.Signature.Recv() != nil || fn.Parent() != nil {
			continue
		}
		var shl, shr, and []*ssa.BinOp
		plus1 := false
		for _, b := range fn.Blocks {
			for _, in := range b.Instrs {
				if bo, ok := in.(*ssa.BinOp); ok {
					switch bo.Op {
					case token.SHL:
						shl = append(shl, bo)
					case token.SHR:
						shr = append(shr, bo)
					case token.AND:
						and = append(and, bo)
					case token.ADD:
						if k, ok := constInt(bo.Y); ok && k == 1 {
							if x, ok := bo.X.(*ssa.BinOp); ok && x.Op == token.SHR {
								plus1 = true
							}
						}
					}
				}
			}
		}
		if len(shl) == 1 && len(shr) == 0 {
			if k, ok := constInt(stripConv(shl[0].Y)); ok {
				packers = append(packers, packFn{fn: fn, shift: k})
			}
		}
		if len(shr) == 1 && len(and) == 1 && len(shl) == 0 {
			k, ok1 := constInt(stripConv(shr[0].Y))
			m, ok2 := constInt(stripConv(and[0].Y))
			if ok1 && ok2 {
				unpackers = append(unpackers, packFn{fn: fn, shift: k, mask: m, plus1: plus1})
			}
		}
	}
	// pair by packed type: packer result type == unpacker parameter type
	for _, p := range packers {
		rt := p.fn.Signature.Results().At(0).Type()
		var u *packFn
		for i := range unpackers {
			if len(unpackers[i].fn.Params) == 1 && types.Identical(unpackers[i].fn.Params[0].Type(), rt) {
				u = &unpackers[i]
			}
		}
		name := c.fnName(p.fn)
		if u == nil {
			r.Ob(false, name+"|pair", p.fn.Pos(), "no unpack function for the packed "+rt.String())
			continue
		}
		r.Inst(1)
		r.Ob(p.shift == u.shift, name+"|shift", p.fn.Pos(), fmt.Sprintf("pack shift %d = unpack shift %d (%s)", p.shift, u.shift, c.fnName(u.fn)))
		r.Ob(u.mask == (int64(1)<<uint(u.shift))-1, name+"|mask", u.fn.Pos(), fmt.Sprintf("unpack mask %#x = 2^%d-1", u.mask, u.shift))
		// the low part packed fits the mask by type only if callers respect it; the high part is shifted, low part added (not or-ed with overlap)
		if strings.Contains(strings.ToLower(rt.String()), "int64") {
			r.Ob(u.plus1, name+"|plus-one", u.fn.Pos(), "the offset marked for commit is the record's offset + 1 (the next record to read), computed in the unpacker")
		}
		// both directions are pure arithmetic: no value of the packed word is treated specially (a branch
		// on one bit pattern — "0xFFFF means epoch -1" — misreads the records that legitimately carry it)
		r.Ob(len(p.fn.Blocks) == 1 && len(u.fn.Blocks) == 1, name+"|straight-line", u.fn.Pos(), fmt.Sprintf("pack and unpack are straight-line arithmetic (%s has %d blocks, %s has %d)", c.fnName(p.fn), len(p.fn.Blocks), c.fnName(u.fn), len(u.fn.Blocks)))
	}
}

func (c *Ctx) kafkaCommit() *ssa.Function {
	ro := c.roles()
	for _, t := range c.Implementers(ro.InputPlugin) {
		cm := c.MethodOf(t, "Commit")
		if cm != nil && c.pkgOf(cm) == "plugin/input/kafka" {
			return cm
		}
	}
	return nil
}

func isMarkCall(ci ssa.CallInstruction) bool {
	f := calleeFunc(ci)
	if f == nil || f.Signature.Recv() == nil {
		return false
	}
	return typeIs(f.Signature.Recv().Type(), "github.com/twmb/franz-go/pkg/kgo", "Client") && strings.HasPrefix(f.Name(), "MarkCommit")
}

func ruleMarkProvenance(c *Ctx, r *Rule) {
	cm := c.kafkaCommit()
	if cm == nil {
		r.Unresolved("kafka InputPlugin.Commit")
		return
	}
	r.Inst(1)
	name := c.fnName(cm)
	ev := cm.Params[1]
	var marks []ssa.CallInstruction
	var body []ssa.CallInstruction // calls of Commit and of the function literals inside it
	for _, f := range append([]*ssa.Function{cm}, allAnon(cm)...) {
		body = append(body, callsIn(f)...)
	}
	for _, ci := range body {
		if isMarkCall(ci) {
			marks = append(marks, ci)
		}
	}
	r.Ob(len(marks) == 1, name+"|single-mark", cm.Pos(), fmt.Sprintf("%d mark calls in Commit (expected 1)", len(marks)))
	// every non-constant leaf the function computes with comes from the event parameter's SourceID/Offset, or config.Topics
	okSrc, okOff, okTopic := false, false, false
	bad := ""
	for _, ci := range body {
		f := calleeFunc(ci)
		if f == nil || c.pkgOf(f) != "plugin/input/kafka" || f.Signature.Recv() != nil || f.Parent() != nil || len(ci.Common().Args) == 0 {
			continue
		}
		a := ci.Common().Args[0]
		o, fl, base, ok := loadedField(a)
		if !ok || base != ssa.Value(ev) || !inPkg(o, pipelinePkg) {
			bad = c.path(a)
			continue
		}
		switch fl {
		case "SourceID":
			okSrc = true
		case "Offset":
			okOff = true
		default:
			bad = "event." + fl
		}
	}
	for _, fn2 := range append([]*ssa.Function{cm}, allAnon(cm)...) {
		for _, in := range allInstrs(fn2) {
			if ia, ok := in.(*ssa.IndexAddr); ok {
				if _, f, _, okf := loadedField(ia.X); okf && f == "Topics" {
					// index is the unpacked topic index (extract #0 of the source-id unpacker)
					if e, ok := ia.Index.(*ssa.Extract); ok && e.Index == 0 {
						okTopic = true
					}
				}
			}
		}
	}
	r.Ob(okSrc && okOff && bad == "", name+"|event-provenance", cm.Pos(), "topic index, partition, offset and epoch are unpacked from the committed event's own SourceID and Offset ("+bad+")")
	r.Ob(okTopic, name+"|topic-from-config", cm.Pos(), "the topic is config.Topics[unpacked index]")
}

func ruleSpreadNeedsOrdering(c *Ctx, r *Rule) {
	ro := c.roles()
	if ro.ctlSpread == nil {
		r.Unresolved("InputPluginController.UseSpread")
		return
	}
	for _, t := range c.Implementers(ro.InputPlugin) {
		start := c.MethodOf(t, "Start")
		cm := c.MethodOf(t, "Commit")
		if start == nil || cm == nil || start.Blocks == nil {
			continue
		}
		spreads := false
		for _, ci := range callsIn(start) {
			if invokesMethod(ci, ro.ctlSpread) {
				spreads = true
			}
		}
		if !spreads {
			continue
		}
		r.Inst(1)
		name := c.fnName(cm)
		// does Commit forward something event-derived to an external call?
		forwards := false
		for _, ci := range callsIn(cm) {
			if f := calleeFunc(ci); f != nil && !c.inModule(f) && len(ci.Common().Args) > 1 {
				forwards = true
			}
			if ci.Common().IsInvoke() {
				forwards = true
			}
		}
		if !forwards {
			r.Ob(true, name+"|no-commit-action", cm.Pos(), "spread input whose Commit does nothing with the event (nothing can be acknowledged early)")
			continue
		}
		// any ordering state: a store to receiver-reachable memory, or a lock
		state := false
		for _, b := range cm.Blocks {
			for _, in := range b.Instrs {
				switch x := in.(type) {
				case *ssa.Store:
					if refOf(x.Addr).root == ssa.Value(cm.Params[0]) {
						state = true
					}
				case *ssa.MapUpdate:
					if refOf(x.Map).root == ssa.Value(cm.Params[0]) {
						state = true
					}
				case ssa.CallInstruction:
					if op, _ := syncLockOp(x); op == opLock {
						state = true
					}
				}
			}
		}
		if state {
			r.Note("%s keeps state in Commit: undecided by design (not alarmed)", name)
			r.Ob(true, name+"|has-ordering-state", cm.Pos(), "Commit keeps some state (whether it restores order is not decided)")
			continue
		}
		r.Ob(false, name+"|stateless-commit-under-spread", cm.Pos(),
			"this input spreads the records of one partition over all processors (UseSpread), so acknowledgements arrive in completion order; its Commit keeps no state and forwards each event's offset+1 to a forward-only head (MarkCommitOffsets never rewinds): as soon as a later record is acknowledged first, the marked offset passes an unfinished record")
	}
}

func ruleTopicIndex(c *Ctx, r *Rule) {
	// every update of Plugin.idByTopic: key = Topics[i], value = i, i ascending over the slice loaded from config.Topics
	n := 0
	for _, fn := range c.ModFuncs {
		if c.pkgOf(fn) != "plugin/input/kafka" {
			continue
		}
		for _, b := range fn.Blocks {
			for _, in := range b.Instrs {
				mu, ok := in.(*ssa.MapUpdate)
				if !ok {
					continue
				}
				if _, f, _, okf := loadedField(mu.Map); !okf || f != "idByTopic" {
					continue
				}
				n++
				ok2 := false
				if u, isU := mu.Key.(*ssa.UnOp); isU && u.Op == token.MUL {
					if ia, isIA := u.X.(*ssa.IndexAddr); isIA {
						if _, f, _, okf := loadedField(ia.X); okf && f == "Topics" && ia.Index == mu.Value && ascendingFromZero(ia.Index) {
							ok2 = true
						}
					}
				}
				r.Ob(ok2, fmt.Sprintf("%s|idByTopic#%d", c.fnName(fn), n), mu.Pos(), "idByTopic[config.Topics[i]] = i for i = 0,1,2,…: the index packed into the source id is the topic's position in the very slice Commit indexes (key="+c.path(mu.Key)+", value="+c.path(mu.Value)+")")
			}
		}
	}
	r.Inst(n)
	// the consumer packs the topic id it was given from that map
	okPack := false
	for _, fn := range c.ModFuncs {
		if c.pkgOf(fn) != "plugin/input/kafka" {
			continue
		}
		for _, ci := range callsIn(fn) {
			if f := calleeFunc(ci); f != nil && c.pkgOf(f) == "plugin/input/kafka" && f.Signature.Recv() == nil && len(ci.Common().Args) == 2 {
				if _, fl, _, ok := loadedField(ci.Common().Args[0]); ok && fl == "topicID" {
					okPack = true
				}
			}
		}
	}
	r.Ob(okPack, "consumer|packs-topic-id", token.NoPos, "the consumer packs its topicID into the source id")
	// topicID is filled from the idByTopic map by topic name
	okFill := false
	for _, fn := range c.ModFuncs {
		if c.pkgOf(fn) != "plugin/input/kafka" {
			continue
		}
		for _, b := range fn.Blocks {
			for _, in := range b.Instrs {
				if st, ok := in.(*ssa.Store); ok {
					if _, f, _, okf := fieldOf(st.Addr); okf && f == "topicID" {
						v := st.Val
						if e, isE := v.(*ssa.Extract); isE {
							v = e.Tuple
						}
						if lk, ok := v.(*ssa.Lookup); ok {
							if _, mf, _, okm := loadedField(lk.X); okm && mf == "idByTopic" {
								okFill = true
							}
						}
					}
				}
			}
		}
	}
	r.Ob(okFill, "consumer|topic-id-from-map", token.NoPos, "a partition consumer's topicID is idByTopic[topic]")
}

func ruleWhoMarks(c *Ctx, r *Rule) {
	cm := c.kafkaCommit()
	if cm == nil {
		r.Unresolved("kafka InputPlugin.Commit")
		return
	}
	n := 0
	c.eachCall(func(fn *ssa.Function, ci ssa.CallInstruction) {
		if !isMarkCall(ci) {
			return
		}
		n++
		r.Ob(fn == cm, c.fnName(fn)+"|mark", ci.Pos(), "offsets are marked for commit only by the acknowledgement path (InputPlugin.Commit): a mark made while consuming passes records that are still in the pipeline")
	})
	r.Inst(n)
}

const kgoPkg = "github.com/twmb/franz-go/pkg/kgo"

// ruleConsumeIdentity: the event handed to the pipeline carries the identity of the record whose
// value it carries: offset and leader epoch of that same record (per record, not per fetch).
func ruleConsumeIdentity(c *Ctx, r *Rule) {
	ro := c.roles()
	pack := c.Func("plugin/input/kafka", "assembleOffset")
	if ro.ctlIn == nil || pack == nil {
		r.Unresolved("InputPluginController.In / assembleOffset")
		return
	}
	n := 0
	for _, fn := range c.ModFuncs {
		if c.pkgOf(fn) != "plugin/input/kafka" {
			continue
		}
		for _, ci := range callsIn(fn) {
			cc := ci.Common()
			if !cc.IsInvoke() || cc.Method.Name() != "In" || !(cc.Method == ro.ctlIn || types.Identical(sigNoRecv(cc.Method), sigNoRecv(ro.ctlIn))) {
				continue
			}
			n++
			r.Inst(1)
			key := fmt.Sprintf("%s|in#%d", c.fnName(fn), n)
			// data = rec.Value
			o, f, rec, ok := loadedField(cc.Args[3])
			okData := ok && f == "Value" && o != nil && o.Obj().Name() == "Record"
			r.Ob(okData, key+"|data-is-record-value", ci.Pos(), "the data handed over is a record's value: "+c.path(cc.Args[3]))
			if !okData {
				continue
			}
			// offset = assembleOffset(rec) of the same record
			okOff := false
			desc := "offsets argument not built by pipeline.NewOffsets at the call"
			if no, isCall := cc.Args[2].(*ssa.Call); isCall && no.Call.StaticCallee() != nil && no.Call.StaticCallee().Name() == "NewOffsets" {
				desc = c.path(no.Call.Args[0])
				if pc, isPack := stripConv(no.Call.Args[0]).(*ssa.Call); isPack && pc.Call.StaticCallee() == pack && len(pc.Call.Args) == 1 && (pc.Call.Args[0] == rec || sameVar(pc.Call.Args[0], rec)) {
					okOff = true
				}
			}
			r.Ob(okOff, key+"|offset-of-same-record", ci.Pos(), "the event's offset is assembleOffset(record) for the very record whose value is handed over (offset and leader epoch per record, not per fetch): "+desc)
			// source id: assembleSourceID(topic index, partition)
			okSrc := false
			if sc, isCall := stripConv(cc.Args[0]).(*ssa.Call); isCall && sc.Call.StaticCallee() != nil && sc.Call.StaticCallee().Name() == "assembleSourceID" {
				okSrc = true
			}
			r.Ob(okSrc, key+"|source-id-packed", ci.Pos(), "the source id is assembleSourceID(topic index, partition)")
		}
	}
	r.Ob(n >= 1, "plugin/input/kafka|consumes", token.NoPos, "the kafka input hands records to the pipeline")
}

// ruleOnlyMarkedCommitted: what reaches the broker is only what was marked. The client commits
// marks (AutoCommitMarks) and the only explicit commit is CommitMarkedOffsets.
func ruleOnlyMarkedCommitted(c *Ctx, r *Rule) {
	n := 0
	c.eachCall(func(fn *ssa.Function, ci ssa.CallInstruction) {
		if !c.inModule(fn) {
			return
		}
		f := calleeFunc(ci)
		if f == nil || f.Signature.Recv() == nil || !typeIs(f.Signature.Recv().Type(), kgoPkg, "Client") || !strings.HasPrefix(f.Name(), "Commit") {
			return
		}
		if c.pkgOf(fn) != "plugin/input/kafka" {
			return
		}
		n++
		r.Inst(1)
		r.Ob(f.Name() == "CommitMarkedOffsets", c.fnName(fn)+"|"+f.Name(), ci.Pos(), "the only explicit commit is CommitMarkedOffsets: committing 'uncommitted' or polled offsets passes records that are still unacknowledged in the pipeline")
	})
	// the client is configured to auto-commit marks only
	marks, disabled := 0, 0
	var newClient ssa.CallInstruction
	c.eachCall(func(fn *ssa.Function, ci ssa.CallInstruction) {
		if c.pkgOf(fn) != "plugin/input/kafka" {
			return
		}
		f := calleeFunc(ci)
		if f == nil || f.Pkg == nil || f.Pkg.Pkg.Path() != kgoPkg {
			return
		}
		switch f.Name() {
		case "AutoCommitMarks":
			marks++
		case "DisableAutoCommit":
			disabled++
		case "NewClient":
			newClient = ci
		}
	})
	r.Inst(1)
	var pos token.Pos
	if newClient != nil {
		pos = newClient.Pos()
	}
	r.Ob(newClient != nil && (marks >= 1 || disabled >= 1), "plugin/input/kafka|auto-commit-marks-only", pos, fmt.Sprintf("the consumer client auto-commits marked offsets only (AutoCommitMarks option present: %d; otherwise every polled offset is committed by the auto-commit loop)", marks))
}
