package main

import (
	"fmt"
	"go/constant"
	"go/token"
	"go/types"
	"sort"
	"strings"

	"golang.org/x/tools/go/ssa"
)

func init() {
	explain("C02", "Static necessary conditions of in-order, exactly-once per-stream commits, decided exhaustively over the source: a stream is attached by exactly one guarded site whose caller removed it from the charged list under the list lock; every access to the stream queue state is under stream.mu (interprocedural lock flow); Batch.events is appended in one place only, under the batcher's fill lock, and committed by an ascending index loop; every ActionResult case calls the finalizer exactly once (Discard/Collapse/Hold) or never (Pass/Break); a held event is always handed to Propagate; single commit sequencer. "+
		"Also: the compare-and-advance of a stream's committed sequence is one critical section; a busy (holding) action is not match-filtered, so no event of the stream overtakes the held one; batches are committed in the order they were sealed. "+
		"NOT decided: order/uniqueness of a concrete commit history, nor 'none unaccounted at quiescence'.",
		"go/types, go/ssa and x/tools call resolution are correct", "lock identity is by access path", "streamer.dump is a debug reader and is exempt from the lock table")
	reg("C02", "C02.R1", "E1+E2+E3", "single guarded attach site; its caller pops the stream from the charged list under the list lock", 1, ruleSingleOwner)
	reg("C02", "C02.R2", "E3", "stream queue state is accessed only under stream.mu", 30, ruleStreamLockTable)
	reg("C02", "C02.R3", "E1+E3", "Batch.events appended in one method, called under the fill lock; commit loop ascends from 0 by 1", 1, ruleFIFOBatchFill)
	reg("C02", "C02.R4", "E2", "each ActionResult case finalizes exactly once (Discard/Collapse/Hold) or never (Pass/Break)", 5, ruleOneFinalizePerResult)
	reg("C02", "C02.R5", "E2", "hold<->propagate typestate of every action returning ActionHold", 1, ruleHoldPropagate)
	reg("C02", "C02.R6", "E1", "single commit sequencer (same rule as C01.R8)", 1, ruleSingleSequencer)
	reg("C02", "C02.R8", "E2", "Propagate clears the holding action's busy mark before the flushed event re-enters the action chain", 1, rulePropagateResetsBusy)
	reg("C02", "C02.R9", "E2+E3", "stream.commit: compare-and-advance of commitSeq is one critical section (same rule as C01.R9)", 1, ruleStreamCommit)
	reg("C02", "C02.R10", "E2", "events of a stream cannot overtake an event held by a busy action: a busy action is not match-filtered (same rule as C15.R4)", 1, ruleBusyNotFiltered)
	reg("C02", "C02.R11", "E2+E3", "batches are committed in the order they were sealed: sequenced commit region (same rule as C01.R5)", 1, ruleSequencedRegion)
	reg("C02", "C02.R12", "E2+E6", "a stream parked by a joining action stays visible to the time-out heartbeat: blocked-list positions stay exact (same rule as C04.R11)", 2, ruleBlockedIndex)
	reg("C02", "C02.R13", "E2", "after a restart an event is accepted again only beyond its stream's saved offset: PassEvent refuses exactly offset <= saved (same rule as C03.R5)", 1, ruleResume)
	reg("C02", "C02.R7", "E2+E3", "stream.put appends at the tail under the lock and numbers events by +1", 1, ruleStreamPutFIFO)
}

func ruleSingleOwner(c *Ctx, r *Rule) {
	var sites []fieldAccess
	for _, a := range c.fieldAccesses(pipelinePkg, "stream", "isAttached") {
		if a.write && !isFreshAlloc(a.base) {
			if b, ok := constBool(a.val); !ok || b {
				sites = append(sites, a)
			}
		}
	}
	r.Inst(len(sites))
	if len(sites) != 1 {
		for _, a := range sites {
			r.Ob(false, c.fnName(a.fn)+"|attach-site", a.in.Pos(), fmt.Sprintf("%d sites set stream.isAttached (expected exactly one)", len(sites)))
		}
		return
	}
	a := sites[0]
	name := c.fnName(a.fn)
	need := map[string]bool{"!isAttached": false, "!isDetaching": false, "first!=nil": false}
	for _, l := range c.unitGuards(a.in) {
		if !l.pol && isLoadOfField(l.v, pipelinePkg, "stream", "isAttached") {
			need["!isAttached"] = true
		}
		if !l.pol && isLoadOfField(l.v, pipelinePkg, "stream", "isDetaching") {
			need["!isDetaching"] = true
		}
		if op, x, y, ok := cmpLit(l); ok && op == token.NEQ {
			if (isLoadOfField(x, pipelinePkg, "stream", "first") && isNilConst(y)) || (isLoadOfField(y, pipelinePkg, "stream", "first") && isNilConst(x)) {
				need["first!=nil"] = true
			}
		}
	}
	var keys []string
	for k := range need {
		keys = append(keys, k)
	}
	sort.Strings(keys)
	for _, k := range keys {
		r.Ob(need[k], name+"|precondition|"+k, a.in.Pos(), "attach is control-dependent on "+k+" (otherwise a terminator)")
	}
	okL, why := c.heldInterproc(a.in, lockRef{refOf(a.base).root, ".mu"}, 2)
	if okL {
		why = "attach under stream.mu"
	}
	r.Ob(okL, name+"|lock", a.in.Pos(), why)
	// the only caller pops the stream from streamer.charged under chargedMu before the call
	callers := c.sitesOf(a.fn)
	r.Ob(len(callers) == 1, name+"|single-caller", a.fn.Pos(), fmt.Sprintf("%d callers of the attach function (expected 1)", len(callers)))
	for _, cs := range callers {
		caller := cs.Parent()
		cname := c.fnName(caller)
		arg := cs.Common().Args[0]
		// the attached stream is popped from streamer.charged under chargedMu: in the caller itself, or in a
		// helper the caller calls for it (`stream := s.popCharged()`)
		popIn := func(fn *ssa.Function, v ssa.Value, before ssa.Instruction) (fromCharged, popped bool) {
			u, ok := v.(*ssa.UnOp)
			if !ok || u.Op != token.MUL {
				return false, false
			}
			ia, ok := u.X.(*ssa.IndexAddr)
			if !ok || !isLoadOfField(ia.X, pipelinePkg, "streamer", "charged") {
				return false, false
			}
			for _, b := range c.fieldAccesses(pipelinePkg, "streamer", "charged") {
				if b.write && b.fn == fn {
					if sl, ok := b.val.(*ssa.Slice); ok && isLoadOfField(sl.X, pipelinePkg, "streamer", "charged") && sameValue(sl.High, ia.Index) && instrDominates(b.in, before) {
						held, _ := c.heldInterproc(b.in, lockRef{refOf(b.base).root, ".chargedMu"}, 2)
						heldLoad, _ := c.heldInterproc(ia, lockRef{refOf(b.base).root, ".chargedMu"}, 2)
						if held && heldLoad {
							popped = true
						}
					}
				}
			}
			return true, popped
		}
		fromCharged, popped := popIn(caller, arg, cs)
		var h *ssa.Function
		if call, isCall := arg.(*ssa.Call); !fromCharged && isCall {
			if f := call.Call.StaticCallee(); f != nil && c.inModule(f) {
				h = f
			} else if mc, isMC := call.Call.Value.(*ssa.MakeClosure); isMC {
				h, _ = mc.Fn.(*ssa.Function) // a literal called in place (an inlined helper with several returns)
			}
		}
		if h != nil && h.Blocks != nil {
			fromCharged, popped = true, true
			rets := returnsOf(h)
			if len(rets) == 0 {
				fromCharged = false
			}
			// a nil result (stopping) is fine when attach is only reached with a non-nil stream
			nonNil := false
			for _, l := range c.unitGuards(cs) {
				if op, x, y, ok := cmpLit(l); ok && op == token.NEQ && x == arg && isNilConst(y) {
					nonNil = true
				}
			}
			for _, ret := range rets {
				res := retResults(ret)
				if len(res) != 1 {
					fromCharged = false
					continue
				}
				if nonNil && isNilConst(res[0]) {
					continue
				}
				fc, pp := popIn(h, res[0], ret)
				fromCharged = fromCharged && fc
				popped = popped && pp
			}
		}
		r.Ob(fromCharged, cname+"|popped-stream", cs.Pos(), "the stream being attached was taken out of streamer.charged")
		if !fromCharged {
			continue
		}
		r.Ob(popped, cname+"|pop-under-lock", cs.Pos(), "the taken entry is removed from streamer.charged (charged = charged[:idx]) under chargedMu before attach, so no second processor can take the same stream")
	}
}

var streamLockTable = []string{"first", "last", "len", "currentSeq", "awaySeq", "isAttached", "isDetaching", "blockTime"}

func ruleStreamLockTable(c *Ctx, r *Rule) {
	for _, f := range streamLockTable {
		acc := c.fieldAccesses(pipelinePkg, "stream", f)
		if len(acc) == 0 {
			r.Unresolved("stream." + f)
			continue
		}
		perFn := map[string]int{}
		for _, a := range acc {
			if isFreshAlloc(a.base) || isFreshAlloc(refOf(a.base).root) {
				continue // constructor, object not yet shared
			}
			name := c.fnName(a.fn)
			if strings.HasPrefix(name, "(*pipeline.streamer).dump") {
				r.Note("exempt: %s reads stream.%s (debug dump)", name, f)
				continue
			}
			r.Inst(1)
			perFn[name]++
			ok, why := c.heldInterproc(a.in, lockRef{refOf(a.base).root, ".mu"}, 3)
			kind := "read"
			if a.write {
				kind = "write"
			}
			if ok {
				why = "stream." + f + " " + kind + " under stream.mu"
			}
			r.Ob(ok, fmt.Sprintf("%s|stream.%s|%s#%d", name, f, kind, perFn[name]), a.in.Pos(), why)
		}
	}
	// Event.next links the queue: written only under the owning stream's lock (in stream methods) or in reset
	for _, a := range c.fieldAccesses(pipelinePkg, "Event", "next") {
		if !a.write {
			continue
		}
		name := c.fnName(a.fn)
		if recvNamed(a.fn) != nil && recvNamed(a.fn).Obj().Name() == "Event" {
			continue // Event.reset, called from the pool only
		}
		r.Inst(1)
		rn := recvNamed(a.fn)
		ok := rn != nil && rn.Obj().Name() == "stream"
		why := "Event.next written outside stream methods"
		if ok {
			ok, why = c.heldInterproc(a.in, lockRef{a.fn.Params[0], ".mu"}, 3)
			if ok {
				why = "queue link written under stream.mu"
			}
		}
		r.Ob(ok, name+"|Event.next|write", a.in.Pos(), why)
	}
}

// ascendingFromZero: v enumerates 0,1,2,... : φ(0, φ+1) or (φ+1) with φ = φ(-1, φ+1).
func ascendingFromZero(v ssa.Value) bool {
	// (φ+1) with φ = φ(-1, φ+1, φ+1, …)
	if b, ok := v.(*ssa.BinOp); ok && b.Op == token.ADD {
		if k, ok := constInt(b.Y); ok && k == 1 {
			if phi, ok := b.X.(*ssa.Phi); ok && len(phi.Edges) >= 2 {
				init, step := 0, 0
				for _, e := range phi.Edges {
					if k, ok := constInt(e); ok && k == -1 {
						init++
					} else if e == ssa.Value(b) {
						step++
					} else {
						return false
					}
				}
				return init == 1 && step >= 1
			}
		}
	}
	// φ(0, φ+1, …)
	if phi, ok := v.(*ssa.Phi); ok && len(phi.Edges) >= 2 {
		init, step := 0, 0
		for _, e := range phi.Edges {
			if k, ok := constInt(e); ok && k == 0 {
				init++
				continue
			}
			if b, ok := e.(*ssa.BinOp); ok && b.Op == token.ADD && b.X == ssa.Value(phi) {
				if k, ok := constInt(b.Y); ok && k == 1 {
					step++
					continue
				}
			}
			return false
		}
		return init == 1 && step >= 1
	}
	return false
}

func ruleFIFOBatchFill(c *Ctx, r *Rule) {
	var appenders []*ssa.Function
	for _, a := range c.fieldAccesses(pipelinePkg, "Batch", "events") {
		if !a.write {
			continue
		}
		name := c.fnName(a.fn)
		switch v := a.val.(type) {
		case *ssa.Call:
			if b, ok := v.Call.Value.(*ssa.Builtin); ok && b.Name() == "append" {
				appenders = append(appenders, a.fn)
				// appended element is a parameter of the appender, target is the same field
				okT := isLoadOfField(v.Call.Args[0], pipelinePkg, "Batch", "events")
				okE := false
				if sl, ok := v.Call.Args[1].(*ssa.Slice); ok {
					// variadic append: new array with one element stored
					if al, ok := sl.X.(*ssa.Alloc); ok {
						for _, ref := range *al.Referrers() {
							if ia, ok := ref.(*ssa.IndexAddr); ok {
								for _, r2 := range *ia.Referrers() {
									if st, ok := r2.(*ssa.Store); ok {
										if p, ok := st.Val.(*ssa.Parameter); ok && paramIndex(a.fn, p) >= 0 {
											okE = true
										}
									}
								}
							}
						}
					}
				}
				r.Ob(okT && okE, name+"|append-shape", a.in.Pos(), "Batch.events = append(Batch.events, <the event parameter>)")
				continue
			}
			r.Ob(false, name+"|events-writer", a.in.Pos(), "unexpected writer of Batch.events: "+c.path(a.val))
		case *ssa.Slice:
			k, isK := int64(-1), false
			if v.High != nil {
				k, isK = constInt(v.High)
			}
			r.Ob(isLoadOfField(v.X, pipelinePkg, "Batch", "events") && isK && k == 0 && v.Low == nil, name+"|reset-shape", a.in.Pos(), "Batch.events is re-sliced only to [:0] (reset)")
		case *ssa.MakeSlice, *ssa.Parameter:
			if isFreshAlloc(a.base) || a.fn.Name() == "NewPreparedBatch" || a.fn.Name() == "newBatch" {
				continue
			}
			r.Ob(false, name+"|events-writer", a.in.Pos(), "Batch.events replaced outside a constructor")
		default:
			if isFreshAlloc(a.base) {
				continue
			}
			r.Ob(false, name+"|events-writer", a.in.Pos(), "unexpected writer of Batch.events: "+c.path(a.val))
		}
	}
	r.Inst(len(appenders))
	if len(appenders) != 1 {
		r.Ob(false, "appenders", token.NoPos, fmt.Sprintf("%d functions append to Batch.events (expected 1)", len(appenders)))
		return
	}
	ap := appenders[0]
	for _, cs := range c.sitesOf(ap) {
		caller := cs.Parent()
		rn := recvNamed(caller)
		ok := rn != nil && rn.Obj().Name() == "Batcher" && inPkg(rn, pipelinePkg)
		why := "Batch.append called outside the Batcher"
		if ok {
			ok, why = c.heldInterproc(cs, lockRef{caller.Params[0], ".mu"}, 2)
			if ok {
				why = "Batch.append is called with the fill lock (Batcher.mu) held, so batch order = arrival order under the lock"
			}
			// the batch appended to is the current batch obtained under the same lock
		}
		r.Ob(ok, c.fnName(caller)+"|append-under-fill-lock", cs.Pos(), why)
	}
	// commit loop: ack argument = batch.events[i], i ascending from 0 by 1
	br := c.batcher()
	if br.ack == nil {
		r.Unresolved("sequenced commit")
		return
	}
	args := br.ack.Common().Args
	arg := args[len(args)-1]
	ok := false
	if u, isU := arg.(*ssa.UnOp); isU && u.Op == token.MUL {
		if ia, isIA := u.X.(*ssa.IndexAddr); isIA && isLoadOfField(ia.X, pipelinePkg, "Batch", "events") {
			_, _, base, _ := loadedField(ia.X)
			if p, isP := base.(*ssa.Parameter); isP && paramIndex(br.commit, p) >= 0 && ascendingFromZero(ia.Index) {
				ok = true
			}
		}
	}
	r.Ob(ok, c.fnName(br.commit)+"|ascending-commit-loop", br.ack.Pos(), "the acknowledgement loop commits batch.events[i] of the function's own batch for i = 0,1,2,… ("+c.path(arg)+")")
}

// actionResultConsts maps constant values of pipeline.ActionResult to their names.
func (c *Ctx) actionResultConsts() map[int64]string {
	out := map[int64]string{}
	p := c.Pkgs[pipelinePkg]
	if p == nil {
		return out
	}
	ar := c.Named("pipeline", "ActionResult")
	for _, nm := range p.Types.Scope().Names() {
		if k, ok := p.Types.Scope().Lookup(nm).(*types.Const); ok && ar != nil && types.Identical(k.Type(), ar) {
			if v, ok := constant.Int64Val(k.Val()); ok {
				out[v] = nm
			}
		}
	}
	return out
}

func ruleOneFinalizePerResult(c *Ctx, r *Rule) {
	ro := c.roles()
	fin, _, calls, _ := c.finalizerCalls()
	if fin == nil || ro.actDo == nil {
		r.Unresolved("finalizer / ActionPlugin.Do")
		return
	}
	consts := c.actionResultConsts()
	want := map[string]int{"ActionPass": 0, "ActionBreak": 0, "ActionDiscard": 1, "ActionCollapse": 1, "ActionHold": 1}
	for n := range want {
		found := false
		for _, nm := range consts {
			if nm == n {
				found = true
			}
		}
		if !found {
			r.Unresolved("constant pipeline." + n)
			return
		}
	}
	// the dispatcher: function in package pipeline invoking ActionPlugin.Do
	var dispatch []ssa.CallInstruction
	c.eachCall(func(fn *ssa.Function, ci ssa.CallInstruction) {
		if c.pkgOf(fn) == "pipeline" && invokesMethod(ci, ro.actDo) {
			dispatch = append(dispatch, ci)
		}
	})
	if len(dispatch) != 1 {
		r.Ob(false, "dispatch", token.NoPos, fmt.Sprintf("%d invoke sites of ActionPlugin.Do in package pipeline (expected 1)", len(dispatch)))
		return
	}
	do := dispatch[0]
	fn := do.Parent()
	name := c.fnName(fn)
	res := do.Value()
	caseOf := func(in ssa.Instruction) string {
		for _, l := range c.unitGuards(in) {
			if op, x, y, ok := cmpLit(l); ok && op == token.EQL {
				if x == ssa.Value(res) {
					if k, ok := constInt(y); ok {
						return consts[k]
					}
				}
				if y == ssa.Value(res) {
					if k, ok := constInt(x); ok {
						return consts[k]
					}
				}
			}
		}
		return ""
	}
	perCase := map[string][]ssa.CallInstruction{}
	for _, ci := range calls {
		if ci.Parent() != fn {
			continue
		}
		k := caseOf(ci)
		perCase[k] = append(perCase[k], ci)
	}
	var names []string
	for n := range want {
		names = append(names, n)
	}
	sort.Strings(names)
	isFin := func(in ssa.Instruction) bool {
		for _, ci := range calls {
			if ssa.Instruction(ci) == in {
				return true
			}
		}
		return false
	}
	for _, n := range names {
		r.Inst(1)
		got := perCase[n]
		if want[n] == 0 {
			r.Ob(len(got) == 0, name+"|"+n+"|no-finalize", fn.Pos(), fmt.Sprintf("%s must not finalize the event (it continues to the next action or to the output); found %d finalizer calls", n, len(got)))
			continue
		}
		if len(got) != 1 {
			r.Ob(false, name+"|"+n+"|one-finalize", fn.Pos(), fmt.Sprintf("%s has %d finalizer calls (expected exactly 1)", n, len(got)))
			continue
		}
		f := got[0]
		// the finalized event is the event given to Do
		eargs := f.Common().Args
		r.Ob(len(eargs) > 0 && len(do.Common().Args) > 0 && eargs[0] == do.Common().Args[len(do.Common().Args)-1], name+"|"+n+"|same-event", f.Pos(), "the finalized event is the event passed to Do")
		// every return under this case is dominated by the finalizer call; and the function returns after it without another finalize / Do
		allDom, any := true, false
		for _, b := range fn.Blocks {
			if ret, ok := asReturn(b); ok && caseOf(ret) == n {
				any = true
				if !instrDominates(f, ret) {
					allDom = false
				}
			}
		}
		r.Ob(any && allDom, name+"|"+n+"|finalize-then-return", f.Pos(), n+": the case returns, and only after its finalizer call")
		again, w := c.pathExists(fn, f, func(in ssa.Instruction) bool { return isFin(in) || in == ssa.Instruction(do) }, isReturn)
		msg := n + ": nothing else is done with the event after the finalizer call"
		if again {
			msg = n + ": after the finalizer call the event can reach another Do/finalize at " + c.pos(w.Pos()) + " (double finalize)"
		}
		r.Ob(!again, name+"|"+n+"|no-second-finalize", f.Pos(), msg)
	}
	for k, l := range perCase {
		if _, ok := want[k]; !ok {
			for _, ci := range l {
				r.Ob(false, name+"|finalize-outside-cases|"+k, ci.Pos(), "finalizer call not under a known ActionResult case")
			}
		}
	}
	// the acknowledgement calls the finalizer exactly once on every path
	for _, ci := range calls {
		caller := ci.Parent()
		if c.isImplOf(caller, ro.OutputCtl, ro.outCommit) {
			r.Inst(1)
			n := 0
			for _, cj := range calls {
				if cj.Parent() == caller {
					n++
				}
			}
			okOnce := n == 1
			miss, _ := c.pathExists(caller, nil, isReturn, isFin)
			r.Ob(okOnce && !miss, c.fnName(caller)+"|ack-finalizes-once", ci.Pos(), "the output acknowledgement finalizes its event exactly once on every path")
		}
	}
}

func ruleStreamPutFIFO(c *Ctx, r *Rule) {
	// stream.put: currentSeq++ and event.SeqID = currentSeq; tail append: last.next = event; last = event
	put := c.Method("pipeline", "stream", "put")
	if put == nil {
		// role-based fallback: the function storing Event.SeqID from stream.currentSeq
		for _, a := range c.fieldAccesses(pipelinePkg, "Event", "SeqID") {
			if a.write && recvNamed(a.fn) != nil && recvNamed(a.fn).Obj().Name() == "stream" {
				put = a.fn
			}
		}
	}
	if put == nil {
		r.Unresolved("stream enqueue function")
		return
	}
	r.Inst(1)
	name := c.fnName(put)
	var ev *ssa.Parameter
	for _, p := range put.Params {
		if typeIs(p.Type(), pipelinePkg, "Event") {
			ev = p
		}
	}
	if ev == nil {
		r.Unresolved("event parameter of " + name)
		return
	}
	// SeqID = currentSeq after +1
	okSeq := false
	for _, a := range c.fieldAccesses(pipelinePkg, "Event", "SeqID") {
		if a.write && a.fn == put && a.base == ssa.Value(ev) {
			if isLoadOfField(a.val, pipelinePkg, "stream", "currentSeq") {
				// a +1 store to currentSeq dominates
				for _, b := range c.fieldAccesses(pipelinePkg, "stream", "currentSeq") {
					if b.write && b.fn == put && instrDominates(b.in, a.in) {
						if bo, ok := b.val.(*ssa.BinOp); ok && bo.Op == token.ADD {
							if k, ok := constInt(bo.Y); ok && k == 1 && isLoadOfField(bo.X, pipelinePkg, "stream", "currentSeq") {
								okSeq = true
							}
						}
					}
				}
			}
		}
	}
	r.Ob(okSeq, name+"|seq-numbering", put.Pos(), "each enqueued event gets SeqID = ++currentSeq (strictly increasing per stream)")
	// writers of currentSeq: only put
	for _, b := range c.fieldAccesses(pipelinePkg, "stream", "currentSeq") {
		if b.write && b.fn != put && !isFreshAlloc(b.base) {
			r.Ob(false, c.fnName(b.fn)+"|currentSeq-writer", b.in.Pos(), "stream.currentSeq written outside the enqueue function")
		}
	}
	// tail append: on the non-empty path last.next = event and last = event; on the empty path first = last = event
	var lastStores, firstStores, nextStores int
	okShape := true
	for _, a := range c.fieldAccesses(pipelinePkg, "stream", "last") {
		if a.write && a.fn == put {
			lastStores++
			if a.val != ssa.Value(ev) {
				okShape = false
			}
		}
	}
	for _, a := range c.fieldAccesses(pipelinePkg, "stream", "first") {
		if a.write && a.fn == put {
			firstStores++
			if a.val != ssa.Value(ev) {
				okShape = false
			}
			// only when the queue was empty
			g := false
			for _, l := range c.unitGuards(a.in) {
				if op, x, y, ok := cmpLit(l); ok && op == token.EQL && ((isLoadOfField(x, pipelinePkg, "stream", "first") && isNilConst(y)) || (isLoadOfField(y, pipelinePkg, "stream", "first") && isNilConst(x))) {
					g = true
				}
			}
			if !g {
				okShape = false
			}
		}
	}
	for _, a := range c.fieldAccesses(pipelinePkg, "Event", "next") {
		if a.write && a.fn == put {
			nextStores++
			if a.val != ssa.Value(ev) || !isLoadOfField(a.base, pipelinePkg, "stream", "last") {
				okShape = false
			}
		}
	}
	r.Ob(okShape && lastStores == 2 && firstStores == 1 && nextStores == 1, name+"|tail-append", put.Pos(),
		fmt.Sprintf("enqueue appends at the tail: empty → first=last=event; else last.next=event, last=event (stores: last=%d first=%d next=%d)", lastStores, firstStores, nextStores))
	// nobody overwrites a non-empty queue: every store to first that is not the dequeue is under first == nil,
	// and every store to last is under first == nil or follows last.next = <same value>
	firstIsNil := func(in ssa.Instruction) bool {
		for _, l := range c.unitGuards(in) {
			if op, x, y, ok := cmpLit(l); ok && op == token.EQL && ((isLoadOfField(x, pipelinePkg, "stream", "first") && isNilConst(y)) || (isLoadOfField(y, pipelinePkg, "stream", "first") && isNilConst(x))) {
				return true
			}
		}
		return false
	}
	getFn := c.Method("pipeline", "stream", "get")
	nf := map[string]int{}
	for _, a := range c.fieldAccesses(pipelinePkg, "stream", "first") {
		if !a.write || isFreshAlloc(refOf(a.base).root) || a.fn == getFn || isNilConst(a.val) {
			continue
		}
		nm := c.fnName(a.fn)
		nf[nm]++
		r.Ob(firstIsNil(a.in), fmt.Sprintf("%s|first-store#%d|only-when-empty", nm, nf[nm]), a.in.Pos(), "stream.first is (re)assigned only when the queue is empty (otherwise queued events are unlinked and never finalized)")
	}
	nl := map[string]int{}
	for _, a := range c.fieldAccesses(pipelinePkg, "stream", "last") {
		if !a.write || isFreshAlloc(refOf(a.base).root) || a.fn == getFn || isNilConst(a.val) {
			continue
		}
		nm := c.fnName(a.fn)
		nl[nm]++
		ok := firstIsNil(a.in)
		if !ok {
			for _, b := range c.fieldAccesses(pipelinePkg, "Event", "next") {
				if b.write && b.fn == a.fn && b.val == a.val && instrDominates(b.in, a.in) && isLoadOfField(b.base, pipelinePkg, "stream", "last") {
					ok = true
				}
			}
		}
		r.Ob(ok, fmt.Sprintf("%s|last-store#%d|append-or-empty", nm, nl[nm]), a.in.Pos(), "stream.last moves only by linking the new tail behind the old one, or when the queue is empty")
	}
	// dequeue takes the head: awaySeq = event.SeqID where event = first
	get := c.Method("pipeline", "stream", "get")
	if get != nil {
		okHead := false
		for _, a := range c.fieldAccesses(pipelinePkg, "stream", "awaySeq") {
			if a.write && a.fn == get {
				if o, f, base, ok := loadedField(a.val); ok && isField(o, f, pipelinePkg, "Event", "SeqID") && isLoadOfField(base, pipelinePkg, "stream", "first") {
					okHead = true
				}
			}
		}
		r.Ob(okHead, c.fnName(get)+"|take-head", get.Pos(), "dequeue takes the head (awaySeq = first.SeqID)")
		// first advances to first.next
		okAdv := false
		for _, a := range c.fieldAccesses(pipelinePkg, "stream", "first") {
			if a.write && a.fn == get {
				if o, f, base, ok := loadedField(a.val); ok && isField(o, f, pipelinePkg, "Event", "next") && isLoadOfField(base, pipelinePkg, "stream", "first") {
					okAdv = true
				}
			}
		}
		r.Ob(okAdv, c.fnName(get)+"|advance-head", get.Pos(), "dequeue advances first to first.next")
	}
}

func rulePropagateResetsBusy(c *Ctx, r *Rule) {
	ro := c.roles()
	if ro.ActionCtl == nil || ro.actPropagate == nil || ro.actDo == nil {
		r.Unresolved("ActionPluginController.Propagate")
		return
	}
	// the reset function: decrements processor.busyActionsTotal
	var reset *ssa.Function
	for _, a := range c.fieldAccesses(pipelinePkg, "processor", "busyActionsTotal") {
		if a.write {
			if bo, ok := a.val.(*ssa.BinOp); ok && bo.Op == token.SUB {
				reset = a.fn
			}
		}
	}
	if reset == nil {
		r.Unresolved("function decrementing processor.busyActionsTotal")
		return
	}
	for _, t := range c.Implementers(ro.ActionCtl) {
		fn := c.MethodOf(t, "Propagate")
		if fn == nil || fn.Blocks == nil || c.pkgOf(fn) != "pipeline" {
			continue
		}
		r.Inst(1)
		name := c.fnName(fn)
		var rc ssa.CallInstruction
		for _, ci := range callsIn(fn) {
			if calleeFunc(ci) == reset {
				rc = ci
			}
		}
		r.Ob(rc != nil, name+"|resets-busy", fn.Pos(), "Propagate clears the busy mark of the action that held the event (otherwise, if a later action drops the flushed event, the processor pulls the NEXT stream event while the triggering event is still suspended, and commits overtake)")
		if rc == nil {
			continue
		}
		// before re-entering the chain: the reset dominates every call that can reach the action dispatch
		for _, ci := range callsIn(fn) {
			f := calleeFunc(ci)
			if f == nil || f == reset || !c.inModule(f) {
				continue
			}
			if c.reachesInvoke(f, ro.actDo, 4) {
				r.Ob(instrDominates(rc, ci), name+"|reset-before-reentry|"+f.Name(), ci.Pos(), "the busy mark is cleared before the flushed event re-enters the action chain")
			}
		}
		// the index cleared is the event's current action (the holder): derived from event.action
		arg := rc.Common().Args[len(rc.Common().Args)-1]
		okIdx := false
		var walk func(v ssa.Value, d int)
		walk = func(v ssa.Value, d int) {
			if d > 4 {
				return
			}
			if isLoadOfField(v, pipelinePkg, "Event", "action") {
				okIdx = true
			}
			if bo, ok := v.(*ssa.BinOp); ok {
				walk(bo.X, d+1)
				walk(bo.Y, d+1)
			}
		}
		walk(arg, 0)
		r.Ob(okIdx, name+"|reset-index", rc.Pos(), "the cleared index is computed from the held event's action index: "+c.path(arg))
	}
}

// reachesInvoke: some static call chain from f (bounded) contains an invoke of interface method m.
func (c *Ctx) reachesInvoke(f *ssa.Function, m *types.Func, depth int) bool {
	if f == nil || f.Blocks == nil || depth < 0 {
		return false
	}
	for _, ci := range callsIn(f) {
		if invokesMethod(ci, m) {
			return true
		}
		if g := calleeFunc(ci); g != nil && g != f && c.inModule(g) && c.reachesInvoke(g, m, depth-1) {
			return true
		}
	}
	return false
}
