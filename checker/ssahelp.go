package main

import (
	"fmt"
	"go/constant"
	"go/token"
	"go/types"
	"os"
	"sort"
	"strings"

	"golang.org/x/tools/go/ssa"
)

// ---------- callee classification ----------

// calleeFunc returns the static callee of a call instruction (nil for dynamic calls).
func calleeFunc(ci ssa.CallInstruction) *ssa.Function {
	return ci.Common().StaticCallee()
}

// qualName renders a function as "pkgpath.Name" or "(*pkgpath.T).Name" with full package paths.
func qualName(f *ssa.Function) string {
	if f == nil {
		return ""
	}
	if f.Signature.Recv() != nil {
		rt := f.Signature.Recv().Type()
		ptr := ""
		if p, ok := rt.(*types.Pointer); ok {
			rt = p.Elem()
			ptr = "*"
		}
		if n, ok := rt.(*types.Named); ok && n.Obj().Pkg() != nil {
			return fmt.Sprintf("(%s%s.%s).%s", ptr, n.Obj().Pkg().Path(), n.Obj().Name(), f.Name())
		}
		return f.String()
	}
	if f.Pkg != nil {
		return f.Pkg.Pkg.Path() + "." + f.Name()
	}
	if o := f.Origin(); o != nil && o.Pkg != nil {
		return o.Pkg.Pkg.Path() + "." + o.Name()
	}
	return f.String()
}

var noReturnNames = map[string]bool{
	"os.Exit": true, "runtime.Goexit": true,
	"log.Fatal": true, "log.Fatalf": true, "log.Fatalln": true, "log.Panic": true, "log.Panicf": true, "log.Panicln": true,
	"(*go.uber.org/zap.Logger).Panic": true, "(*go.uber.org/zap.Logger).Fatal": true,
	"(*go.uber.org/zap.SugaredLogger).Panic": true, "(*go.uber.org/zap.SugaredLogger).Panicf": true, "(*go.uber.org/zap.SugaredLogger).Panicw": true, "(*go.uber.org/zap.SugaredLogger).Panicln": true,
	"(*go.uber.org/zap.SugaredLogger).Fatal": true, "(*go.uber.org/zap.SugaredLogger).Fatalf": true, "(*go.uber.org/zap.SugaredLogger).Fatalw": true, "(*go.uber.org/zap.SugaredLogger).Fatalln": true,
	modulePath + "/logger.Panic": true, modulePath + "/logger.Panicf": true,
	modulePath + "/logger.Fatal": true, modulePath + "/logger.Fatalf": true,
}

// isNoReturn: the instruction never returns to its successor (process exit or panic).
func isNoReturn(in ssa.Instruction) bool {
	switch x := in.(type) {
	case *ssa.Panic:
		return true
	case *ssa.Call:
		if b, ok := x.Call.Value.(*ssa.Builtin); ok && b.Name() == "panic" {
			return true
		}
		if f := x.Call.StaticCallee(); f != nil {
			return noReturnNames[qualName(f)]
		}
	}
	return false
}

func isBuiltinCall(in ssa.Instruction, name string) (*ssa.Call, bool) {
	c, ok := in.(*ssa.Call)
	if !ok {
		return nil, false
	}
	b, ok := c.Call.Value.(*ssa.Builtin)
	return c, ok && b.Name() == name
}

// ---------- per-function info ----------

type lit struct {
	v   ssa.Value
	pol bool
	via *ssa.Call // non-nil: imported from inside the boolean helper called here (predicate look-through)
	inl bool      // the helper is a function literal called in place: inline code, visible like the caller's own facts
}

type clause []lit // disjunction

type fnInfo struct {
	fn       *ssa.Function
	dead     map[*ssa.BasicBlock]int // block -> index of first no-return instr (block is a dead end from there)
	facts    map[*ssa.BasicBlock][]clause
	factDone bool
	own      map[*ssa.BasicBlock][]clause // facts without what was imported from helpers
	busy     bool                         // guards() is being computed for this function (recursion guard for predicate look-through)
}

func (c *Ctx) info(fn *ssa.Function) *fnInfo {
	if fi := c.fnInfo[fn]; fi != nil {
		return fi
	}
	fi := &fnInfo{fn: fn, dead: map[*ssa.BasicBlock]int{}}
	for _, b := range fn.Blocks {
		for i, in := range b.Instrs {
			if isNoReturn(in) {
				fi.dead[b] = i
				break
			}
		}
	}
	c.fnInfo[fn] = fi
	return fi
}

func instrIndex(in ssa.Instruction) int {
	for i, x := range in.Block().Instrs {
		if x == in {
			return i
		}
	}
	return -1
}

// instrDominates: a executes before b on every path reaching b.
func instrDominates(a, b ssa.Instruction) bool {
	if a.Block() == b.Block() {
		return instrIndex(a) < instrIndex(b)
	}
	return a.Block().Dominates(b.Block())
}

// isBackEdge: edge p->b where b dominates p.
func isBackEdge(p, b *ssa.BasicBlock) bool { return b.Dominates(p) }

func clauseKey(cl clause) string {
	var parts []string
	for _, l := range cl {
		parts = append(parts, fmt.Sprintf("%p:%v", l.v, l.pol))
	}
	sort.Strings(parts)
	return strings.Join(parts, "|")
}

// clauseOrder: an order of clauses that does not depend on heap addresses, so that every
// run of the checker sees guard facts in the same order (FDCHECK_SHUFFLE reverses it; rules
// must not depend on it, which the determinism self-test exercises).
func clauseOrder(cl clause) string {
	var parts []string
	for _, l := range cl {
		k := l.v.Name()
		if in, ok := l.v.(ssa.Instruction); ok && in.Block() != nil {
			k = fmt.Sprintf("b%04d.i%04d", in.Block().Index, instrIndex(in))
		}
		parts = append(parts, fmt.Sprintf("%s:%v", k, l.pol))
	}
	sort.Strings(parts)
	return strings.Join(parts, "|")
}

func tautology(cl clause) bool {
	for i, a := range cl {
		for _, b := range cl[i+1:] {
			if a.v == b.v && a.pol != b.pol {
				return true
			}
		}
	}
	return false
}

// guards computes, per block, a set of clauses (each a disjunction of branch literals)
// that necessarily hold whenever the block executes. Back edges are ignored, so a literal
// always speaks about the latest evaluation of its condition on the way into the block.
func (c *Ctx) guards(fn *ssa.Function) map[*ssa.BasicBlock][]clause {
	all := c.guardsAll(fn)
	if c.deepFacts {
		return all
	}
	fi := c.info(fn)
	if fi.own == nil {
		fi.own = map[*ssa.BasicBlock][]clause{}
		for b, cls := range all {
			fi.own[b] = c.visible(cls)
		}
	}
	return fi.own
}

func (c *Ctx) guardsAll(fn *ssa.Function) map[*ssa.BasicBlock][]clause {
	fi := c.info(fn)
	if fi.factDone {
		return fi.facts
	}
	fi.busy = true
	defer func() { fi.busy = false }()
	fi.facts = map[*ssa.BasicBlock][]clause{}
	// reverse post-order over forward edges
	var order []*ssa.BasicBlock
	seen := map[*ssa.BasicBlock]bool{}
	var dfs func(b *ssa.BasicBlock)
	dfs = func(b *ssa.BasicBlock) {
		seen[b] = true
		for _, s := range b.Succs {
			if !seen[s] && !isBackEdge(b, s) {
				dfs(s)
			}
		}
		order = append(order, b)
	}
	if len(fn.Blocks) > 0 {
		dfs(fn.Blocks[0])
	}
	for i := len(order) - 1; i >= 0; i-- {
		b := order[i]
		var sets [][]clause
		for _, p := range b.Preds {
			if isBackEdge(p, b) || !seen[p] {
				continue
			}
			if _, dead := fi.dead[p]; dead {
				continue
			}
			sets = append(sets, c.edgeFactsRaw(fi, p, b))
		}
		res := mergeClauseSets(sets)
		sort.SliceStable(res, func(i, j int) bool { return clauseOrder(res[i]) < clauseOrder(res[j]) })
		if os.Getenv("FDCHECK_SHUFFLE") != "" {
			for i, j := 0, len(res)-1; i < j; i, j = i+1, j-1 {
				res[i], res[j] = res[j], res[i]
			}
		}
		fi.facts[b] = res
	}
	fi.factDone = true
	return fi.facts
}

// edgeFacts: facts holding when control passes along p -> b.
func (c *Ctx) edgeFactsRaw(fi *fnInfo, p, b *ssa.BasicBlock) []clause {
	fs := append([]clause(nil), fi.facts[p]...)
	if iff, ok := p.Instrs[len(p.Instrs)-1].(*ssa.If); ok && p.Succs[0] != p.Succs[1] {
		v, pol := peelNot(iff.Cond, p.Succs[0] == b)
		fs = append(fs, c.litFacts(fi, v, pol, 0)...)
	}
	return fs
}

// edgeFacts: facts holding when control passes along p -> b, as seen by rules: facts imported
// from inside boolean helpers are hidden unless the rule asked for them (withDeepFacts).
func (c *Ctx) edgeFacts(fi *fnInfo, p, b *ssa.BasicBlock) []clause {
	return c.visible(c.edgeFactsRaw(fi, p, b))
}

func (c *Ctx) visible(cls []clause) []clause {
	if c.deepFacts {
		return cls
	}
	var out []clause
	for _, cl := range cls {
		own := true
		for _, l := range cl {
			if l.via != nil && !l.inl {
				own = false
			}
		}
		if own {
			out = append(out, cl)
		}
	}
	return out
}

// withDeepFacts: inside the returned scope the guard facts include what holds inside small
// side-effect-free boolean helpers called in conditions (`if b.isFull()`), so that a condition
// extracted into a helper is read like the inline condition.
func (c *Ctx) withDeepFacts() func() {
	old := c.deepFacts
	c.deepFacts = true
	return func() { c.deepFacts = old }
}

// litFacts: clauses implied by "v has truth value pol". A boolean φ (the value form of
// && / ||, e.g. in `switch { case a || b: }`) is expanded over its incoming edges.
func (c *Ctx) litFacts(fi *fnInfo, v ssa.Value, pol bool, depth int) []clause {
	v, pol = peelNot(v, pol)
	out := []clause{{{v: v, pol: pol}}}
	if call, isCall := v.(*ssa.Call); isCall && depth <= 2 {
		if fs, ok := c.predFacts(call, pol, depth); ok {
			return append(out, fs...)
		}
	}
	phi, ok := v.(*ssa.Phi)
	if !ok || depth > 4 {
		return out
	}
	pb := phi.Block()
	var sets [][]clause
	for i, e := range phi.Edges {
		pred := pb.Preds[i]
		if isBackEdge(pred, pb) {
			return out
		}
		if k, isC := constBool(e); isC {
			if k != pol {
				continue // this edge cannot produce the value
			}
			sets = append(sets, c.edgeFactsRaw(fi, pred, pb))
			continue
		}
		fs := c.edgeFactsRaw(fi, pred, pb)
		fs = append(fs, c.litFacts(fi, e, pol, depth+1)...)
		sets = append(sets, fs)
	}
	if len(sets) == 0 {
		return out
	}
	return append(out, mergeClauseSets(sets)...)
}

// predFacts: look through a call of a small side-effect-free boolean helper of the module
// (`if b.isFull()`): the facts that necessarily hold when it returns pol, in the helper's own SSA
// values (field loads of its receiver are recognised by the same patterns as in the caller).
// Calls looked through are recorded in c.expandedPred so that rules which list "other conditions"
// can treat the call itself as transparent.
func (c *Ctx) predFacts(call *ssa.Call, pol bool, depth int) ([]clause, bool) {
	f := call.Call.StaticCallee()
	// a function literal called where it is made (the shape an inlined helper with several returns
	// takes) is inline code: its facts are the caller's own
	inPlace := false
	if f == nil {
		if mc, isMC := call.Call.Value.(*ssa.MakeClosure); isMC {
			if lf, isF := mc.Fn.(*ssa.Function); isF && lf.Parent() == call.Parent() {
				f, inPlace = lf, true
			}
		}
	} else if f.Parent() != nil && f.Parent() == call.Parent() {
		inPlace = true
	}
	if f == nil || !c.inModule(f) || f.Blocks == nil || f.Signature.Results().Len() != 1 {
		return nil, false
	}
	if b, ok := f.Signature.Results().At(0).Type().Underlying().(*types.Basic); !ok || b.Kind() != types.Bool {
		return nil, false
	}
	if !c.predPure(f, 1) {
		return nil, false
	}
	fi := c.info(f)
	if fi.busy {
		return nil, false
	}
	cf := c.guardsAll(f)
	var sets [][]clause
	for _, ret := range returnsOf(f) {
		res := retResults(ret)
		if len(res) != 1 {
			return nil, false
		}
		base := append([]clause(nil), cf[ret.Block()]...)
		if k, isC := constBool(res[0]); isC {
			if k != pol {
				continue
			}
			sets = append(sets, base)
			continue
		}
		sets = append(sets, append(base, c.litFacts(fi, res[0], pol, depth+1)...))
	}
	if len(sets) == 0 {
		return nil, false
	}
	if c.expandedPred == nil {
		c.expandedPred = map[*ssa.Call]bool{}
	}
	c.expandedPred[call] = true
	merged := mergeClauseSets(sets)
	out := make([]clause, 0, len(merged))
	for _, cl := range merged {
		ncl := make(clause, len(cl))
		for i, l := range cl {
			if l.via == nil {
				l.via = call
				l.inl = inPlace
			}
			ncl[i] = l
		}
		out = append(out, ncl)
	}
	return out, true
}

// predPure: f only reads: no stores except into its own locals, no map updates, sends, go/defer,
// and calls only builtins, a few read-only library functions, atomic loads, or (one level) other
// such helpers.
func (c *Ctx) predPure(f *ssa.Function, depth int) bool {
	if v, ok := c.predPureCache[f]; ok {
		return v
	}
	if c.predPureCache == nil {
		c.predPureCache = map[*ssa.Function]bool{}
	}
	n := 0
	pure := true
	for _, b := range f.Blocks {
		for _, in := range b.Instrs {
			n++
			switch x := in.(type) {
			case *ssa.Store:
				if _, local := x.Addr.(*ssa.Alloc); !local {
					if ia, isIA := x.Addr.(*ssa.IndexAddr); isIA {
						if _, l2 := ia.X.(*ssa.Alloc); l2 {
							continue
						}
					}
					pure = false
				}
			case *ssa.MapUpdate, *ssa.Send, *ssa.Go, *ssa.Defer, *ssa.Panic, *ssa.Select:
				pure = false
			case *ssa.Call:
				if _, isB := x.Call.Value.(*ssa.Builtin); isB {
					continue
				}
				g := x.Call.StaticCallee()
				if g == nil {
					pure = false
					continue
				}
				q := qualName(g)
				switch {
				case strings.HasPrefix(q, "bytes.") || strings.HasPrefix(q, "strings.") || strings.HasPrefix(q, "unicode/utf8.") || q == "time.Since" || q == "time.Now" || strings.HasPrefix(q, "(time.Time).") || strings.HasPrefix(q, "(time.Duration)."):
				case g.Name() == "Load" && g.Signature.Recv() != nil:
				case c.inModule(g) && depth > 0 && g != f && c.predPure(g, depth-1):
				default:
					pure = false
				}
			}
		}
	}
	if n > 120 {
		pure = false
	}
	c.predPureCache[f] = pure
	return pure
}

// mergeClauseSets: facts holding when one of several alternatives holds: the common
// clauses plus pairwise disjunctions of the distinguishing ones (bounded).
func mergeClauseSets(sets [][]clause) []clause {
	if len(sets) == 0 {
		return nil
	}
	if len(sets) == 1 {
		return sets[0]
	}
	count := map[string]int{}
	byKey := map[string]clause{}
	for _, fs := range sets {
		local := map[string]bool{}
		for _, cl := range fs {
			k := clauseKey(cl)
			if !local[k] {
				local[k] = true
				count[k]++
				byKey[k] = cl
			}
		}
	}
	var res []clause
	resKeys := map[string]bool{}
	for k, n := range count {
		if n == len(sets) {
			res = append(res, byKey[k])
			resKeys[k] = true
		}
	}
	prod := []clause{nil}
	ok := true
	for _, fs := range sets {
		var dist []clause
		for _, cl := range fs {
			if count[clauseKey(cl)] != len(sets) {
				dist = append(dist, cl)
			}
		}
		if len(dist) == 0 {
			ok = false // this alternative adds nothing beyond the common part: no disjunction holds
			break
		}
		var next []clause
		for _, pcl := range prod {
			for _, d := range dist {
				n := append(append(clause(nil), pcl...), d...)
				next = append(next, n)
			}
		}
		if len(next) > 96 {
			next = next[:96]
		}
		prod = next
	}
	if ok {
		for _, cl := range prod {
			cl = dedupClause(cl)
			if tautology(cl) || len(cl) > 6 {
				continue
			}
			k := clauseKey(cl)
			if !resKeys[k] {
				resKeys[k] = true
				res = append(res, cl)
			}
		}
	}
	return res
}

func dedupClause(cl clause) clause {
	var out clause
	for _, l := range cl {
		dup := false
		for _, o := range out {
			if o == l {
				dup = true
			}
		}
		if !dup {
			out = append(out, l)
		}
	}
	return out
}

func peelNot(v ssa.Value, pol bool) (ssa.Value, bool) {
	for {
		u, ok := v.(*ssa.UnOp)
		if !ok || u.Op != token.NOT {
			return v, pol
		}
		v, pol = u.X, !pol
	}
}

// unitGuards returns the single-literal clauses guarding the block of in.
func (c *Ctx) unitGuards(in ssa.Instruction) []lit {
	var out []lit
	for _, cl := range c.guards(in.Parent())[in.Block()] {
		if len(cl) == 1 {
			out = append(out, cl[0])
		}
	}
	return out
}

// unitGuardsCtx: the unit guards at in, plus — when in sits in a function literal that is called at the
// one place where it is made (the shape an inlined helper takes) — the unit guards at that call.
func (c *Ctx) unitGuardsCtx(in ssa.Instruction) []lit {
	out := c.unitGuards(in)
	fn := in.Parent()
	for d := 0; d < 3 && fn != nil && fn.Parent() != nil; d++ {
		sites := c.sitesOf(fn)
		if len(sites) != 1 {
			break
		}
		if _, isMC := sites[0].Common().Value.(*ssa.MakeClosure); !isMC {
			if sites[0].Common().StaticCallee() != fn {
				break
			}
		}
		out = append(out, c.unitGuards(sites[0])...)
		fn = sites[0].Parent()
	}
	return out
}

// guardedBy: does some clause guarding in consist only of literals accepted by pred?
func (c *Ctx) guardedBy(in ssa.Instruction, pred func(l lit) bool) bool {
	for _, cl := range c.guards(in.Parent())[in.Block()] {
		all := len(cl) > 0
		for _, l := range cl {
			if !pred(l) {
				all = false
			}
		}
		if all {
			return true
		}
	}
	return false
}

// ---------- path queries ----------

// pathExists: is there a CFG path starting right after `from` that reaches an instruction
// satisfying target without first executing one satisfying block? No-return calls end a path.
// If from is nil the search starts at the function entry of fn.
func (c *Ctx) pathExists(fn *ssa.Function, from ssa.Instruction, target, block func(ssa.Instruction) bool) (bool, ssa.Instruction) {
	return c.pathExistsE(fn, from, target, block, nil)
}

// pathExistsE is pathExists with an edge filter: edgeOK(b, i) == false removes the edge b -> b.Succs[i].
func (c *Ctx) pathExistsE(fn *ssa.Function, from ssa.Instruction, target, block func(ssa.Instruction) bool, edgeOK func(b *ssa.BasicBlock, i int) bool) (bool, ssa.Instruction) {
	succs := func(b *ssa.BasicBlock) []*ssa.BasicBlock {
		if edgeOK == nil {
			return b.Succs
		}
		var out []*ssa.BasicBlock
		for i, s := range b.Succs {
			if edgeOK(b, i) {
				out = append(out, s)
			}
		}
		return out
	}
	seen := map[*ssa.BasicBlock]bool{}
	var work []*ssa.BasicBlock
	scan := func(b *ssa.BasicBlock, start int) (found ssa.Instruction, cont bool) {
		for i := start; i < len(b.Instrs); i++ {
			in := b.Instrs[i]
			if block != nil && block(in) {
				return nil, false
			}
			if target(in) {
				return in, false
			}
			if isNoReturn(in) {
				return nil, false
			}
		}
		return nil, true
	}
	var startBlock *ssa.BasicBlock
	startIdx := 0
	if from != nil {
		startBlock = from.Block()
		startIdx = instrIndex(from) + 1
	} else {
		if len(fn.Blocks) == 0 {
			return false, nil
		}
		startBlock = fn.Blocks[0]
	}
	if f, cont := scan(startBlock, startIdx); f != nil {
		return true, f
	} else if cont {
		work = append(work, succs(startBlock)...)
	}
	for len(work) > 0 {
		b := work[len(work)-1]
		work = work[:len(work)-1]
		if seen[b] {
			continue
		}
		seen[b] = true
		if f, cont := scan(b, 0); f != nil {
			return true, f
		} else if cont {
			work = append(work, succs(b)...)
		}
	}
	return false, nil
}

func isReturn(in ssa.Instruction) bool { _, ok := in.(*ssa.Return); return ok }

// mustPassBeforeReturn: every path from `from` to a return executes an instruction satisfying pass.
// A `defer` of a passing call counts from the point of the defer on.
func (c *Ctx) mustPassBeforeReturn(fn *ssa.Function, from ssa.Instruction, pass func(ssa.Instruction) bool) (bool, ssa.Instruction) {
	found, w := c.pathExists(fn, from, isReturn, pass)
	return !found, w
}

// ---------- calls ----------

func callsIn(fn *ssa.Function) []ssa.CallInstruction {
	var out []ssa.CallInstruction
	for _, b := range fn.Blocks {
		for _, in := range b.Instrs {
			if ci, ok := in.(ssa.CallInstruction); ok {
				out = append(out, ci)
			}
		}
	}
	return out
}

// eachCall visits every call instruction of the module (incl. go and defer).
func (c *Ctx) eachCall(f func(fn *ssa.Function, ci ssa.CallInstruction)) {
	for _, fn := range c.ModFuncs {
		for _, ci := range callsIn(fn) {
			f(fn, ci)
		}
	}
}

// invokesMethod: ci is an interface-method call of m (same *types.Func, which embedded interfaces share).
func invokesMethod(ci ssa.CallInstruction, m *types.Func) bool {
	cc := ci.Common()
	return cc.IsInvoke() && cc.Method == m
}

// callsConcreteImpl: ci statically calls a concrete method that implements iface method m.
func (c *Ctx) callsImplOf(ci ssa.CallInstruction, iface *types.Named, m *types.Func) bool {
	f := calleeFunc(ci)
	if f == nil || f.Signature.Recv() == nil || f.Name() != m.Name() {
		return false
	}
	rt := f.Signature.Recv().Type()
	it := iface.Underlying().(*types.Interface)
	return types.Implements(rt, it) || types.Implements(types.NewPointer(rt), it)
}

// sitesOf returns all call sites (static) of fn inside the module.
func (c *Ctx) sitesOf(target *ssa.Function) []ssa.CallInstruction {
	if c.callersOf == nil {
		c.callersOf = map[*ssa.Function][]ssa.CallInstruction{}
		c.eachCall(func(fn *ssa.Function, ci ssa.CallInstruction) {
			if f := calleeFunc(ci); f != nil {
				c.callersOf[f] = append(c.callersOf[f], ci)
			}
			// method values / function values: MakeClosure of bound method wrappers are resolved below
		})
	}
	return c.callersOf[target]
}

// funcValueUses: places where fn is used as a value (not called directly): stored, passed, bound.
func (c *Ctx) funcValueUses(target *ssa.Function) []ssa.Instruction {
	var out []ssa.Instruction
	for _, fn := range c.ModFuncs {
		for _, b := range fn.Blocks {
			for _, in := range b.Instrs {
				for _, op := range in.Operands(nil) {
					if *op == nil {
						continue
					}
					v := *op
					if mc, ok := v.(*ssa.MakeClosure); ok {
						v = mc.Fn
					}
					if f, ok := v.(*ssa.Function); ok {
						if f == target || isBoundOrThunkOf(f, target) {
							if ci, ok := in.(ssa.CallInstruction); ok && ci.Common().Value == *op {
								continue // direct call
							}
							if _, isMC := in.(*ssa.MakeClosure); isMC {
								// the closure value's own uses are found through the instruction using it
								continue
							}
							out = append(out, in)
						}
					}
				}
			}
		}
	}
	return out
}

// isBoundOrThunkOf: f is the synthetic bound-method closure / thunk wrapping target.
func isBoundOrThunkOf(f, target *ssa.Function) bool {
	if f.Synthetic == "" || f.Blocks == nil {
		return false
	}
	for _, ci := range callsIn(f) {
		if calleeFunc(ci) == target {
			return true
		}
	}
	return false
}

// ---------- values, fields ----------

func constBool(v ssa.Value) (bool, bool) {
	k, ok := v.(*ssa.Const)
	if !ok || k.Value == nil || k.Value.Kind() != constant.Bool {
		return false, false
	}
	return constant.BoolVal(k.Value), true
}

func constInt(v ssa.Value) (int64, bool) {
	if k, ok := v.(*ssa.Const); ok && k.Value != nil && k.Value.Kind() == constant.Int {
		if i, ok := constant.Int64Val(k.Value); ok {
			return i, true
		}
	}
	return 0, false
}

func isNilConst(v ssa.Value) bool {
	k, ok := v.(*ssa.Const)
	return ok && k.Value == nil
}

func deref(t types.Type) types.Type {
	if p, ok := t.Underlying().(*types.Pointer); ok {
		return p.Elem()
	}
	return t
}

func namedOf(t types.Type) *types.Named {
	t = deref(t)
	n, _ := t.(*types.Named)
	return n
}

func typeIs(t types.Type, pkgPath, name string) bool {
	n := namedOf(t)
	return n != nil && n.Obj().Name() == name && n.Obj().Pkg() != nil && n.Obj().Pkg().Path() == pkgPath
}

// fieldOf: if v is &x.f (FieldAddr) or x.f (Field) returns the struct's named type, the field name and base x.
func fieldOf(v ssa.Value) (owner *types.Named, field string, base ssa.Value, ok bool) {
	switch x := v.(type) {
	case *ssa.FieldAddr:
		st := deref(x.X.Type())
		s, ok2 := st.Underlying().(*types.Struct)
		if !ok2 {
			return nil, "", nil, false
		}
		return namedOf(st), s.Field(x.Field).Name(), cellBase(x.X), true
	case *ssa.Field:
		s, ok2 := x.X.Type().Underlying().(*types.Struct)
		if !ok2 {
			return nil, "", nil, false
		}
		return namedOf(x.X.Type()), s.Field(x.Field).Name(), x.X, true
	}
	return nil, "", nil, false
}

// cellBase: a struct pointer read back from a single-store variable cell (a receiver or parameter
// spilled because a function literal captures it) is that value.
func cellBase(v ssa.Value) ssa.Value {
	if u, ok := v.(*ssa.UnOp); ok && u.Op == token.MUL {
		if sv := cellValue(u.X); sv != nil {
			return cellBase(sv)
		}
	}
	return v
}

// loadedField: v is a load (*addr) of a struct field, or a Field extraction.
func loadedField(v ssa.Value) (owner *types.Named, field string, base ssa.Value, ok bool) {
	if u, isU := v.(*ssa.UnOp); isU && u.Op == token.MUL {
		return fieldOf(u.X)
	}
	if f, isF := v.(*ssa.Field); isF {
		return fieldOf(f)
	}
	return nil, "", nil, false
}

func isField(owner *types.Named, field string, pkgPath, typ, f string) bool {
	return owner != nil && owner.Obj().Name() == typ && owner.Obj().Pkg() != nil && owner.Obj().Pkg().Path() == pkgPath && field == f
}

// path renders an SSA value as a readable, position-free expression (for messages and keys).
func (c *Ctx) path(v ssa.Value) string { return c.pathN(v, 0) }

func (c *Ctx) pathN(v ssa.Value, depth int) string {
	if v == nil {
		return "<nil>"
	}
	if depth > 8 {
		return "…"
	}
	if c.normPath {
		// name-free rendering: a key built from it survives renamed locals and parameters, range loops
		// rewritten as index loops, and variables moved into cells because a function literal captures them
		switch x := v.(type) {
		case *ssa.Parameter:
			// the parameter of a function literal that is called where it is made stands for its argument
			if arg, _ := inPlaceArg(x); arg != nil {
				return c.pathN(arg, depth)
			}
			if x.Parent() != nil {
				for i, p := range x.Parent().Params {
					if p == x {
						return fmt.Sprintf("p%d", i)
					}
				}
			}
			return "p"
		case *ssa.FreeVar:
			if sv := cellValue(x); sv != nil {
				return c.pathN(sv, depth)
			}
			return "fv"
		case *ssa.Alloc:
			if sv := singleStore(x); sv != nil {
				return c.pathN(sv, depth)
			}
			return "var"
		case *ssa.Phi:
			return "φ"
		case *ssa.BinOp:
			if p, ok := x.X.(*ssa.Phi); ok && x.Op == token.ADD && p.Comment == "rangeindex" {
				if k, isK := constInt(x.Y); isK && k == 1 {
					return "φ"
				}
			}
		case *ssa.UnOp:
			if x.Op == token.MUL {
				if sv := cellValue(x.X); sv != nil {
					return c.pathN(sv, depth)
				}
			}
		}
	}
	switch x := v.(type) {
	case *ssa.Const:
		if x.Value == nil {
			return "nil"
		}
		return x.Value.ExactString()
	case *ssa.Parameter:
		return x.Name()
	case *ssa.FreeVar:
		return x.Name()
	case *ssa.Global:
		return x.Name()
	case *ssa.Function:
		return c.fnName(x)
	case *ssa.Alloc:
		if x.Comment != "" {
			return x.Comment
		}
		return "alloc"
	case *ssa.FieldAddr:
		_, f, b, _ := fieldOf(x)
		return c.pathN(b, depth+1) + "." + f
	case *ssa.Field:
		_, f, b, _ := fieldOf(x)
		return c.pathN(b, depth+1) + "." + f
	case *ssa.UnOp:
		if x.Op == token.MUL {
			return c.pathN(x.X, depth+1)
		}
		return x.Op.String() + c.pathN(x.X, depth+1)
	case *ssa.BinOp:
		return "(" + c.pathN(x.X, depth+1) + " " + x.Op.String() + " " + c.pathN(x.Y, depth+1) + ")"
	case *ssa.IndexAddr:
		return c.pathN(x.X, depth+1) + "[" + c.pathN(x.Index, depth+1) + "]"
	case *ssa.Index:
		return c.pathN(x.X, depth+1) + "[" + c.pathN(x.Index, depth+1) + "]"
	case *ssa.Lookup:
		return c.pathN(x.X, depth+1) + "[" + c.pathN(x.Index, depth+1) + "]"
	case *ssa.Slice:
		lo, hi := "", ""
		if x.Low != nil {
			lo = c.pathN(x.Low, depth+1)
		}
		if x.High != nil {
			hi = c.pathN(x.High, depth+1)
		}
		return c.pathN(x.X, depth+1) + "[" + lo + ":" + hi + "]"
	case *ssa.Call:
		var args []string
		for _, a := range x.Call.Args {
			args = append(args, c.pathN(a, depth+1))
		}
		name := ""
		if x.Call.IsInvoke() {
			name = c.pathN(x.Call.Value, depth+1) + "." + x.Call.Method.Name()
		} else if f := x.Call.StaticCallee(); f != nil {
			name = f.Name()
			if f.Signature.Recv() != nil && len(args) > 0 {
				name = args[0] + "." + f.Name()
				args = args[1:]
			}
		} else if b, ok := x.Call.Value.(*ssa.Builtin); ok {
			name = b.Name()
		} else {
			name = c.pathN(x.Call.Value, depth+1)
		}
		return name + "(" + strings.Join(args, ", ") + ")"
	case *ssa.Phi:
		if x.Comment != "" {
			return x.Comment
		}
		return "phi"
	case *ssa.Convert:
		return c.pathN(x.X, depth+1)
	case *ssa.ChangeType:
		return c.pathN(x.X, depth+1)
	case *ssa.ChangeInterface:
		return c.pathN(x.X, depth+1)
	case *ssa.MakeInterface:
		return c.pathN(x.X, depth+1)
	case *ssa.Extract:
		return c.pathN(x.Tuple, depth+1) + "#" + fmt.Sprint(x.Index)
	case *ssa.TypeAssert:
		return c.pathN(x.X, depth+1) + ".(" + types.TypeString(x.AssertedType, func(p *types.Package) string { return p.Name() }) + ")"
	case *ssa.MakeClosure:
		return c.pathN(x.Fn, depth+1)
	}
	return v.Name()
}

// litString renders a branch literal.
func (c *Ctx) litString(l lit) string {
	s := c.path(l.v)
	if !l.pol {
		return "!" + s
	}
	return s
}

func (c *Ctx) clausesString(cls []clause) string {
	var parts []string
	for _, cl := range cls {
		var ls []string
		for _, l := range cl {
			ls = append(ls, c.litString(l))
		}
		sort.Strings(ls)
		parts = append(parts, strings.Join(ls, " ∨ "))
	}
	sort.Strings(parts)
	return strings.Join(parts, " ∧ ")
}

// ---------- field accesses over the module ----------

type fieldAccess struct {
	fn    *ssa.Function
	in    ssa.Instruction
	addr  ssa.Value // the FieldAddr / Field
	base  ssa.Value
	write bool
	val   ssa.Value // stored value for writes
}

// fieldAccesses finds every read/write of struct field pkg.typ.field in the module.
// A FieldAddr that is neither loaded nor stored directly (address escapes, e.g. passed to a
// method such as atomic's or used for a nested field) is reported with in = the FieldAddr itself and write=false.
func (c *Ctx) fieldAccesses(pkgPath, typ, field string) []fieldAccess {
	var out []fieldAccess
	for _, fn := range c.ModFuncs {
		for _, b := range fn.Blocks {
			for _, in := range b.Instrs {
				switch x := in.(type) {
				case *ssa.FieldAddr:
					o, f, base, ok := fieldOf(x)
					if !ok || !isField(o, f, pkgPath, typ, field) {
						continue
					}
					refs := x.Referrers()
					if refs == nil {
						continue
					}
					for _, r := range *refs {
						switch y := r.(type) {
						case *ssa.Store:
							if y.Addr == x {
								out = append(out, fieldAccess{fn, y, x, base, true, y.Val})
							} else {
								out = append(out, fieldAccess{fn, y, x, base, false, nil})
							}
						case *ssa.UnOp:
							out = append(out, fieldAccess{fn, y, x, base, false, nil})
						default:
							out = append(out, fieldAccess{fn, r, x, base, false, nil})
						}
					}
				case *ssa.Field:
					o, f, base, ok := fieldOf(x)
					if ok && isField(o, f, pkgPath, typ, field) {
						out = append(out, fieldAccess{fn, x, x, base, false, nil})
					}
				}
			}
		}
	}
	return out
}

// compositeInits: stores into fields of a freshly allocated struct literal of the type (constructors).
func isFreshAlloc(v ssa.Value) bool {
	_, ok := v.(*ssa.Alloc)
	return ok
}

func relName(c *Ctx, pkgPath string) string {
	return strings.TrimPrefix(strings.TrimPrefix(pkgPath, c.ModPath), "/")
}

// sameValue: structural equality of pure SSA expressions (go/ssa performs no CSE).
func sameValue(a, b ssa.Value) bool {
	if a == b {
		return true
	}
	if a == nil || b == nil {
		return false
	}
	switch x := a.(type) {
	case *ssa.Const:
		y, ok := b.(*ssa.Const)
		if !ok || (x.Value == nil) != (y.Value == nil) {
			return false
		}
		if x.Value == nil {
			return types.Identical(x.Type(), y.Type())
		}
		return constant.Compare(x.Value, token.EQL, y.Value)
	case *ssa.BinOp:
		y, ok := b.(*ssa.BinOp)
		return ok && x.Op == y.Op && sameValue(x.X, y.X) && sameValue(x.Y, y.Y)
	case *ssa.Convert:
		y, ok := b.(*ssa.Convert)
		return ok && types.Identical(x.Type(), y.Type()) && sameValue(x.X, y.X)
	case *ssa.Call:
		y, ok := b.(*ssa.Call)
		if !ok {
			return false
		}
		bx, okx := x.Call.Value.(*ssa.Builtin)
		by, oky := y.Call.Value.(*ssa.Builtin)
		if okx && oky && bx.Name() == by.Name() && (bx.Name() == "len" || bx.Name() == "cap") {
			return sameValue(x.Call.Args[0], y.Call.Args[0])
		}
	}
	return false
}

// returnsOf lists the return instructions of fn, ignoring the synthetic recover block.
func returnsOf(fn *ssa.Function) []*ssa.Return {
	var out []*ssa.Return
	for _, b := range fn.Blocks {
		if b == fn.Recover {
			continue
		}
		if ret, ok := b.Instrs[len(b.Instrs)-1].(*ssa.Return); ok {
			out = append(out, ret)
		}
	}
	return out
}

// asReturn: the block's terminating return, ignoring the synthetic recover block.
func asReturn(b *ssa.BasicBlock) (*ssa.Return, bool) {
	if b == b.Parent().Recover || len(b.Instrs) == 0 {
		return nil, false
	}
	r, ok := b.Instrs[len(b.Instrs)-1].(*ssa.Return)
	return r, ok
}

// retResults resolves defer-spilled results: with defers go/ssa stores each result into a
// local and returns a reload after rundefers; the value stored in the same block is returned.
func retResults(ret *ssa.Return) []ssa.Value {
	out := make([]ssa.Value, len(ret.Results))
	for i, res := range ret.Results {
		out[i] = res
		u, ok := res.(*ssa.UnOp)
		if !ok || u.Op != token.MUL {
			continue
		}
		al, ok := u.X.(*ssa.Alloc)
		if !ok {
			continue
		}
		instrs := ret.Block().Instrs
		for j := len(instrs) - 1; j >= 0; j-- {
			if st, ok := instrs[j].(*ssa.Store); ok && st.Addr == al {
				out[i] = st.Val
				break
			}
		}
	}
	return out
}

// varOf: if v is a load of a local variable cell (address-taken local), returns the cell.
func varOf(v ssa.Value) *ssa.Alloc {
	if u, ok := v.(*ssa.UnOp); ok && u.Op == token.MUL {
		if al, ok := u.X.(*ssa.Alloc); ok {
			return al
		}
	}
	return nil
}

// sameVar: a and b are the same SSA value or loads of the same local variable cell.
func sameVar(a, b ssa.Value) bool {
	if a == b {
		return true
	}
	va, vb := varOf(a), varOf(b)
	if va != nil && va == vb {
		return true
	}
	// loads of the same captured variable inside a function literal, or a captured variable and the
	// value it was given once in the enclosing function
	ua, okA := a.(*ssa.UnOp)
	ub, okB := b.(*ssa.UnOp)
	if okA && okB && ua.Op == token.MUL && ub.Op == token.MUL {
		if fa, isFA := ua.X.(*ssa.FreeVar); isFA && ua.X == ub.X {
			_ = fa
			return true
		}
	}
	sa, sb := stripConv(a), stripConv(b)
	return sa == sb && sa != nil
}

// storedTo: the call's result is stored into variable cell al.
func storedTo(v ssa.Value, al *ssa.Alloc) bool {
	if al == nil || v.Referrers() == nil {
		return false
	}
	for _, ref := range *v.Referrers() {
		if st, ok := ref.(*ssa.Store); ok && st.Addr == al && st.Val == v {
			return true
		}
	}
	return false
}

// inPlaceCall: fn is a function literal with exactly one MakeClosure (or direct reference) in its
// parent, which is called right there and used for nothing else; returns that call.
var inPlaceCache = map[*ssa.Function]*ssa.Call{}
var inPlaceKnown = map[*ssa.Function]bool{}

func inPlaceCall(fn *ssa.Function) *ssa.Call {
	if inPlaceKnown[fn] {
		return inPlaceCache[fn]
	}
	res := inPlaceCallUncached(fn)
	inPlaceKnown[fn] = true
	inPlaceCache[fn] = res
	return res
}

func inPlaceCallUncached(fn *ssa.Function) *ssa.Call {
	par := fn.Parent()
	if par == nil {
		return nil
	}
	var found *ssa.Call
	n := 0
	for _, b := range par.Blocks {
		for _, in := range b.Instrs {
			call, ok := in.(*ssa.Call)
			if !ok {
				continue
			}
			switch v := call.Call.Value.(type) {
			case *ssa.MakeClosure:
				if v.Fn == ssa.Value(fn) {
					if refs := v.Referrers(); refs != nil && len(*refs) == 1 {
						found = call
						n++
					}
				}
			case *ssa.Function:
				if v == fn {
					found = call
					n++
				}
			}
		}
	}
	if n != 1 {
		return nil
	}
	return found
}

// inPlaceArg: p is a parameter of a literal called in place: the argument it is bound to, and the call.
func inPlaceArg(p *ssa.Parameter) (ssa.Value, *ssa.Call) {
	fn := p.Parent()
	if fn == nil || fn.Parent() == nil {
		return nil, nil
	}
	call := inPlaceCall(fn)
	if call == nil {
		return nil, nil
	}
	for i, fp := range fn.Params {
		if fp == p && i < len(call.Call.Args) {
			return call.Call.Args[i], call
		}
	}
	return nil, nil
}
