package main

import (
	"fmt"
	"go/token"

	"golang.org/x/tools/go/ssa"
)

func init() {
	explain("C08", "Static necessary conditions of the batcher contract, decided exhaustively over the source: append-then-readiness-check inside one fill-lock region; the send-vs-close discipline of the full-batches channel (every send in the region of the mutex under which the channel is closed, behind a test of the stop flag); batch=nil and seq assignment before the lock is released; count clause is >= and bytes clause is <=; sequenced commit (C01.R5), flush heartbeat (C04.R5), worker never takes the fill lock (C04.R6); stop shape (idempotent close under the lock, workers range over the channel and signal a WaitGroup that Stop waits for). "+
		"NOT decided: the byte/count arithmetic under all arrival patterns, flush latency.",
		"go/types, go/ssa and x/tools call resolution are correct", "lock identity is by access path", "the full-batches channel has capacity = number of batches (NewBatcher), so a send under the fill lock cannot block")
	reg("C08", "C08.R1", "E2+E3", "append is followed, inside the same fill-lock region, by the readiness check", 1, ruleAppendThenCheck)
	reg("C08", "C08.R2", "E3", "send vs close: every send on a channel closed under mutex M lies in the M region behind a test of the stop flag", 1, ruleSendVsClose)
	reg("C08", "C08.R3", "E2+E3", "on the sending path batch=nil and the sequence assignment happen before the send, under the fill lock", 1, ruleSendPath)
	reg("C08", "C08.R4", "E2+E3", "sequenced commit region (same rule as C01.R5)", 1, ruleSequencedRegion)
	reg("C08", "C08.R5", "E2+E3", "flush heartbeat (same rule as C04.R5)", 1, ruleFlushHeartbeat)
	reg("C08", "C08.R6", "E1", "worker never takes the fill lock (same rule as C04.R6)", 1, ruleWorkerNoFillLock)
	reg("C08", "C08.R7", "E2", "stop shape: idempotent close under the lock; workers range over the channel; Stop waits for the workers", 1, ruleStopShape)
	reg("C08", "C08.R8", "E2", "readiness: count clause len>=maxCount, bytes clause maxBytes<=size, each guarded by 'limit set'", 1, ruleReadinessClauses)
	reg("C08", "C08.R9", "E2", "send-before-commit in the worker (same rule as C01.R4)", 1, ruleSendBeforeCommit)
	reg("C08", "C08.R10", "E1+E2", "commit loop covers batch.events ascending, once (same rule as C02.R3)", 1, ruleFIFOBatchFill)
}

func ruleAppendThenCheck(c *Ctx, r *Rule) {
	br := c.batcher()
	if br.sender == nil {
		r.Unresolved("batch sender")
		return
	}
	var appender *ssa.Function
	for _, a := range c.fieldAccesses(pipelinePkg, "Batch", "events") {
		if a.write {
			if call, ok := a.val.(*ssa.Call); ok {
				if b, ok := call.Call.Value.(*ssa.Builtin); ok && b.Name() == "append" {
					appender = a.fn
				}
			}
		}
	}
	if appender == nil {
		r.Unresolved("Batch.append")
		return
	}
	for _, cs := range c.sitesOf(appender) {
		fn := cs.Parent()
		r.Inst(1)
		name := c.fnName(fn)
		isSender := func(in ssa.Instruction) bool {
			ci, ok := in.(ssa.CallInstruction)
			return ok && calleeFunc(ci) == br.sender
		}
		ok, w := c.mustPassBeforeReturn(fn, cs, isSender)
		msg := "after appending, every path evaluates readiness (send-if-ready) before returning"
		if !ok {
			msg = "after Batch.append a path returns at " + c.pos(w.Pos()) + " without the readiness check: a full batch is not handed over until the next event or heartbeat"
		}
		r.Ob(ok, name+"|check-after-append", cs.Pos(), msg)
		for _, ci := range callsIn(fn) {
			if calleeFunc(ci) == br.sender {
				okL, why := c.heldInterproc(ci, lockRef{fn.Params[0], ".mu"}, 1)
				if okL {
					why = "the readiness check runs in the same fill-lock region as the append"
				}
				r.Ob(okL, name+"|same-region", ci.Pos(), why)
				// batch checked = batch appended to
				r.Ob(len(ci.Common().Args) == 2 && len(cs.Common().Args) >= 1 && ci.Common().Args[1] == cs.Common().Args[0], name+"|same-batch", ci.Pos(), "the batch checked is the batch appended to")
			}
		}
	}
}

func ruleSendVsClose(c *Ctx, r *Rule) {
	// channel fields of Batcher that are closed
	type closed struct {
		field string
		call  *ssa.Call
	}
	var cl []closed
	for _, fn := range c.ModFuncs {
		if rn := recvNamed(fn); rn == nil || rn.Obj().Name() != "Batcher" || !inPkg(rn, pipelinePkg) {
			continue
		}
		for _, b := range fn.Blocks {
			for _, in := range b.Instrs {
				if call, ok := isBuiltinCall(in, "close"); ok {
					if o, f, _, ok := loadedField(call.Call.Args[0]); ok && o.Obj().Name() == "Batcher" {
						cl = append(cl, closed{f, call})
					}
				}
			}
		}
	}
	r.Inst(len(cl))
	for _, x := range cl {
		cfn := x.call.Parent()
		_, _, base, _ := loadedField(x.call.Call.Args[0])
		root := refOf(base).root
		held := c.flowMust(cfn).at(x.call)
		var M lockRef
		okM := false
		for _, l := range held {
			if l.root == root {
				M, okM = l, true
			}
		}
		r.Ob(okM, "close|"+x.field+"|under-lock", x.call.Pos(), "the channel is closed with a Batcher lock held: "+c.locksetString(held))
		if !okM {
			continue
		}
		// flag: bool field stored true in the same region before the close
		flag := ""
		for _, b := range cfn.Blocks {
			for _, in := range b.Instrs {
				if st, ok := in.(*ssa.Store); ok {
					if v, isC := constBool(st.Val); isC && v {
						if o, f, _, ok := fieldOf(st.Addr); ok && o.Obj().Name() == "Batcher" && instrDominates(st, x.call) {
							flag = f
						}
					}
				}
			}
		}
		r.Ob(flag != "", "close|"+x.field+"|flag", x.call.Pos(), "the close is preceded by setting a stop flag in the same region")
		if flag == "" {
			continue
		}
		// every send on that field
		n := 0
		for _, fn := range c.ModFuncs {
			for _, b := range fn.Blocks {
				for _, in := range b.Instrs {
					s, ok := in.(*ssa.Send)
					if !ok {
						continue
					}
					o, f, sbase, ok := loadedField(s.Chan)
					if !ok || o.Obj().Name() != "Batcher" || f != x.field {
						continue
					}
					if isFreshAlloc(refOf(sbase).root) || fn.Name() == "NewBatcher" {
						continue
					}
					n++
					name := c.fnName(fn)
					okL, why := c.heldInterproc(s, lockRef{refOf(sbase).root, M.path}, 2)
					msg := "send on " + x.field + " inside the region of the lock under which it is closed"
					if !okL {
						msg = "send on Batcher." + x.field + " outside the " + M.path + " region in which Stop closes the channel: a concurrent Stop makes this a send on a closed channel (panic). " + why
					}
					r.Ob(okL, "send|"+x.field+"|"+name+"|in-region", s.Pos(), msg)
					// behind a test of the flag: in this function, or at every call site of it
					okF, whyF := c.flagTested(s, refOf(sbase).root, flag, 2)
					if okF {
						whyF = "the send is behind a test of !" + flag + " taken in the same region"
					}
					r.Ob(okF, "send|"+x.field+"|"+name+"|flag-tested", s.Pos(), whyF)
				}
			}
		}
		r.Ob(n >= 1, "send|"+x.field+"|exists", x.call.Pos(), fmt.Sprintf("%d send sites on Batcher.%s", n, x.field))
	}
}

// flagTested: instruction in is control-dependent on !recv.flag, locally or at every call site.
func (c *Ctx) flagTested(in ssa.Instruction, root ssa.Value, flag string, depth int) (bool, string) {
	fn := in.Parent()
	for _, l := range c.unitGuards(in) {
		if o, f, base, ok := loadedField(l.v); ok && !l.pol && o.Obj().Name() == "Batcher" && f == flag && refOf(base).root == root {
			return true, ""
		}
	}
	pi := paramIndex(fn, root)
	if pi < 0 || depth == 0 {
		return false, "no dominating test of !" + flag + " in " + c.fnName(fn)
	}
	sites := c.sitesOf(fn)
	if len(sites) == 0 {
		return false, "no dominating test of !" + flag + " and no callers of " + c.fnName(fn)
	}
	for _, s := range sites {
		if ok, why := c.flagTested(s, refOf(s.Common().Args[pi]).root, flag, depth-1); !ok {
			return false, why + " (caller " + c.fnName(s.Parent()) + ")"
		}
	}
	return true, ""
}

func ruleSendPath(c *Ctx, r *Rule) {
	br := c.batcher()
	if br.sender == nil || br.send == nil {
		r.Unresolved("batch sender")
		return
	}
	r.Inst(1)
	fn := br.sender
	name := c.fnName(fn)
	var nilStore, seqStore ssa.Instruction
	for _, a := range c.fieldAccesses(pipelinePkg, "Batcher", "batch") {
		if a.write && a.fn == fn && isNilConst(a.val) {
			nilStore = a.in
		}
	}
	for _, a := range c.fieldAccesses(pipelinePkg, "Batch", "seq") {
		if a.write && a.fn == fn {
			seqStore = a.in
		}
	}
	r.Ob(nilStore != nil && instrDominates(nilStore, br.send), name+"|batch-nil-before-send", br.send.Pos(), "the current batch is detached (b.batch = nil) before it is handed to the workers")
	r.Ob(seqStore != nil && instrDominates(seqStore, br.send), name+"|seq-before-send", br.send.Pos(), "the batch gets its sequence number before it is handed to the workers")
	for what, st := range map[string]ssa.Instruction{"batch-nil": nilStore, "seq": seqStore} {
		if st == nil {
			continue
		}
		okL, why := c.heldInterproc(st, lockRef{fn.Params[0], ".mu"}, 2)
		if okL {
			why = what + " store under the fill lock"
		}
		r.Ob(okL, name+"|"+what+"-under-lock", st.Pos(), why)
	}
	// the value sent is the batch that was checked, and the send happens only when ready
	p, isP := br.send.X.(*ssa.Parameter)
	r.Ob(isP && paramIndex(fn, p) >= 0, name+"|sends-checked-batch", br.send.Pos(), "the batch sent is the function's own batch parameter")
	ready := false
	for _, l := range c.unitGuards(br.send) {
		if op, x, y, ok := cmpLit(l); ok && op == token.NEQ {
			if k, isK := constInt(y); isK && k == 0 {
				if call, isCall := x.(*ssa.Call); isCall && call.Call.StaticCallee() != nil {
					ready = true
				}
			}
		}
	}
	r.Ob(ready, name+"|send-only-when-ready", br.send.Pos(), "the send is control-dependent on status != NotReady")
	// the lock is released on every path (…AndUnlock contract), exactly by this function
	s := c.lockSummary(fn)
	rel := false
	if s != nil {
		for _, x := range s.releases {
			if x == "$0.mu" {
				rel = true
			}
		}
	}
	r.Ob(rel, name+"|releases-lock", fn.Pos(), "the send-if-ready helper releases the fill lock on every path (callers rely on it)")
}

func ruleStopShape(c *Ctx, r *Rule) {
	br := c.batcher()
	if br.worker == nil || br.recv == nil {
		r.Unresolved("batch worker")
		return
	}
	r.Inst(1)
	// close is guarded by !flag (idempotent)
	for _, fn := range c.ModFuncs {
		if rn := recvNamed(fn); rn == nil || rn.Obj().Name() != "Batcher" || !inPkg(rn, pipelinePkg) {
			continue
		}
		for _, b := range fn.Blocks {
			for _, in := range b.Instrs {
				call, ok := isBuiltinCall(in, "close")
				if !ok {
					continue
				}
				g := false
				for _, l := range c.unitGuards(call) {
					if o, f, _, ok := loadedField(l.v); ok && !l.pol && o.Obj().Name() == "Batcher" && f == "shouldStop" {
						g = true
					}
				}
				r.Ob(g, c.fnName(fn)+"|idempotent-close", call.Pos(), "close is control-dependent on the stop flag not being set yet (second Stop does not close twice)")
				// Stop waits for the workers after closing
				var wgWait ssa.CallInstruction
				for _, ci := range callsIn(fn) {
					if f := calleeFunc(ci); f != nil && qualName(f) == "(*sync.WaitGroup).Wait" {
						wgWait = ci
					}
				}
				okW := false
				if wgWait != nil {
					miss, _ := c.pathExists(fn, nil, isReturn, func(in ssa.Instruction) bool { return in == ssa.Instruction(wgWait) })
					okW = !miss
					// not under the fill lock (workers do not need it, but Add callers do)
					if c.flowMust(fn).holdsAny(wgWait, func(l lockRef) bool { return l.path == ".mu" }) {
						okW = false
					}
				}
				r.Ob(okW, c.fnName(fn)+"|waits-for-workers", call.Pos(), "Stop waits for the workers on every path, after releasing the fill lock")
			}
		}
	}
	// worker: deferred Done; loop exits only when the channel is closed
	done := false
	for _, ci := range callsIn(br.worker) {
		if _, isDefer := ci.(*ssa.Defer); isDefer {
			if f := calleeFunc(ci); f != nil && qualName(f) == "(*sync.WaitGroup).Done" {
				done = true
			}
		}
	}
	r.Ob(done, c.fnName(br.worker)+"|defers-done", br.worker.Pos(), "each worker signals the WaitGroup when it ends")
	for _, b := range br.worker.Blocks {
		if ret, ok := asReturn(b); ok {
			g := false
			for _, l := range c.unitGuards(ret) {
				if e, ok := l.v.(*ssa.Extract); ok && e.Tuple == br.recv.(ssa.Value) && e.Index == 1 && !l.pol {
					g = true
				}
			}
			r.Ob(g, c.fnName(br.worker)+"|exit-on-close", ret.Pos(), "the worker ends only when the full-batches channel is closed and drained")
		}
	}
	// Start adds exactly the number of workers it starts
	start := c.Method("pipeline", "Batcher", "Start")
	if start != nil {
		var add ssa.CallInstruction
		goWorkers := 0
		for _, ci := range callsIn(start) {
			if f := calleeFunc(ci); f != nil && qualName(f) == "(*sync.WaitGroup).Add" {
				add = ci
			}
			if g, ok := ci.(*ssa.Go); ok && g.Call.StaticCallee() == br.worker {
				goWorkers++
			}
		}
		r.Ob(add != nil && goWorkers == 1, c.fnName(start)+"|wg-add", start.Pos(), "Start registers the workers in the WaitGroup before starting them")
	}
}

func ruleReadinessClauses(c *Ctx, r *Rule) {
	defer c.withDeepFacts()() // a readiness condition extracted into a boolean helper is read like the inline one
	var st *ssa.Store
	for _, a := range c.fieldAccesses(pipelinePkg, "Batch", "status") {
		if a.write && recvNamed(a.fn) != nil && recvNamed(a.fn).Obj().Name() == "Batch" {
			if k, ok := constInt(a.val); ok && k == 1 { // BatchStatusMaxSizeExceeded = iota 1
				st = a.in.(*ssa.Store)
			}
		}
	}
	if st == nil {
		r.Unresolved("store of BatchStatusMaxSizeExceeded")
		return
	}
	r.Inst(1)
	fn := st.Parent()
	name := c.fnName(fn)
	// the store's guards: a clause  (count-clause ∨ bytes-clause ...). Collect all comparison literals in the clauses.
	var countOK, bytesOK, countSet, bytesSet bool
	lenOfEvents := func(v ssa.Value) bool {
		call, ok := stripConv(v).(*ssa.Call)
		if !ok {
			return false
		}
		b, ok := call.Call.Value.(*ssa.Builtin)
		return ok && b.Name() == "len" && isLoadOfField(call.Call.Args[0], pipelinePkg, "Batch", "events")
	}
	fld := func(v ssa.Value, f string) bool { return isLoadOfField(stripConv(v), pipelinePkg, "Batch", f) }
	for _, cl := range c.guards(fn)[st.Block()] {
		for _, l := range cl {
			op, x, y, ok := cmpLit(l)
			if !ok {
				continue
			}
			switch {
			case lenOfEvents(x) && fld(y, "maxSizeCount") && op == token.GEQ, fld(x, "maxSizeCount") && lenOfEvents(y) && op == token.LEQ:
				countOK = true
			case fld(x, "maxSizeBytes") && fld(y, "eventsSize") && op == token.LEQ, fld(x, "eventsSize") && fld(y, "maxSizeBytes") && op == token.GEQ:
				bytesOK = true
			case fld(x, "maxSizeCount") && op == token.NEQ:
				if k, isK := constInt(y); isK && k == 0 {
					countSet = true
				}
			case fld(x, "maxSizeBytes") && op == token.NEQ:
				if k, isK := constInt(y); isK && k == 0 {
					bytesSet = true
				}
			}
		}
	}
	g := c.clausesString(c.guards(fn)[st.Block()])
	r.Ob(countOK, name+"|count-clause", st.Pos(), "a batch is ready as soon as len(events) >= maxSizeCount (so it never holds more than the configured count); guards: "+g)
	r.Ob(bytesOK, name+"|bytes-clause", st.Pos(), "a batch is ready as soon as maxSizeBytes <= eventsSize (so it exceeds the byte size by at most its last event); guards: "+g)
	r.Ob(countSet && bytesSet, name+"|limit-set-guards", st.Pos(), "each clause applies only when its limit is configured (!= 0)")
	// eventsSize accumulates e.Size in the appender
	okAcc := false
	for _, a := range c.fieldAccesses(pipelinePkg, "Batch", "eventsSize") {
		if a.write {
			if bo, ok := a.val.(*ssa.BinOp); ok && bo.Op == token.ADD && isLoadOfField(bo.X, pipelinePkg, "Batch", "eventsSize") && isLoadOfField(bo.Y, pipelinePkg, "Event", "Size") {
				okAcc = true
			}
		}
	}
	r.Ob(okAcc, "Batch.append|size-accumulates", st.Pos(), "eventsSize accumulates the size of each appended event")
}
