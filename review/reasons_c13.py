# Reasons for the reviewed residue of C13 (each entry was checked by reading the code).
# K5 / K6 keys are NOT reviewed here: they are known findings (known_findings.json).
def reason(k):
    if k.startswith('C13.P'):
        if 'Plugin.maskAppliedMetric' in k:
            return ("makeMetric returns nil only for an empty metric name; the call is under `p.config.AppliedMetricName != \"\"`, the very name the metric was made from in registerMetrics at Start "
                    "(config fields are not written after Start)")
        return None
    if 'MultilineAction).Do|exit|Fatalf#5' in k or 'MultilineAction).Do|exit|panic#6' in k:
        return None  # K6
    if 'MultilineAction).Do|slice|' in k and 'ByteToStringUnsafe' in k and '[1:(len(' in k and 'low<=high' in k:
        return None  # K6 (non-string log field shorter than 2 bytes)
    if 'MultilineAction).Do|slice|' in k and '- ((len(p.event' in k:
        return ("cut-off branch: offset = len(eventBuf)+len(fragment)-max >= 0 and high = len(fragment)-1-offset = max-1-len(eventBuf); chunks are appended only while len(eventBuf)+len(fragment) < max, "
                "so len(eventBuf) <= max-3 afterwards (1 initially): high >= 1 for every max_event_size >= 3")
    if 'Mask).maskValue|slice|value[prevFinish:m.Re_' in k and 'low<=high' in k:
        return None  # K5
    if k.startswith('C13.D') and 'timeToBucketID' in k:
        return ("the divisor is the configured bucket_interval (bucketsMeta.interval is set once by newBucketsMeta from limiterConfig.bucketInterval = config.BucketInterval_); "
                "Start ends the process unless it is > 0 (checked invariant C13.I rejects-non-positive|BucketInterval_; before fix F11 \"0s\" was accepted and the first event divided by zero)")
    if k.startswith('C13.B') and 'template.containsCall' in k and 's[left]' in k.replace('[:LastIndexByte(s, 41)]', ''):
        return ("left starts at right = i-1 with i >= 0 (LastIndexByte found), and the scanning loop decrements it only while left >= 0, so left >= -1 after the loop; "
                "the two early returns exclude left == right and left == -1, hence 0 <= left <= right < len(s) at s[left] (descending-counter invariant plus a disequality, outside the prover's domain)")
    if k.startswith('C13.B'):
        if 'RegexFilter).Apply' in k:
            return ("indexes come from regexp.FindAllSubmatchIndex: each entry has 2*(NumSubexp+1) elements and the group list kept by the filter is the RESULT of cfg.VerifyGroupNumbers "
                    "(checked invariant C13.I verified-result-stored; before fix F10 the result was ignored); a pair is either (-1,-1), which is skipped, or 0 <= start <= end <= len(src) (library contract, outside the prover)")
        if 'fieldOpNode).Check' in k:
            return "contains_any: the constructor rejects anything but exactly one non-empty value, so values[0] exists"
        if 'logicalNode).Check' in k:
            return "the constructor rejects an empty operand list (and `not` takes exactly one), so operands[0] exists"
        if 'cardinality' in k:
            return "valsBuf is allocated in Start with len(fields) (make([]string, len(f))) and never resliced: parallel slices of equal length"
        if 'normalizeByScanner' in k:
            return "token begin/end are the lexmachine match positions (TC, TC+len(Bytes)) inside scanner.Text, produced left to right, so prevEnd <= tok.begin <= tok.end <= len(Text) (external scanner contract)"
        if 'normalizeByTokenizer' in k or 'tokenizer).' in k:
            return ("tokenizer positions: pos starts at 0 and only moves forward to positions found by the scanning loop (i < len(data)); tokens are emitted with startPattern <= pos+1 <= len(data) in increasing order; "
                    "data[pos-1] is guarded by pos > 0; loop indexes start at t.pos >= 0 (field invariant outside the prover)")
        if 'keep_fields' in k:
            return "recursion-depth invariant: fieldsDepthSlice is allocated in Start with one entry per level of the configured field tree; traverseFieldsTree descends (depth+1) only into a child that itself has children, so depth < tree height"
        if 'maskSection' in k:
            return "begin/end are a regexp submatch pair already tested >= 0 by the caller: 0 <= begin <= end <= len(src) (library contract)"
        if 'Mask).maskValue|index|' in k:
            return "index[grp*2(+1)]: FindAllSubmatchIndex entries have 2*(NumSubexp+1) elements and Groups were verified against NumSubexp at Start (cfg.VerifyGroupNumbers)"
        if 'Mask).maskValue|slice|value[prevFinish:]' in k:
            return "prevFinish is 0 or the end of a submatch of value (<= len(value))"
        if 'Mask).maskValue|slice|value[prevFinish:m.Re_' in k and 'high<=cap' in k:
            return "curStart is a non-negative submatch start of value (<= len(value)); the ORDER prevFinish <= curStart is the known finding K5 and is not reviewed"
        if 'mask.Plugin).Do' in k or 'mask.Plugin).processMask' in k:
            return "maskApplyCount / hasMasksIgnoreFields / hasMasksProcessFields are made with len(config.Masks) in Start and indexed by the range index over config.Masks (maskApplyCount only when a mask has a metric, the same condition under which it is allocated)"
        if 'modify.Plugin).Do' in k:
            return "a raw substitution op is always built with exactly one data element (substitution parser)"
        if 'move.Plugin).Do' in k:
            return "allowFields holds ParseFieldSelector results of non-empty selectors (non-empty paths); the access is further guarded by Dig(field...) != nil"
        if 'parse_re2.Plugin).Do' in k:
            return "sm is FindSubmatch's result, which has len(SubexpNames()) elements when non-nil (nil is handled above)"
        if 'rename.Plugin).Do' in k:
            return "paths and names are appended pairwise in Start: parallel slices of equal length"
        if 'throttle.rule).isMatch' in k:
            return "values is made with len(conditions) and fields with the same keys in newRule: parallel slices"
        if 'Buckets' in k or 'buckets' in k.lower() and 'throttle' in k:
            return ("bucket index = id - minID with id clamped to [minID, maxID] and maxID - minID = count-1 = len(b)-1 (rebuildBuckets); resetFn(n) gets n = min(dif, count) with dif > 0; "
                    "the distribution index is 0 or an index+1 into distributions, and every bucket row is made with distSize+1 columns (cross-function object invariant outside the prover)")
        if 'limitDistributions).getLimit' in k:
            return "idxByKey maps each key to its index in distributions; both are built together in parseLimitDistribution"
        if 'MultilineAction).Do|slice|' in k and 'offset' in k.lower() or ('MultilineAction).Do|slice|' in k and '- ((len(p.eventBuf)' in k):
            return ("cut-off branch: offset = len(eventBuf)+len(fragment)-max >= 0 and high = len(fragment)-1-offset = max-1-len(eventBuf); chunks are appended only while len(eventBuf)+len(fragment) < max, "
                    "so len(eventBuf) <= max-3 afterwards (1 initially): high >= 1 for every max_event_size >= 3")
        if 'MultilineAction).Do|slice|event.Buf' in k:
            return "l := len(event.Buf) taken before two appends onto event.Buf: l <= len(event.Buf) afterwards (a map-range loop with interleaved calls defeats the load numbering)"
        if 'resetLogBuf' in k:
            return "eventBuf gets its first byte (the opening quote) in Start and is only ever re-sliced to [:1] or appended to: cap >= 1"
        if 'ParseLevelAsString' in k:
            return "ParseLevelAsNumber returns LevelUnknown (-1, handled just above) or one of the eight levels 0..7 = indexes of levelNames"
        if 'newDistributedBuckets' in k:
            return "i ranges over 0..count-1 and the outer slice was made with count elements two lines above (composite literal field, not numbered by the prover)"
    if k.startswith('C13.T'):
        if 'cardinality.Cache' in k:
            return "the radix tree only ever stores int64 timestamps (Cache.Set)"
        if 'decode.Plugin).decodeCSV' in k and 'CSVDecoder' in k:
            return "decodeCSV is dispatched only when the configured decoder is CSV; p.decoder was created by NewCSVDecoder in Start"
        if 'decode.Plugin)' in k:
            return "asserts the type the selected decoder's Decode returns on the err == nil path (error is checked just above)"
        if 'normalizeByScanner' in k:
            return "every lexer action of this package returns a token value"
        if 'MultilineAction' in k:
            return "the pool's New only produces *bytesBuf"
    if k.startswith('C13.X'):
        if 'matchrule.Rule).Match' in k:
            return "rules are prepared in Start (Mask.Prepare / RuleSet.Prepare) before any event; not reachable by content"
        if 'lenCmpOpNode' in k or 'tsCmpOpNode' in k or 'cmpOperation).compare' in k:
            return "default: of a switch over an operator enum whose every constant has a case (decided by C14.R1) and whose value is set by the validating constructor"
        if 'addFieldPrefix' in k:
            return "default: of a type switch; all call sites pass []byte or string fields of decoder rows"
        if 'join.Plugin).Do' in k:
            return "a time-out event is delivered only to an action the processor marked busy, which join becomes only by returning Hold/Collapse with isJoining set (internal invariant, decided structurally by C15.R1 co-write); not content"
        if 'join.Plugin).flush' in k:
            return "flush is called only under isJoining, which is co-written with initial != nil (C15.R1); not content"
        if 'maskSection' in k:
            return "default: of the switch over the masking mode, which Start sets to one of three constants"
        if 'modify.Plugin).Do' in k:
            return "default: of the switch over the substitution op kind (two constants, produced by the parser)"
        if 'parse_es' in k:
            return "passNext and discardNext are never set together (each branch sets one and clears itself); internal invariant, not content"
        if 'inMemoryLimiter).isAllowed' in k:
            return "limit kind is validated by the config `options` tag (count|size); unknown kind cannot come from an event"
        if 'newLimiter' in k:
            return "limiter backend is validated by the config `options` tag (memory|redis)"
        if 'MultilineAction).Do|exit|Fatalf' in k:
            return "k8s_namespace / k8s_pod / k8s_container_id / k8s_container are metadata the k8s input derives from the log FILE NAME, not from the record content"
    return None
