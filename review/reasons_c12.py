# Reasons for the reviewed residue of C12 (each entry was checked by reading the code).
# Used only by bin/review.py to (re)generate reviewed_obligations.json; never at check time.
def reason(k):
    fn = k.split('|')[1] if '|' in k else ''
    if 'nginxErrorDecoder' in k and k.startswith('C12.B'):
        return ("element-of-slice facts outside the prover's domain: split = ascending positions (each < len(data)) of the first spaces; len(split) >= 4 is checked; "
                "split[2]-split[1] >= 4 is checked before Level; the pid/tid loop runs i in (split[2], split[3]); len(data) > split[3]+1 is checked before data[split[3]+1]; "
                "'*' at split[3]+1 implies split[4] >= split[3]+2; data[split[4]+1:] is guarded by len(data) > split[4]+1")
    if 'recordBuffer[preIdx' in k:
        return "fieldIndexes holds len(recordBuffer) samples taken while the buffer only grew: non-decreasing and <= the final length; str is string(recordBuffer)"
    if 'cutFieldsBySize' in k and k.startswith('C12.B'):
        return ("cut positions come from gjson for a string value of the validated document: start = Index+limit+1 <= end = Index+len(Str) because len(Str) > limit, "
                "and end+1 <= index of the closing quote < len(data) (plain paths; positions computed by an external library are outside the prover)")
    if 'syslogRFC3164Decoder' in k and k.startswith('C12.B'):
        return "value fact: data[0] == '[' was just tested, so IndexByte(data, ']') >= 1 and data[1:offset] is ordered"
    if 'parseStructuredData(data)#1' in k:
        return "offset is a sum of non-negative shift counts starting at 0 (0 in the '-' case); the upper side is guarded by `offset >= len(data)` returning just above"
    if 'parseStructuredData$1' in k:
        return ("shiftData(count) is called with 1 after data[0]=='[' (len > 0), with idx+1 where idx = IndexByte >= 2 (< len), and with idx+1 after the params loop where ']' was read at idx < len(data): "
                "0 <= count <= len(data) at every call site (invariant on captured cells, outside the prover)")
    if 'parseStructuredData|' in k and k.startswith('C12.B'):
        return ("idx counts the bytes already read from bytes.Reader r (reset to data): when byte b was read, idx < len(data), so idx-1 and idx are < len(data); idx+1 < len(data) is tested; "
                "startParamID / startParamValue were set to an earlier idx+1 <= the current idx (reader/index correlation on captured cells, outside the prover). The LOWER side of data[idx-1] is proven, not reviewed")
    if 'MaxEventSize' in k and k.startswith('C12.B'):
        return ("0 <= max_event_size is a property of the configuration, not of the record: the branch is entered under MaxEventSize != 0 && len(bytes) > MaxEventSize; "
                "a negative max_event_size is a configuration error outside the property's input quantifier (recorded in DESIGN as an observation)")
    if '|assert|' in k:
        if 'GetBuffers' in k:
            return "the pool's New (NewCSVDecoder) only produces *CSVBuffers and PutBuffers only puts *CSVBuffers"
        return "asserts the dynamic type of the value the decoder's own Decode returned on the err == nil path; that path returns exactly this type"
    if 'buffer-write' in k:
        if 'CSVDecoder' in k:
            return "data[n-2] with n = len(data) >= 2: inside the line (CRLF normalisation)"
        if 'jsonDecoder' in k:
            return "append(data[:start], data[end+1:]...) with start <= end: the result is shorter than the line, every written index < len(data)"
        if 'checkInputBytes' in k:
            return "append(bytes[:Max], '\\n') under len(bytes) > Max: writes index Max < len(bytes), inside the (cut) record"
        if 'DecodePostgres' in k:
            return "the time field is rebuilt in place over data[:pos1] + delimiter + the next tokens: each append writes at or before a delimiter already consumed; total length = position of the third delimiter, inside the line"
    if 'CheckInvalidLine' in k:
        return "Fatalf only when the operator configured csv invalid_line_mode=fatal: exiting on a malformed line is the configured behaviour"
    if '|exit|Panic' in k and 'Pipeline).In' in k:
        return "default: of the switch over the decoder type; the type is validated when the pipeline is built (unknown decoder is fatal at start), so no record can reach it"
    return None
