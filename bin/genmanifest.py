#!/usr/bin/env python3
"""Regenerates MANIFEST.json from the table below (kept next to the code so it never goes stale)."""
import json, os
root = os.path.dirname(os.path.dirname(os.path.abspath(__file__)))
BASE = "cd /repo && GOFLAGS=-mod=mod GOPROXY=off go test -vet=off -count=1 -timeout 25m ./..."
claimed = {
 "C01": ("who-may-call + CFG path rules + lock-region dataflow over go/ssa", "§3 C01",
   "Decides, exhaustively over the source, the structural necessary conditions of commit-frontier safety: single guarded input-notification site, constant-false notify flag at every non-acknowledging finalize call, acknowledgement sites, send-before-commit on all worker paths, the sequenced commit region (wait loop / +1 under lock / broadcast), retry-loop exits, detach guard, single sequencer. It does not decide that a concrete schedule respects the frontier."),
 "C02": ("who-may-call + typestate/CFG path rules + interprocedural lock-region dataflow over go/ssa", "§3 C02",
   "Decides structural necessary conditions of in-order exactly-once commits: single guarded attach site with pop-under-lock, the stream-queue lock table at every access, FIFO batch fill under the fill lock and ascending commit loop, exactly-one-finalize shape of every ActionResult case, hold<->propagate typestate, FIFO enqueue/dequeue shape, single sequencer. It does not decide the order or uniqueness of a concrete commit history."),
 "C04": ("sync.Cond monitor-discipline and lock-region dataflow, guard-formula normalisation with sibling agreement, CFG path rules, call-graph reachability (CHA quick / VTA thorough)", "§3 C04",
   "Decides structural necessary conditions of 'no wedge': monitor discipline of every lock-protected sync.Cond (wait loop; producer writes under the lock followed by Signal/Broadcast), heartbeat presence and polarity for both lock-free event pools with sibling agreement, charge/re-charge protocol, blocked-stream time-out machinery, flush heartbeat with age clause, worker never reaches the fill lock. It does not decide any bound on time."),
 "C05": ("who-may-call on the unexported pool interface, must-pass-through CFG rules with consumption summaries, +1/0/-1 effect balance of the in-use counters", "§3 C05",
   "Decides structural necessary conditions of capacity/conservation: who may get/back; every path of In after get streams the event or returns it (and never both); low-memory admission under Inc()<=capacity with undo before waiting; one Inc per get / one Dec per back and slot = counter mod capacity for the standard pool; finalizer returns only regular events when asked, once; every foreign Event literal is re-kinded. It does not decide the count under a concrete interleaving nor the slot CAS protocol."),
 "C08": ("lock-region dataflow with release-aware interprocedural summaries (send vs close), CFG must-pass rules, guard-clause normalisation of the readiness formula", "§3 C08",
   "Decides structural necessary conditions of the batcher contract: append-then-check in one fill-lock region, every send on the closable channel inside the lock region behind the stop-flag test, batch=nil/seq before the send under the lock, count clause >= and bytes clause <= with limit-set guards, sequenced commit, flush heartbeat, worker never takes the fill lock, stop shape. It does not decide byte/count arithmetic over arrival patterns nor flush latency."),
 "C09": ("CFG control-dependence rules with polarity on the retry loop, loop-counter shape for the attempt lower bound, sibling agreement over all NewRetriableBatcher call sites", "§3 C09",
   "Decides structural necessary conditions of one-way routing of a failed batch: retry-loop exits and attempt lower bound, exhaustion path (callback once with the batch's events; reset+InDeadQueue iff the dead-queue flag, both directions), commit loads events after the send, nine sibling onError closures agree (unconditional Fail loop over every event, flag wired from the Router, fatal only without dead queue), Router.Fail shape. It does not decide pause growth or run-time issuer identity."),
 "C11": ("CFG control-dependence and must-pass rules on the request handler, read loop and chunk scanner; defer-based acquire/release pairing; lock table for the source-id free list", "§3 C11",
   "Decides structural necessary conditions of the HTTP input contract: success response only on the processBulk==nil edge; read-loop exits (n==0 ∧ EOF / error), every chunk processed, carry-over threaded and flushed as last chunk; pooled buffers, gzip reader and source id released by dominating defers; free list under its mutex; one In per newline in the chunk scanner. It does not decide that the emitted lines equal the body's lines."),
 "C20": ("CFG control-dependence classification of every refusal return; guard-clause and result-shape rules for the size check; constant-verdict and reachability rules inside IsSpam", "§3 C20",
   "Decides structural necessary conditions of admission control: the refusal returns of In/streamEvent are exactly the documented reasons; checkInputBytes refuses/cuts/passes under exactly the documented guards with result shape bytes[:max](+newline); IsSpam is gated by threshold>=0 ∧ !partial; inside IsSpam disabled/exception/new-source return false, a matching exception reaches no other verdict, constant true only for blocked, counting verdict is counter>=threshold. It does not decide ban/unban arithmetic over histories."),
 "C03": ("who-may-write classification of every writer of the committed offsets, interprocedural lock table, path-derived file-writer set, CFG control-dependence rules for persistence and resume", "§3 C03",
   "Narrow: decides structural necessary conditions only — writers of Job.offsets (commit with the event's own offset, forward only, ignoring pre-truncation events; truncation 0; load), Job lock table, only the saver (or the pre-start operator reset) touches the offsets files, sync-mode save after every stored offset / async saver goroutine / save on stop, resume from the minimum saved stream offset and PassEvent refusing exactly offset<=saved. Nothing about kill instants, rotation or truncation histories is decided."),
 "C07": ("CFG success-edge ordering (write -> fsync -> rename) with interprocedural durable-helper summaries, def-use of file names, lock-region check of the snapshot, writer/reader token agreement, raw-name taint into the line format", "§3 C07",
   "Decides structural necessary conditions of an always-loadable offsets file: every rename onto an offsets file only behind the success edges of write and fsync of the same temp file (both savers), temp != live, single writer, snapshot under each job's lock and the saver's mutex, writer tokens = reader tokens, raw names reaching the line format (known finding K3). It does not decide load(save(x)) = x."),
 "C10": ("constant agreement between sibling pack/unpack functions, def-use provenance of the commit mark, who-may-call on kgo MarkCommit*, range-index agreement of the topic table, statefulness check of Commit for spread inputs", "§3 C10",
   "Decides structural necessary conditions of the Kafka commit contract: pack/unpack shift/mask agreement and +1, mark provenance (event's own id/offset, config.Topics[index]), topic index = position in config.Topics, marks only in InputPlugin.Commit, and the spread+stateless-Commit combination (known finding K2). It does not decide that the head never passes an unfinished record under a concrete schedule."),
 "C16": ("lock-region dataflow with wrapper summaries over the limiter and limiter-map state, dominance of add before get with equal index arguments, def-use of the map key, control dependence of the rule loop", "§3 C16",
   "Thin: decides only that in-memory limiter state is touched inside lock()/unlock(), add precedes get for the same bucket/distribution and the verdict is value<=limit, the limiter map is accessed under its mutex with a key built from rule part and throttle key, and the first matching rule decides. No counting clause of the statement is decided; redis backend out of scope."),
 "C14": ("enum/switch exhaustiveness over the typed AST, tag-to-primitive agreement and logical-operator shape over go/ssa guard facts, side-effect (purity) scan of evaluation methods", "§3 C14",
   "Thin: decides that every do_if operator constant is constructed and explicitly handled in every evaluation switch; that each comparison tag, field operator and logical operator is implemented by the matching primitive/shape; that evaluation is pure; and the or/and/invert shapes of legacy match_fields. The value-list short-cuts, value ordering, case folding and timestamp parsing are not decided."),
 "C19": ("typed-AST reset-before-append rule over every batched output's send function, raw-string taint into byte-buffer appends in output packages, sibling agreement of the split-and-resend helpers, CFG rules for the Kafka record loop and Batch.ForEach", "§3 C19",
   "Decides structural necessary conditions of well-formed exactly-once payloads: per-event buffers truncated before iteration in all ten batched outputs, no raw event string appended to an output buffer, split halves (left,m)/(m,right) with the second only after the first succeeded and body data[begin[left]:begin[right]], one Kafka record slot per callback and messages[:i] produced, ForEach visiting every event but split parents in order. It does not decide byte-level validity of a payload."),
 "C12": ("difference-constraint (ABCD-style) bounds prover over go/ssa with phi-per-edge proofs, global load numbering, library post-conditions and conditional helper summaries; exit / unchecked-assertion reachability; parameter-buffer write enumeration; lock-region and alias-after-unlock check", "§3 C12",
   "Decides that every index/slice expression of the decode path is in bounds (each clause separately: lower, order, upper vs cap) by proof or by a reviewed entry with its reason; that no process exit, explicit panic or unchecked type assertion is reachable there outside the reviewed table; that writes into the caller's data buffer are exactly the enumerated reviewed ones; that mutex-protected decoder scratch state is not accessed or aliased outside its lock. It does not decide fidelity, 'exactly its fields' or JSON validity after cuts."),
 "C13": ("the C12 bounds prover over everything reachable (CHA) from every ActionPlugin.Do, exit / unchecked-assertion reachability, nil-receiver check against the nil-unsafe method set derived from insane-json's own SSA, writer-set invariants backing the reviewed table", "§3 C13",
   "Decides that every index/slice clause reachable from any action's Do is in bounds by proof or reviewed entry, that no process exit / panic / unchecked assertion is reachable there outside the reviewed table and the known findings (K5 mask group order, K6 k8s multi-line log field), that no receiver-dereferencing node method is called on a possibly-nil Dig result, and that the object invariants the reviewed reasons quote (parallel slices written only at Start, multi-line buffer keeps its first byte) hold. It does not decide termination, JSON well-formedness after the action, or 'one of the defined results'."),
 "C15": ("typestate / CFG path rules on the hold-propagate protocol and the processor's busy loop, global-write scan of the multi-line actions, co-reset of the k8s accumulators", "§3 C15",
   "Decides structural necessary conditions of multi-line reassembly: hold<->propagate typestate, receiver-local run state, same-stream blockGet with the stream captured before the actions run, busy actions not match-filtered, Propagate clearing the busy mark before re-entry, k8s accumulators reset together. It does not decide that the joined field is the in-order concatenation of the run."),
}
NA = {
 "C06": "the claim is an equation between runtime byte positions (offset = start + scanned) for every content, buffer size and append split; no sound static argument in reach bounds it, and the only structural proxies are matches on one loop's arithmetic (a frozen fragment)",
 "C17": "equality of the rewritten value with a reference for all regexps and group shapes is a value equation; nothing in the shape of the code implies it (the mask package's crash obligations are decided under C13)",
 "C18": "equality with the naive project/subtract function over all JSON objects and selector sets is a value equation over runtime data; no structural necessary condition that is not a frozen fragment",
}
# properties not yet built are listed as not applicable *for now* with that reason
ALL = ["C%02d" % i for i in range(1, 21)]
checks = []
for pid in ALL:
    if pid in claimed:
        tech, ref, text = claimed[pid]
        checks.append({
            "property_id": pid,
            "quick_cmd": "./bin/fdcheck -prop %s -tier quick" % pid,
            "thorough_cmd": "./bin/fdcheck -prop %s -tier thorough" % pid,
            "evidence_file": "/verif/evidence/%s.json" % pid,
            "replay_cmd_template": "./bin/fdcheck -prop %s -tier quick -noselftest -explain {path}" % pid,
            "engine": "fdcheck",
            "level_claimed": {"category": "other", "text": text, "design_ref": "DESIGN.md " + ref},
            "level_note": "trusted: go/types, go/ssa, x/tools call resolution, the Go toolchain's go list; frozen tables (terminators, lock protection, reviewed obligations) each entry with a reason; lock identity by access path; analysis is of the linux/amd64 default-tag build of /repo's current working tree, test files excluded",
            "technique": "static analysis: " + tech,
        })
na = [{"property_id": p, "reason": r} for p, r in NA.items()]
for pid in ALL:
    if pid not in claimed and pid not in NA:
        na.append({"property_id": pid, "reason": "check not built yet in this session (planned in DESIGN.md §3); not claimed until its rules run"})
m = {
 "version": 1,
 "setup_cmd": "cd /verif/checker && GOFLAGS=-mod=mod GOPROXY=off GOWORK=off go build -o /verif/bin/fdcheck.bin .",
 "hooks": {"guard": "verif", "enable": "none needed: static analysis reads /repo's source; no file in /repo uses the tag", "baseline_off_cmd": BASE, "source_commits": [], "add_only": True},
 "engines": [{"name": "fdcheck", "path": "/verif/checker", "serves_properties": sorted(claimed), "kind_free_text": "repository-specific static analyser over go/packages + go/ssa (x/tools v0.29.0): who-may-call, CFG path rules, lock/cond dataflow, bounds prover, exit reachability, taint, sibling agreement"}],
 "checks": checks,
 "not_applicable": sorted(na, key=lambda x: x["property_id"]),
 "notes": "All checks are static: nothing in /repo is executed. Exit 1 + VIOLATION line on any violated, undecided or unresolved obligation; KNOWN-FINDING lines for entries of known_findings.json.",
}
json.dump(m, open(os.path.join(root, "MANIFEST.json"), "w"), indent=1)
print("wrote MANIFEST.json:", len(checks), "checks", len(na), "n/a")
