#!/bin/sh
# applies every kept seeded change to /repo (or $REPO, a copy) in turn, runs the quick check of its property, undoes it.
# prints one line per seed: CAUGHT / MISSED / NOAPPLY
R="${REPO:-/repo}"
cd "$R" || exit 2
git diff --quiet || { echo "$R not clean"; exit 2; }
for d in /verif/seeded/*/; do
  id=$(basename "$d"); prop=${id%%-*}
  [ -f "$d/patch.diff" ] || continue
  P="$d/patch.diff"; [ -f "$d/patch.ported-to-fixed-tree.diff" ] && P="$d/patch.ported-to-fixed-tree.diff"
  if ! git apply "$P" 2>/dev/null; then echo "$id NOAPPLY"; continue; fi
  out=$(cd /verif && FDCHECK_NO_EVIDENCE=1 ./bin/fdcheck -repo "$R" -prop "$prop" -noselftest 2>&1)
  if echo "$out" | grep -q "^VIOLATION"; then echo "$id CAUGHT $(echo "$out" | grep '\[key ' | head -1 | sed 's/.*\[key //')"; else echo "$id MISSED"; fi
  git checkout -q -- . ; git clean -fdq -- . 2>/dev/null
done
