#!/bin/sh
# usage: tryrefac.sh <patch> : apply a behaviour-preserving patch to /repo, run ALL checks (quick, no self-test,
# no evidence), print every alarm (each one is a false alarm), undo the patch.
P="$1"
cd /repo || exit 2
git diff --quiet || { echo "/repo not clean"; exit 2; }
git apply "$P" || { echo "PATCH DOES NOT APPLY"; exit 3; }
T=$(mktemp -d /tmp/refac.XXXXXX)
cd /verif
for p in C01 C02 C03 C04 C05 C06 C07 C08 C09 C10 C11 C12 C13 C14 C15 C16 C17 C18 C19 C20; do echo $p; done | xargs -P 10 -I{} sh -c "FDCHECK_NO_EVIDENCE=1 ./bin/fdcheck -prop {} -noselftest > $T/{}.out 2>&1"
n=0
for p in C01 C02 C03 C04 C05 C06 C07 C08 C09 C10 C11 C12 C13 C14 C15 C16 C17 C18 C19 C20; do
  if grep -a -q "^VIOLATION\|LOAD-FAILURE" $T/$p.out; then n=$((n+1)); echo "ALARM $p:"; grep -a "rule C\|LOAD-FAILURE" $T/$p.out | grep -v "^  rule" | grep -v KNOWN-FINDING | cut -c1-330 | head -6; fi
done
[ $n -eq 0 ] && echo "SILENT (all 20 checks pass)"
rm -rf $T
git -C /repo checkout -q -- . ; git -C /repo clean -fdq -- . 2>/dev/null; git -C /repo status --short | head -3
