#!/bin/sh
# usage: [REPO=/some/copy] tryrefac.sh <patch> : apply a behaviour-preserving patch to the repository copy, run ALL
# checks in one process (quick rules, no self-test, no evidence), print every alarm (each one is a false alarm), undo the patch.
P="$1"; R="${REPO:-/repo}"
cd "$R" || exit 2
git diff --quiet || { echo "$R not clean"; exit 2; }
git apply "$P" || { echo "PATCH DOES NOT APPLY"; exit 3; }
out=$(cd /verif && ./bin/fdcheck -repo "$R" -all 2>&1)
if echo "$out" | grep -a -q "^VIOLATION\|LOAD-FAILURE"; then
  echo "$out" | grep -a "^=== \|: rule C\|LOAD-FAILURE\|^normal form" | grep -v "KNOWN-FINDING" | awk '/^=== /{h=$0; next} /^normal form/{next} {if(h!=""){print "ALARM " substr(h,5) ":"; h=""} print}' | cut -c1-330
else
  echo "SILENT (all 20 checks pass)"
fi
echo "$out" | grep -a "^normal form" | sort -u | head -4 | cut -c1-200
git -C "$R" checkout -q -- . ; git -C "$R" clean -fdq -- . 2>/dev/null; git -C "$R" status --short | head -3
