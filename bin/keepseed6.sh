#!/bin/sh
# usage: keepseed2.sh <prop> <srcletter> <outletter> <pkgdir> <TestName> [pkgs whose existing tests to run with the change...]
# round 6: sub-agent worktrees live in /tmp/wt8/<prop>; stored under /verif/seeded/<prop>-<outletter>/
PROP="$1"; L="$2"; O="$3"; PKG="$4"; TN="$5"; shift 5
WT=/tmp/wt8/$PROP; SD=$WT/_seed/$L; OUT=/verif/seeded/$PROP-$O
mkdir -p "$OUT"
/verif/bin/confirmseed.sh "$WT" "$SD" "$PKG" "$TN" "$@" > "$OUT/confirm.log" 2>&1
cp "$SD/patch.diff" "$OUT/patch.diff"
cp "$SD"/zz_seed_demo_test.go "$OUT/zz_seed_demo_test.go.txt" 2>/dev/null || for f in "$SD"/*_test.go; do cp "$f" "$OUT/$(basename $f).txt"; done
cp "$SD/README.md" "$OUT/README.md"
echo "demo_pkg=$PKG demo_test=$TN tests_run=$*" > "$OUT/how.txt"
tail -25 "$OUT/confirm.log"
