#!/bin/sh
# usage: keepseed.sh <prop> <letter> <pkgdir> <TestName> [pkgs whose existing tests to run with the change...]
# confirms a sub-agent's seeded change in its scratch worktree and stores it under /verif/seeded/<prop>-<letter>/
PROP="$1"; L="$2"; PKG="$3"; TN="$4"; shift 4
WT=/tmp/wt/$PROP; SD=$WT/_seed/$L; OUT=/verif/seeded/$PROP-$L
mkdir -p "$OUT"
/verif/bin/confirmseed.sh "$WT" "$SD" "$PKG" "$TN" "$@" > "$OUT/confirm.log" 2>&1
cp "$SD/patch.diff" "$OUT/patch.diff"
cp "$SD"/zz_seed_demo_test.go "$OUT/zz_seed_demo_test.go.txt" 2>/dev/null || for f in "$SD"/*_test.go; do cp "$f" "$OUT/$(basename $f).txt"; done
cp "$SD/README.md" "$OUT/README.md"
echo "demo_pkg=$PKG demo_test=$TN tests_run=$*" > "$OUT/how.txt"
tail -25 "$OUT/confirm.log"
