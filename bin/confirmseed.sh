#!/bin/sh
# usage: confirmseed.sh <worktree> <seeddir> <pkgdir> <TestName> [extra pkgs to test with the change]
# confirms: demo FAILS with the patch, PASSES without; touched package tests pass with the patch
WT="$1"; SD="$2"; PKG="$3"; TN="$4"; shift 4
export GOFLAGS=-mod=mod GOPROXY=off
cd "$WT" || exit 2
git checkout -q -- . ; rm -f "$PKG/zz_seed_demo_test.go"
cp "$SD"/zz_seed_demo_test.go "$PKG/zz_seed_demo_test.go" 2>/dev/null || cp "$SD"/*_test.go "$PKG/zz_seed_demo_test.go"
echo "--- pristine (expect PASS)"; go test -vet=off -count=1 -timeout 300s -run "^$TN\$" ./$PKG/ 2>&1 | tail -4
git apply "$SD/patch.diff" || { echo "PATCH DOES NOT APPLY"; exit 3; }
echo "--- with change (expect FAIL)"; go test -vet=off -count=1 -timeout 300s -run "^$TN\$" ./$PKG/ 2>&1 | grep -a -v "^{\"level" | tail -12
rm -f "$PKG/zz_seed_demo_test.go"
echo "--- existing tests with change"; go build ./... && for p in "$@"; do go test -vet=off -count=1 -timeout 900s ./$p/ 2>&1 | tail -2; done
git checkout -q -- . ; git status --short | grep -v _seed | head
