#!/bin/sh
# applies every kept behaviour-preserving refactoring to /repo in turn and runs ALL checks; prints SILENT or the alarms.
for d in /verif/refactors/${1:-*}/; do
  id=$(basename "$d")
  echo "##### $id"
  /verif/bin/tryrefac.sh "$d/patch.diff" 2>&1 | cut -c1-260
done
