#!/usr/bin/env python3
"""Maintenance tool (never run by a check): rebuilds reviewed_obligations.json for one property from
the current violations file, using the hand-written reasons in review/reasons_<prop>.py. An
obligation without a reason is printed and left out (so the check keeps reporting it)."""
import json, sys, importlib.util, os
root = os.path.dirname(os.path.dirname(os.path.abspath(__file__)))
prop = sys.argv[1]
spec = importlib.util.spec_from_file_location("r", os.path.join(root, "review", "reasons_%s.py" % prop.lower()))
mod = importlib.util.module_from_spec(spec); spec.loader.exec_module(mod)
path = os.path.join(root, "reviewed_obligations.json")
cur = json.load(open(path)) if os.path.exists(path) else []
cur = [e for e in cur if e["property"] != prop]
vf = os.path.join(root, "evidence", prop + ".violations.json")
new, missing = [], []
# run with an empty table for this property first so that the violations file lists everything
for x in json.load(open(vf)) if os.path.exists(vf) else []:
    r = mod.reason(x["key"])
    if r:
        e = {"property": prop, "key": x["key"], "reason": r}
        if x.get("nkey"): e["nkey"] = x["nkey"]
        new.append(e)
    else: missing.append(x)
json.dump(cur + new, open(path, "w"), indent=1)
print("reviewed entries for %s: %d; without a reason (left as violations): %d" % (prop, len(new), len(missing)))
for x in missing: print("  ", x["pos"], x["key"])
