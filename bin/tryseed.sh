#!/bin/sh
# usage: tryseed.sh <patch> <prop>... : apply a seeded patch to /repo, run quick checks, undo
P="$1"; shift
cd /repo || exit 2
git diff --quiet || { echo "/repo not clean"; exit 2; }
git apply "$P" || { echo "patch does not apply"; exit 3; }
for prop in "$@"; do
  (cd /verif && FDCHECK_NO_EVIDENCE=1 ./bin/fdcheck -prop "$prop" -noselftest | grep -v "^  rule" | grep -v KNOWN-FINDING | cut -c1-400)
done
git -C /repo checkout -- . ; git -C /repo status --short | head
