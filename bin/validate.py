#!/usr/bin/env python3
"""validate MANIFEST.json and evidence/*.json against the schemas in /root/.vp"""
import json, sys, glob, os
import jsonschema
root = os.path.dirname(os.path.dirname(os.path.abspath(__file__)))
ms = json.load(open('/root/.vp/MANIFEST.schema.json'))
es = json.load(open('/root/.vp/EVIDENCE.schema.json'))
m = json.load(open(os.path.join(root, 'MANIFEST.json')))
jsonschema.validate(m, ms)
print('MANIFEST ok:', len(m['checks']), 'checks,', len(m.get('not_applicable', [])), 'n/a')
ids = set()
for l in open(os.path.join(root, 'properties.jsonl')):
    ids.add(json.loads(l)['id'])
claimed = {c['property_id'] for c in m['checks']}
na = {c['property_id'] for c in m.get('not_applicable', [])}
assert claimed | na == ids and not (claimed & na), (ids - claimed - na, claimed & na)
for c in m['checks']:
    p = os.path.join(root, c['evidence_file'].replace('/verif/', ''))
    if not os.path.exists(p):
        print('missing evidence', p); continue
    e = json.load(open(p))
    jsonschema.validate(e, es)
    assert e['level'] == c['level_claimed']['category']
    print(' ', c['property_id'], 'evidence ok: tier', e['tier'], 'obligations', e['coverage'].get('obligations'), 'violations', e.get('violations'))
