#!/usr/bin/env python3
"""usage: mkmeta.py <seed-id> <property> <change> <needs_to_manifest> <detected_by>  — writes seeded/<seed-id>/meta.json"""
import json, os, sys
sid, prop, change, needs, det = sys.argv[1:6]
d = os.path.join(os.path.dirname(os.path.dirname(os.path.abspath(__file__))), "seeded", sid)
how = open(os.path.join(d, "how.txt")).read().strip()
json.dump({
    "id": sid, "property": prop, "change": change, "needs_to_manifest": needs,
    "source": "independent sub-agent (round 2) given only the property record, a scratch worktree and one-line descriptions of the two changes already collected for the property",
    "confirmed": "demo passes on the pristine tree and fails with the patch; existing tests of the touched packages pass with the patch (see confirm.log)",
    "ran": how + "; bin/confirmseed.sh in the sub-agent's scratch worktree; bin/tryseed.sh <patch> <prop> against /repo (applied with git apply, undone with git checkout)",
    "detected_by": det,
}, open(os.path.join(d, "meta.json"), "w"), indent=1)
print("wrote", sid)
