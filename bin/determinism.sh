#!/bin/sh
# Maintenance tool: run every claimed check twice, with the guard-fact order reversed the second
# time, and compare the full set of obligation keys and verdicts. Rules must not depend on the order
# in which facts, call sites or map entries are enumerated.
cd "$(dirname "$0")/.." || exit 2
T=$(mktemp -d /tmp/fddet.XXXXXX); rc=0
for p in ${*:-C01 C02 C03 C04 C05 C06 C07 C08 C09 C10 C11 C12 C13 C14 C15 C16 C17 C18 C19 C20}; do
  FDCHECK_NO_EVIDENCE=1 FDCHECK_DUMP_KEYS=$T/$p.a ./bin/fdcheck -prop $p -noselftest >/dev/null 2>&1
  FDCHECK_SHUFFLE=1 FDCHECK_NO_EVIDENCE=1 FDCHECK_DUMP_KEYS=$T/$p.b ./bin/fdcheck -prop $p -noselftest >/dev/null 2>&1
  FDCHECK_NO_EVIDENCE=1 FDCHECK_DUMP_KEYS=$T/$p.c ./bin/fdcheck -prop $p -tier thorough -noselftest >/dev/null 2>&1
  if cmp -s $T/$p.a $T/$p.b && cmp -s $T/$p.a $T/$p.c; then echo "$p deterministic ($(wc -l <$T/$p.a) obligations)"; else echo "$p DIFFERS"; diff $T/$p.a $T/$p.b | head -5; diff $T/$p.a $T/$p.c | head -5; rc=1; fi
done
rm -rf $T; exit $rc
